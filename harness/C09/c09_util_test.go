//go:build go1.21

package ratelimiter

// C09 (a)+(c): the limiter library under a virtual clock, judged by an independent per-period
// ledger written from the property statement (never from the limiter's token arithmetic).

import (
	"fmt"
	"sort"
	"strings"
	"sync"
	"sync/atomic"
	"testing"
	"time"

	"pgregory.net/rapid"
)

// ---------------------------------------------------------------------------------------------
// virtual clock

var vfC09Epoch = time.Date(2021, 3, 4, 5, 6, 7, 0, time.UTC)

type vfC09Clock struct{ ns atomic.Int64 }

func (c *vfC09Clock) Now() time.Time          { return vfC09Epoch.Add(time.Duration(c.ns.Load())) }
func (c *vfC09Clock) Off() time.Duration      { return time.Duration(c.ns.Load()) }
func (c *vfC09Clock) Advance(d time.Duration) { c.ns.Add(int64(d)) }
func (c *vfC09Clock) install() (restore func()) {
	old := nowFunc
	nowFunc = c.Now
	return func() { nowFunc = old }
}

// ---------------------------------------------------------------------------------------------
// the oracle: a ledger of reserved permits per refresh period

// vfC09Ledger books, for one limit dimension, how many permits of every refresh period
// [start+jP, start+(j+1)P) are taken by admitted requests (release time = arrival + wait).
// An admission of n permits (n > 1 only for the MQTT byte dimension) takes the free permits of
// its release period first and the rest from the following periods.
type vfC09Ledger struct {
	L     int
	P     time.Duration
	start time.Duration // creation instant of the limiter on the virtual clock
	rel   map[int64]int
	// literal counters of the statement
	admitted map[int64]int // admitted requests released in period j
	units    map[int64]int // admitted units (bytes) released in period j
}

func vfC09NewLedger(limit int, period, start time.Duration) *vfC09Ledger {
	return &vfC09Ledger{L: limit, P: period, start: start, rel: map[int64]int{}, admitted: map[int64]int{}, units: map[int64]int{}}
}

func (g *vfC09Ledger) period(at time.Duration) int64 { return int64((at - g.start) / g.P) }

func (g *vfC09Ledger) reserve(j int64, n int) {
	g.admitted[j]++
	g.units[j] += n
	for n > 0 {
		free := g.L - g.rel[j]
		if free > 0 {
			take := free
			if n < take {
				take = n
			}
			g.rel[j] += take
			n -= take
		}
		j++
	}
}

func (g *vfC09Ledger) fullThrough(j0 int64, k int64) bool {
	for j := j0; j <= j0+k; j++ {
		if g.rel[j] < g.L {
			return false
		}
	}
	return true
}

// vfC09Verdict is what one observation adds to the case statistics.
type vfC09Verdict struct {
	key, msg        string // violation (key == "" : none)
	immediate       bool
	waited          bool
	rejected        bool
	ambiguousStrict bool // rejection justified in whole periods, but a period that starts before arrival+T still has a free permit
}

// vfC09Observe judges one acquisition against the ledgers (one per limit dimension; all share
// period, start and timeout) and books it. counts[i] is the number of permits asked of dimension i.
func vfC09Observe(ls []*vfC09Ledger, counts []int, T time.Duration, at time.Duration, permitted bool, wait time.Duration) (v vfC09Verdict) {
	g0 := ls[0]
	j0 := g0.period(at)
	k := int64(T / g0.P)
	if permitted {
		w := wait
		if w < 0 {
			w = 0 // every caller treats a non-positive wait as "proceed now"
		}
		if w > T {
			v.key = "wait-exceeds-timeout"
			v.msg = fmt.Sprintf("admitted request arriving at +%v was told to wait %v > timeoutDuration %v", at-g0.start, wait, T)
			return
		}
		spare := true
		for _, g := range ls {
			if g.rel[j0] >= g.L {
				spare = false
			}
		}
		if spare && w > 0 {
			v.key = "waits-despite-spare-permit"
			v.msg = fmt.Sprintf("request arriving at +%v (period %d, reserved %s) must proceed immediately but was told to wait %v", at-g0.start, j0, vfC09Rel(ls, j0), wait)
			return
		}
		jr := g0.period(at + w)
		for i, g := range ls {
			if g.rel[jr] >= g.L {
				v.key = "period-overbooked"
				v.msg = fmt.Sprintf("request arriving at +%v with wait %v is released in period %d whose %d permits (dimension %d) are all taken already (%d admitted requests released there)", at-g0.start, wait, jr, g.L, i, g.admitted[jr])
				return
			}
		}
		for i, g := range ls {
			g.reserve(jr, counts[i])
		}
		v.immediate = w == 0
		v.waited = w > 0
		return
	}
	v.rejected = true
	justified := false
	for _, g := range ls {
		if g.fullThrough(j0, k) {
			justified = true
		}
	}
	if !justified {
		v.key = "unjustified-rejection"
		v.msg = fmt.Sprintf("request arriving at +%v (period %d) rejected although a permit is free within the timeout horizon (periods %d..%d, reserved %s)", at-g0.start, j0, j0, j0+k, vfC09RelRange(ls, j0, j0+k))
		return
	}
	// strict reading of "timeout horizon": a period that begins no later than arrival+T
	if js := g0.period(at + T); js > j0+k {
		free := true
		for _, g := range ls {
			if g.rel[js] >= g.L {
				free = false
			}
		}
		v.ambiguousStrict = free
	}
	return
}

func vfC09Rel(ls []*vfC09Ledger, j int64) string {
	var p []string
	for _, g := range ls {
		p = append(p, fmt.Sprintf("%d/%d", g.rel[j], g.L))
	}
	return strings.Join(p, ",")
}

func vfC09RelRange(ls []*vfC09Ledger, a, b int64) string {
	var p []string
	for j := a; j <= b && j < a+16; j++ {
		p = append(p, vfC09Rel(ls, j))
	}
	return strings.Join(p, " ")
}

// ---------------------------------------------------------------------------------------------
// generators

type vfC09Pol struct {
	L      []int // one entry: RateLimiter; two: MultiRateLimiter asked for [1,1]
	P, T   time.Duration
	Start  time.Duration
	TClass string
}

func (p vfC09Pol) String() string {
	return fmt.Sprintf("limit=%v period=%v timeout=%v(%s) start=+%v", p.L, p.P, p.T, p.TClass, p.Start)
}

var vfC09Periods = []time.Duration{time.Millisecond, 10 * time.Millisecond, time.Second, 7 * time.Millisecond}

func vfC09GenPolicy(rt *rapid.T, allowMulti bool) vfC09Pol {
	p := vfC09Pol{}
	p.P = rapid.SampledFrom(vfC09Periods).Draw(rt, "period")
	tk := rapid.SampledFrom([]string{"0", "P/2", "P", "2.5P", "10P", "P-1ns", "2P", "1ns", "P+1ns"}).Draw(rt, "timeout")
	switch tk {
	case "0":
		p.T = 0
	case "P/2":
		p.T = p.P / 2
	case "P":
		p.T = p.P
	case "2.5P":
		p.T = p.P*2 + p.P/2
	case "10P":
		p.T = 10 * p.P
	case "P-1ns":
		p.T = p.P - 1
	case "2P":
		p.T = 2 * p.P
	case "1ns":
		p.T = 1
	case "P+1ns":
		p.T = p.P + 1
	}
	switch {
	case p.T == 0:
		p.TClass = "T=0"
	case p.T < p.P:
		p.TClass = "0<T<P"
	case p.T%p.P == 0:
		p.TClass = "T=kP"
	default:
		p.TClass = "T>P,fractional"
	}
	p.L = []int{rapid.IntRange(1, 5).Draw(rt, "limit")}
	if allowMulti && rapid.IntRange(0, 4).Draw(rt, "multi") == 0 {
		p.L = append(p.L, rapid.IntRange(1, 5).Draw(rt, "limit2"))
	}
	p.Start = rapid.SampledFrom([]time.Duration{0, 1, 123456789, 999999999}).Draw(rt, "start")
	return p
}

// gap kinds: burst, 1ns, P-1ns, exactly P, 3P, long idle, jump onto / just before / just after
// the next period boundary, half a period, 2P
var vfC09GapKinds = []string{"0", "0", "0", "0", "0", "0", "1ns", "P-1ns", "P", "3P", "1000P", "->boundary", "->boundary-1ns", "->boundary+1ns", "P/2", "2P", "0", "0"}

func vfC09Gap(kind string, P, off time.Duration) time.Duration {
	toB := P - off%P // (0, P]
	switch kind {
	case "0":
		return 0
	case "1ns":
		return 1
	case "P-1ns":
		return P - 1
	case "P":
		return P
	case "3P":
		return 3 * P
	case "1000P":
		return 1000 * P
	case "->boundary":
		return toB
	case "->boundary-1ns":
		return toB - 1
	case "->boundary+1ns":
		return toB + 1
	case "P/2":
		return P / 2
	case "2P":
		return 2 * P
	}
	panic("gap kind " + kind)
}

// vfC09Acquirer hides which limiter type is driven.
type vfC09Acquirer func() (bool, time.Duration)

func vfC09NewLimiter(p vfC09Pol) vfC09Acquirer {
	if len(p.L) == 1 {
		rl := New(NewPolicy(p.T, p.P, p.L[0]))
		return rl.AcquirePermission
	}
	ml := NewMulti(NewMultiPolicy(p.T, p.P, append([]int(nil), p.L...)))
	ones := make([]int, len(p.L))
	for i := range ones {
		ones[i] = 1
	}
	return func() (bool, time.Duration) {
		ok, d, err := ml.AcquirePermission(ones)
		if err != nil {
			panic(err)
		}
		return ok, d
	}
}

func vfC09Ledgers(p vfC09Pol) ([]*vfC09Ledger, []int) {
	var ls []*vfC09Ledger
	var ones []int
	for _, l := range p.L {
		ls = append(ls, vfC09NewLedger(l, p.P, p.Start))
		ones = append(ones, 1)
	}
	return ls, ones
}

// vfC09Stats accumulates what the non-trivial rule needs.
type vfC09Stats struct {
	rejects, waits, immediates int
	boundary, idle             bool
	ambiguous                  int
}

func (s *vfC09Stats) add(v vfC09Verdict) {
	if v.rejected {
		s.rejects++
	}
	if v.waited {
		s.waits++
	}
	if v.immediate {
		s.immediates++
	}
	if v.ambiguousStrict {
		s.ambiguous++
	}
}

func (s *vfC09Stats) arrival(P, off, gap time.Duration) {
	// within 1 ns of a boundary between two periods (the creation instant itself does not count)
	m := off % P
	if off >= P-1 && (m == 0 || m == 1 || m == P-1) {
		s.boundary = true
	}
	if gap >= 2*P {
		s.idle = true
	}
}

func (s *vfC09Stats) nontrivial() bool {
	return (s.rejects > 0 || s.waits > 0) && (s.boundary || s.idle)
}

func (s *vfC09Stats) classes(vf *vfCollector, prefix string) {
	if s.rejects > 0 {
		vf.Class(prefix + "seq-has-reject")
	}
	if s.waits > 0 {
		vf.Class(prefix + "seq-has-wait")
	}
	if s.boundary {
		vf.Class(prefix + "seq-has-boundary-arrival")
	}
	if s.idle {
		vf.Class(prefix + "seq-has-idle-gap>=2P")
	}
	if s.ambiguous > 0 {
		vf.Class(prefix + "ambiguous-reject-strict-horizon")
	}
	if s.rejects > 0 && s.waits > 0 {
		vf.Class(prefix + "seq-has-reject+wait")
	}
}

// ---------------------------------------------------------------------------------------------
// (a) sequential arrivals

func TestVerifC09Seq(t *testing.T) {
	vf := vfBegin(t, "C09")
	vf.maxSample = 2
	defer vf.End()
	rapid.Check(t, func(rt *rapid.T) {
		pol := vfC09GenPolicy(rt, true)
		clk := &vfC09Clock{}
		defer clk.install()()
		clk.Advance(pol.Start)
		acquire := vfC09NewLimiter(pol)
		ls, ones := vfC09Ledgers(pol)

		n := rapid.IntRange(1, 200).Draw(rt, "arrivals")
		var hist strings.Builder
		st := &vfC09Stats{}
		for i := 0; i < n; i++ {
			kind := rapid.SampledFrom(vfC09GapKinds).Draw(rt, "gap")
			gap := vfC09Gap(kind, pol.P, clk.Off()-pol.Start)
			clk.Advance(gap)
			at := clk.Off()
			st.arrival(pol.P, at-pol.Start, gap)
			ok, d := acquire()
			fmt.Fprintf(&hist, "+%d:%v/%d ", int64(at-pol.Start), ok, int64(d))
			v := vfC09Observe(ls, ones, pol.T, at, ok, d)
			if v.key != "" {
				if vf.Violation(rt, v.key+vfC09Kind(pol), "%s\npolicy: %s\nhistory (offset ns:permitted/wait ns): %s", v.msg, pol, hist.String()) {
					return
				}
			}
			st.add(v)
		}
		vf.Class("policy "+pol.TClass, "kind="+vfC09KindName(pol))
		vfC09AddClass(vf, "arrivals immediate", st.immediates)
		vfC09AddClass(vf, "arrivals waited", st.waits)
		vfC09AddClass(vf, "arrivals rejected", st.rejects)
		st.classes(vf, "")
		vf.Case(st.nontrivial(), pol.String()+"|"+hist.String(), func() interface{} {
			h := hist.String()
			if len(h) > 600 {
				h = h[:600] + "…"
			}
			return map[string]interface{}{"test": "seq", "policy": pol.String(), "arrivals": n, "rejected": st.rejects, "waited": st.waits,
				"history(offset ns:permitted/wait ns)": h}
		})
	})
}

func vfC09KindName(p vfC09Pol) string {
	if len(p.L) == 1 {
		return "RateLimiter"
	}
	return "MultiRateLimiter[1,1]"
}

func vfC09Kind(p vfC09Pol) string {
	if len(p.L) == 1 {
		return ""
	}
	return " (MultiRateLimiter, unit counts)"
}

// vfC09AddClass adds delta to a histogram counter (the helper only has +1).
func vfC09AddClass(c *vfCollector, name string, delta int) {
	c.mu.Lock()
	c.Classes[name] += delta
	c.mu.Unlock()
}

// ---------------------------------------------------------------------------------------------
// (a') concurrent acquirers at frozen instants

type vfC09Res struct {
	ok bool
	d  time.Duration
}

func TestVerifC09Conc(t *testing.T) {
	vf := vfBegin(t, "C09")
	vf.maxSample = 2
	defer vf.End()
	rapid.Check(t, func(rt *rapid.T) {
		pol := vfC09GenPolicy(rt, true)
		clk := &vfC09Clock{}
		defer clk.install()()
		clk.Advance(pol.Start)
		acquire := vfC09NewLimiter(pol)
		ls, ones := vfC09Ledgers(pol)

		rounds := rapid.IntRange(1, 12).Draw(rt, "rounds")
		var hist strings.Builder
		st := &vfC09Stats{}
		for r := 0; r < rounds; r++ {
			kind := rapid.SampledFrom(vfC09GapKinds).Draw(rt, "gap")
			gap := vfC09Gap(kind, pol.P, clk.Off()-pol.Start)
			clk.Advance(gap)
			at := clk.Off()
			st.arrival(pol.P, at-pol.Start, gap)
			g := rapid.IntRange(2, 8).Draw(rt, "goroutines")
			per := rapid.IntRange(1, 3).Draw(rt, "perGoroutine")
			res := make([][]vfC09Res, g)
			var wg sync.WaitGroup
			startCh := make(chan struct{})
			for i := 0; i < g; i++ {
				wg.Add(1)
				go func(i int) {
					defer wg.Done()
					<-startCh
					for k := 0; k < per; k++ {
						ok, d := acquire()
						res[i] = append(res[i], vfC09Res{ok, d})
					}
				}(i)
			}
			close(startCh) // the clock is frozen until all have returned
			wg.Wait()
			var all []vfC09Res
			for _, x := range res {
				all = append(all, x...)
			}
			// some order must satisfy the ledger: admitted by increasing wait, rejections last
			sort.Slice(all, func(a, b int) bool {
				if all[a].ok != all[b].ok {
					return all[a].ok
				}
				return all[a].d < all[b].d
			})
			fmt.Fprintf(&hist, "+%d[", int64(at-pol.Start))
			for _, x := range all {
				fmt.Fprintf(&hist, "%v/%d ", x.ok, int64(x.d))
			}
			hist.WriteString("] ")
			for _, x := range all {
				v := vfC09Observe(ls, ones, pol.T, at, x.ok, x.d)
				if v.key != "" {
					if vf.Violation(rt, "concurrent "+v.key+vfC09Kind(pol), "%s\npolicy: %s\nhistory (offset ns[sorted permitted/wait ns of the concurrent acquirers]): %s", v.msg, pol, hist.String()) {
						return
					}
				}
				st.add(v)
			}
		}
		vf.Class("conc policy "+pol.TClass, "conc kind="+vfC09KindName(pol))
		st.classes(vf, "conc ")
		vf.Case(st.nontrivial(), "conc|"+pol.String()+"|"+hist.String(), func() interface{} {
			h := hist.String()
			if len(h) > 600 {
				h = h[:600] + "…"
			}
			return map[string]interface{}{"test": "concurrent", "policy": pol.String(), "rounds": rounds, "rejected": st.rejects, "waited": st.waits, "history": h}
		})
	})
}

// ---------------------------------------------------------------------------------------------
// (c) the MQTT usage pattern (timeout 0, waits ignored): request limiter, byte limiter,
// request+byte MultiRateLimiter, driven exactly like mqttproxy.Limiter.acquirePermission does

func TestVerifC09MqttPattern(t *testing.T) {
	vf := vfBegin(t, "C09")
	vf.maxSample = 2
	defer vf.End()
	rapid.Check(t, func(rt *rapid.T) {
		mode := rapid.SampledFrom([]string{"request", "bytes", "request+bytes", "request+bytes"}).Draw(rt, "mode")
		P := time.Duration(rapid.SampledFrom([]int{1, 2, 60, 3600}).Draw(rt, "timePeriod")) * time.Second
		reqRate := rapid.IntRange(1, 5).Draw(rt, "requestRate")
		byteRate := rapid.SampledFrom([]int{1, 10, 64, 100, 257, 1000}).Draw(rt, "bytesRate")
		start := rapid.SampledFrom([]time.Duration{0, 1, 123456789}).Draw(rt, "start")
		clk := &vfC09Clock{}
		defer clk.install()()
		clk.Advance(start)

		var acquire func(bytes int) (bool, time.Duration)
		var ls []*vfC09Ledger
		var reqL, byteL *vfC09Ledger
		switch mode {
		case "request":
			rl := New(NewPolicy(0, P, reqRate))
			acquire = func(int) (bool, time.Duration) { return rl.AcquirePermission() }
			reqL = vfC09NewLedger(reqRate, P, start)
			ls = []*vfC09Ledger{reqL}
		case "bytes":
			rl := New(NewPolicy(0, P, byteRate))
			acquire = func(b int) (bool, time.Duration) { return rl.AcquireNPermission(b) }
			byteL = vfC09NewLedger(byteRate, P, start)
			ls = []*vfC09Ledger{byteL}
		default:
			ml := NewMulti(NewMultiPolicy(0, P, []int{reqRate, byteRate}))
			acquire = func(b int) (bool, time.Duration) {
				ok, d, err := ml.AcquirePermission([]int{1, b})
				if err != nil {
					panic(err)
				}
				return ok, d
			}
			reqL = vfC09NewLedger(reqRate, P, start)
			byteL = vfC09NewLedger(byteRate, P, start)
			ls = []*vfC09Ledger{reqL, byteL}
		}
		pol := fmt.Sprintf("mode=%s timePeriod=%v requestRate=%d bytesRate=%d start=+%v", mode, P, reqRate, byteRate, start)

		n := rapid.IntRange(1, 120).Draw(rt, "packets")
		var hist strings.Builder
		st := &vfC09Stats{}
		bigPacket, multiPacket := false, false
		for i := 0; i < n; i++ {
			kind := rapid.SampledFrom(vfC09GapKinds).Draw(rt, "gap")
			gap := vfC09Gap(kind, P, clk.Off()-start)
			clk.Advance(gap)
			at := clk.Off()
			st.arrival(P, at-start, gap)
			size := rapid.SampledFrom([]int{10, 12, 13, 20, 33, 64, 100, 128, 300, 1500}).Draw(rt, "size")
			if size > byteRate {
				bigPacket = true
			}
			ok, d := acquire(size)
			fmt.Fprintf(&hist, "+%d:%dB:%v ", int64(at-start), size, ok)
			j := ls[0].period(at)
			if ok {
				// the literal clauses of the statement
				if reqL != nil && reqL.admitted[j] >= reqRate {
					if vf.Violation(rt, "mqtt-pattern more-than-requestRate-packets-admitted-in-a-period mode="+mode, "packet %d admitted as number %d of period %d\n%s\nhistory: %s", i, reqL.admitted[j]+1, j, pol, hist.String()) {
						return
					}
				}
				if byteL != nil && byteL.units[j] >= byteRate {
					if vf.Violation(rt, "mqtt-pattern admitted-bytes-exceed-bytesRate-by-a-whole-packet mode="+mode, "packet %d (%d bytes) admitted in period %d which already admitted %d >= bytesRate %d bytes\n%s\nhistory: %s", i, size, j, byteL.units[j], byteRate, pol, hist.String()) {
						return
					}
				}
			}
			if ok && byteL != nil && byteL.admitted[j] >= 1 {
				multiPacket = true
			}
			counts := []int{1}
			if mode == "bytes" {
				counts = []int{size}
			} else if mode != "request" {
				counts = []int{1, size}
			}
			if ok {
				d = 0 // mqttproxy.Limiter ignores the wait: the packet proceeds at its arrival instant
			}
			v := vfC09Observe(ls, counts, 0, at, ok, d)
			if v.key != "" {
				if vf.Violation(rt, "mqtt-pattern "+v.key+" mode="+mode, "%s\n%s\nhistory (offset ns:size:admitted): %s", v.msg, pol, hist.String()) {
					return
				}
			}
			st.add(v)
		}
		vf.Class("mqtt mode="+mode, fmt.Sprintf("mqtt timePeriod=%v", P))
		if bigPacket {
			vf.Class("mqtt packet-larger-than-bytesRate")
		}
		if multiPacket {
			vf.Class("mqtt byte-limited-period-admits-several-packets")
		}
		st.classes(vf, "mqtt ")
		vf.Case(st.nontrivial(), "mqtt|"+pol+"|"+hist.String(), func() interface{} {
			h := hist.String()
			if len(h) > 600 {
				h = h[:600] + "…"
			}
			return map[string]interface{}{"test": "mqtt-pattern", "policy": pol, "packets": n, "rejected": st.rejects, "history(offset ns:size:admitted)": h}
		})
	})
}
