//go:build go1.21

package httpserver

import (
	"fmt"
	"testing"

	"pgregory.net/rapid"
)

// TestVerifC01Route: differential check of the real mux (cache off) against the reference router.
func TestVerifC01Route(t *testing.T) {
	vf := vfBegin(t, "C01")
	defer vf.End()
	rapid.Check(t, func(rt *rapid.T) {
		srv := vfGenServer(rt, vfGenOpts{})
		srv.CacheSize = 0
		y := srv.YAML()
		// the set of existing backends changes during the case (a pipeline is deleted / created
		// while the server keeps its rules): "a matched backend name that does not exist yields 503"
		live := map[string]bool{}
		for k, v := range vfLive {
			live[k] = v
		}
		mapper := &vfMapper{live: live}
		m, err := vfNewMux(y, mapper)
		if err != nil {
			// the generator builds only shapes validation accepts; a rejection is a generator bug
			rt.Fatalf("VF-INCONCLUSIVE generator produced a spec that validation rejects: %v\n%s", err, y)
		}
		nreq := rapid.IntRange(4, 16).Draw(rt, "nreq")
		probes := vfBothProbes(srv)
		if len(probes) > 12 {
			probes = probes[:12]
		}
		if len(probes) > 0 {
			vf.Class("case-with-probes-of-a-values-and-regexp-header-condition")
		}
		readings := vfAllChoices
		for i := 0; i < nreq+len(probes); i++ {
			if i < nreq && rapid.IntRange(0, 4).Draw(rt, "flip-backend") == 0 {
				b := rapid.SampledFrom([]string{"p0", "p1", "p2", "p3"}).Draw(rt, "which-backend")
				live[b] = !live[b]
				vf.Class("backend-set-changed")
			}
			var req vfReq
			if i < nreq {
				req = vfGenReqFor(rt, srv, nil)
			} else {
				req = probes[i-nreq]
			}
			acc, ambiguous := vfAcceptable(srv, req, live)
			got := vfServe(m, mapper, req)

			// non-triviality (stated rule): >= 2 entries match host+path, or an entry ahead of the
			// chosen one rejected the request on method/header, or a rewrite is exercised
			hostPath, rejectedAhead, rewrite := 0, false, false
			var chosen vfOutcome
			for _, o := range acc {
				chosen = o
			}
			for ri, rule := range srv.Rules {
				if !vfHostMatches(rule, req.Host) {
					continue
				}
				for pi, p := range rule.Paths {
					if vfPathMatches(p, req.Path) {
						hostPath++
						if chosen.rule >= 0 && (ri < chosen.rule || (ri == chosen.rule && pi < chosen.path)) {
							rejectedAhead = true
						}
						if chosen.rule == ri && chosen.path == pi && p.Rewrite != "" {
							rewrite = true
						}
					}
				}
			}
			nontrivial := hostPath >= 2 || rejectedAhead || rewrite
			vf.Class(fmt.Sprintf("status=%d", got.Status))
			if ambiguous {
				vf.Class("ambiguous-reading")
			}
			if rewrite {
				vf.Class("rewrite")
			}
			if rejectedAhead {
				vf.Class("rejected-ahead")
			}
			if hostPath >= 2 {
				vf.Class("multi-match")
			}
			vf.Case(nontrivial, y+"||"+req.String(), func() interface{} {
				return map[string]interface{}{"spec": y, "request": req.String(), "outcome": got.key()}
			})

			if _, ok := acc[got.key()]; !ok {
				vf.Violation(rt, "route-mismatch", "request %s\nspec:\n%s\ngot %s, reference accepts %v", req, y, got.key(), vfKeys(acc))
				return
			}
			// one server implements ONE reading of what the statement leaves open
			if readings = vfConsistent(readings, srv, req, live, got.key()); len(readings) == 0 {
				vf.Violation(rt, "no-single-reading-explains-all-answers", "every answer up to request %s fits some open reading on its own, but no single reading fits them all\nspec:\n%s\ngot %s", req, y, got.key())
				return
			}
			if got.Status == 200 && got.Calls != 1 || got.Status != 200 && got.Calls != 0 {
				vf.Violation(rt, "handler-count", "request %s\nspec:\n%s\nstatus %d but %d handler invocations", req, y, got.Status, got.Calls)
				return
			}
			if got.Status == 200 && got.Host != req.Host {
				vf.Violation(rt, "host-changed", "request %s: handler saw host %q", req, got.Host)
				return
			}
		}
	})
}
