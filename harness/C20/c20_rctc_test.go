//go:build go1.21

package rawconfigtrafficcontroller

// C20 (b): RawConfigTrafficController.handleEvent + the real TrafficController + real Pipelines,
// driven synchronously with the watcher events a correct registry delivers for generated
// snapshot sequences; oracle = lifecycle ledger model at object level (test TrafficGate kinds)
// and at filter level (a recording filter kind inside real Pipelines).

import (
	"fmt"
	"sort"
	"strings"
	"sync"
	"testing"

	"pgregory.net/rapid"

	"github.com/megaease/easegress/pkg/context"
	"github.com/megaease/easegress/pkg/filters"
	"github.com/megaease/easegress/pkg/logger"
	"github.com/megaease/easegress/pkg/object/pipeline"
	"github.com/megaease/easegress/pkg/object/trafficcontroller"
	"github.com/megaease/easegress/pkg/supervisor"
)

func init() { logger.InitNop() }

// ---------------------------------------------------------------------------------------------
// ledger

type vfCore struct {
	id      int
	level   string // "gate" | "filter"
	kind    string
	owner   string // object name (gate name / pipeline name)
	sub     string // filter name
	payload string
	nInit   int
	nInh    int
	nClose  int
	muxNil  bool
}

func (c *vfCore) desc() string {
	if c == nil {
		return "<not a vf instance>"
	}
	if c.level == "filter" {
		return fmt.Sprintf("#%d(%s/%s payload=%s)", c.id, c.owner, c.sub, c.payload)
	}
	return fmt.Sprintf("#%d(%s/%s payload=%s)", c.id, c.owner, c.kind, c.payload)
}

type vfCall struct {
	Op       string // init | inherit | close
	Core     *vfCore
	Prev     *vfCore
	PrevDesc string
	Level    string
	Owner    string
	Sub      string
	Kind     string
	Payload  string
	Panicked bool
}

func (c vfCall) String() string {
	who := c.Owner + "/" + c.Kind
	if c.Level == "filter" {
		who = c.Owner + "/" + c.Sub
	}
	s := fmt.Sprintf("%s-%s(%s payload=%s inst=#%d", c.Level, c.Op, who, c.Payload, c.Core.id)
	if c.Op == "inherit" {
		s += " prev=" + c.PrevDesc
	}
	if c.Panicked {
		s += " PANICS"
	}
	return s + ")"
}

// token used to compare a call with the model's expectation
func (c vfCall) token() string {
	if c.Level == "filter" {
		if c.Op == "close" {
			return "fclose:" + c.Sub
		}
		return "f" + c.Op + ":" + c.Sub + ":" + c.Payload
	}
	if c.Op == "close" {
		return "close:" + c.Kind
	}
	return c.Op + ":" + c.Kind + ":" + c.Payload
}

type vfLedger struct {
	calls  []vfCall
	nextID int
	step   int
	// fault plan: "<step>/<object name>" (gates) or "<step>/<pipeline name>/<filter name>" -> mask
	// (1 init, 2 inherit, 4 close)
	plan map[string]int
}

var vfLed *vfLedger

func (c *vfCore) touch() *vfCore {
	if c.id == 0 && vfLed != nil {
		vfLed.nextID++
		c.id = vfLed.nextID
	}
	return c
}

func (c *vfCore) record(op string, prev *vfCore, prevDesc string) {
	c.touch()
	call := vfCall{Op: op, Core: c, Level: c.level, Owner: c.owner, Sub: c.sub, Kind: c.kind, Payload: c.payload, Prev: prev, PrevDesc: prevDesc}
	bit := 0
	switch op {
	case "init":
		c.nInit++
		bit = 1
	case "inherit":
		c.nInh++
		bit = 2
	case "close":
		c.nClose++
		bit = 4
	}
	l := vfLed
	if l == nil {
		return
	}
	key := fmt.Sprintf("%d/%s", l.step, c.owner)
	if c.level == "filter" {
		key += "/" + c.sub
	}
	if l.plan[key]&bit != 0 {
		call.Panicked = true
	}
	l.calls = append(l.calls, call)
	if call.Panicked {
		panic(fmt.Sprintf("vf injected panic in %s of %s", op, c.desc()))
	}
}

// ---------------------------------------------------------------------------------------------
// test-only TrafficGate kinds

type vfGateSpec struct {
	Payload string `yaml:"payload" jsonschema:"omitempty"`
}

type vfCored interface{ vfCoreOf() *vfCore }

func (c *vfCore) vfCoreOf() *vfCore { return c.touch() }

func vfCoreOfObject(o interface{}) *vfCore {
	if c, ok := o.(vfCored); ok {
		return c.vfCoreOf()
	}
	return nil
}

func (c *vfCore) Status() *supervisor.Status {
	return &supervisor.Status{ObjectStatus: map[string]interface{}{"inst": c.touch().id}}
}
func (c *vfCore) DefaultSpec() interface{} { return &vfGateSpec{} }

func (c *vfCore) gate(op, kind string, s *supervisor.Spec, prev supervisor.Object, mux context.MuxMapper) {
	c.level, c.kind = "gate", kind
	if s != nil {
		c.owner = s.Name()
		if os, ok := s.ObjectSpec().(*vfGateSpec); ok {
			c.payload = os.Payload
		}
		if mux == nil {
			c.muxNil = true
		}
	}
	var pc *vfCore
	pd := ""
	if op == "inherit" {
		pc = vfCoreOfObject(prev)
		if pc != nil {
			pd = pc.desc()
		} else {
			pd = fmt.Sprintf("<%T>", prev)
		}
	}
	c.record(op, pc, pd)
}

type VfGateA struct{ vfCore }
type VfGateB struct{ vfCore }

func (o *VfGateA) Category() supervisor.ObjectCategory { return supervisor.CategoryTrafficGate }
func (o *VfGateA) Kind() string                        { return "VfGateA" }
func (o *VfGateA) Init(s *supervisor.Spec, m context.MuxMapper) {
	o.gate("init", o.Kind(), s, nil, m)
}
func (o *VfGateA) Inherit(s *supervisor.Spec, p supervisor.Object, m context.MuxMapper) {
	o.gate("inherit", o.Kind(), s, p, m)
}
func (o *VfGateA) Close() { o.gate("close", o.Kind(), nil, nil, nil) }

func (o *VfGateB) Category() supervisor.ObjectCategory { return supervisor.CategoryTrafficGate }
func (o *VfGateB) Kind() string                        { return "VfGateB" }
func (o *VfGateB) Init(s *supervisor.Spec, m context.MuxMapper) {
	o.gate("init", o.Kind(), s, nil, m)
}
func (o *VfGateB) Inherit(s *supervisor.Spec, p supervisor.Object, m context.MuxMapper) {
	o.gate("inherit", o.Kind(), s, p, m)
}
func (o *VfGateB) Close() { o.gate("close", o.Kind(), nil, nil, nil) }

// ---------------------------------------------------------------------------------------------
// recording filter kind (lives inside real Pipelines)

type vfRecSpec struct {
	filters.BaseSpec `yaml:",inline"`
	Payload          string `yaml:"payload" jsonschema:"omitempty"`
}

type vfRecFilter struct {
	vfCore
	spec *vfRecSpec
}

var vfRecKind = &filters.Kind{
	Name:        "VfRecFilter",
	Description: "records its lifecycle",
	Results:     []string{},
	DefaultSpec: func() filters.Spec { return &vfRecSpec{} },
	CreateInstance: func(spec filters.Spec) filters.Filter {
		f := &vfRecFilter{spec: spec.(*vfRecSpec)}
		f.level, f.kind = "filter", "VfRecFilter"
		f.owner, f.sub, f.payload = spec.Pipeline(), spec.Name(), f.spec.Payload
		return f
	},
}

func (f *vfRecFilter) Name() string                      { return f.spec.Name() }
func (f *vfRecFilter) Kind() *filters.Kind               { return vfRecKind }
func (f *vfRecFilter) Spec() filters.Spec                { return f.spec }
func (f *vfRecFilter) Handle(ctx *context.Context) string { return "" }
func (f *vfRecFilter) Status() interface{}               { return f.touch().id }
func (f *vfRecFilter) Init()                             { f.record("init", nil, "") }
func (f *vfRecFilter) Inherit(prev filters.Filter) {
	pc := vfCoreOfObject(prev)
	pd := fmt.Sprintf("<%T>", prev)
	if pc != nil {
		pd = pc.desc()
	}
	f.record("inherit", pc, pd)
}
func (f *vfRecFilter) Close() { f.record("close", nil, "") }

var vfRegisterOnce sync.Once

func vfRegisterKinds() {
	vfRegisterOnce.Do(func() {
		supervisor.Register(&VfGateA{})
		supervisor.Register(&VfGateB{})
		filters.Register(vfRecKind)
	})
}

// ---------------------------------------------------------------------------------------------
// snapshots. Payload of a pipeline = its filter list "f0:q1,f2:q0" (order matters).

var vfKinds = []string{"VfGateA", "VfGateB", "Pipeline"}
var vfKindsWeighted = []string{"VfGateA", "VfGateB", "Pipeline", "Pipeline"}
var vfNames = []string{"n0", "n1", "n2", "n3"}
var vfPayloads = []string{"p0", "p1", "p2"}
var vfFilterNames = []string{"f0", "f1", "f2"}
var vfFilterPayloads = []string{"q0", "q1"}

type vfObj struct {
	Kind    string
	Payload string
}

type vfSnap map[string]vfObj

func (s vfSnap) clone() vfSnap {
	c := vfSnap{}
	for k, v := range s {
		c[k] = v
	}
	return c
}

func (s vfSnap) String() string {
	var parts []string
	for _, n := range vfNames {
		if o, ok := s[n]; ok {
			parts = append(parts, fmt.Sprintf("%s=%s[%s]", n, o.Kind, o.Payload))
		}
	}
	return "{" + strings.Join(parts, " ") + "}"
}

type vfFilterDesc struct{ Name, Payload string }

func vfParseFilters(payload string) []vfFilterDesc {
	var out []vfFilterDesc
	for _, p := range strings.Split(payload, ",") {
		kv := strings.SplitN(p, ":", 2)
		out = append(out, vfFilterDesc{kv[0], kv[1]})
	}
	return out
}

func vfGenPayload(rt *rapid.T, kind string) string {
	if kind != "Pipeline" {
		return rapid.SampledFrom(vfPayloads).Draw(rt, "payload")
	}
	n := rapid.IntRange(1, 3).Draw(rt, "nfilters")
	perm := rapid.Permutation(vfFilterNames).Draw(rt, "filterOrder")
	var parts []string
	for i := 0; i < n; i++ {
		parts = append(parts, perm[i]+":"+rapid.SampledFrom(vfFilterPayloads).Draw(rt, "fpayload"))
	}
	return strings.Join(parts, ",")
}

func vfRender(name string, o vfObj) string {
	if o.Kind != "Pipeline" {
		return fmt.Sprintf("name: %s\nkind: %s\npayload: %s\n", name, o.Kind, o.Payload)
	}
	var sb strings.Builder
	fmt.Fprintf(&sb, "name: %s\nkind: Pipeline\nfilters:\n", name)
	for _, f := range vfParseFilters(o.Payload) {
		fmt.Fprintf(&sb, "- name: %s\n  kind: VfRecFilter\n  payload: %s\n", f.Name, f.Payload)
	}
	return sb.String()
}

// vfEntityDesc reads kind and payload back from a live entity.
func vfEntityDesc(e *supervisor.ObjectEntity) string {
	if e == nil || e.Spec() == nil {
		return "<nil>"
	}
	switch os := e.Spec().ObjectSpec().(type) {
	case *vfGateSpec:
		return e.Spec().Kind() + "[" + os.Payload + "]"
	case *pipeline.Spec:
		var parts []string
		for _, f := range os.Filters {
			parts = append(parts, fmt.Sprintf("%v:%v", f["name"], f["payload"]))
		}
		return e.Spec().Kind() + "[" + strings.Join(parts, ",") + "]"
	}
	return e.Spec().Kind() + "[?]"
}

type vfLive struct {
	obj     vfObj
	good    *vfCore   // gates/controllers: latest instance whose Init/Inherit completed (== core unless tainted)
	fattempt []*vfCore // tainted pipelines: filters of the latest generation attempt whose Init/Inherit completed
	ent     *supervisor.ObjectEntity // the entity the registry holds for the name
	core    *vfCore                  // gates: the live instance
	fcores  map[string]*vfCore       // pipelines: live filter instance per filter name
	tainted bool
}

type vfDiscrepancy struct {
	name string
	kind string
	text string
}

// TestVerifC20Rctc: snapshot sequences against rctc.handleEvent + TrafficController + Pipeline.
func TestVerifC20Rctc(t *testing.T) {
	vfRegisterKinds()
	vf := vfBegin(t, "C20")
	defer vf.End()
	rapid.Check(t, func(rt *rapid.T) {
		led := &vfLedger{plan: map[string]int{}}
		vfLed = led
		defer func() { vfLed = nil }()

		super := supervisor.NewDefaultMock()
		tcSpec, err := super.NewSpec("name: TrafficController\nkind: TrafficController\n")
		if err != nil {
			rt.Fatalf("VF-INCONCLUSIVE cannot build the TrafficController spec: %v", err)
		}
		tc := &trafficcontroller.TrafficController{}
		tc.Init(tcSpec)
		rctc := &RawConfigTrafficController{tc: tc, namespace: DefaultNamespace}

		nsteps := rapid.IntRange(1, 12).Draw(rt, "nsteps")
		var hist []string
		model := map[string]*vfLive{}
		everPresent, everAbsentAfterPresent := map[string]bool{}, map[string]bool{}
		ntReappear, ntKind, ntPanic := false, false, false
		cur := vfSnap{}
		finish := func() {
			nt := ntReappear || ntKind || ntPanic
			vf.Case(nt, strings.Join(hist, "\n"), func() interface{} {
				return map[string]interface{}{"history": append([]string{}, hist...), "reappear": ntReappear,
					"kind_change": ntKind, "panic_with_other_change": ntPanic, "callbacks": len(led.calls)}
			})
		}

		for step := 0; step < nsteps; step++ {
			led.step = step
			// ---- next snapshot
			next := cur.clone()
			rounds := rapid.SampledFrom([]int{1, 1, 1, 2, 2, 3}).Draw(rt, "rounds")
			touched := map[string]int{}
			for r := 0; r < rounds; r++ {
				for _, n := range vfNames {
					o, present := next[n]
					if !present {
						if rapid.IntRange(0, 2).Draw(rt, "appear") == 0 {
							k := rapid.SampledFrom(vfKindsWeighted).Draw(rt, "kind")
							next[n] = vfObj{Kind: k, Payload: vfGenPayload(rt, k)}
							touched[n]++
						}
						continue
					}
					act := rapid.SampledFrom([]string{"keep", "keep", "keep", "keep", "keep", "drop", "drop", "payload", "payload", "payload", "kind", "kind"}).Draw(rt, "act")
					switch act {
					case "drop":
						delete(next, n)
						touched[n]++
					case "payload":
						o.Payload = vfGenPayload(rt, o.Kind)
						next[n] = o
						touched[n]++
					case "kind":
						var cands []string
						for _, k := range vfKinds {
							if k != o.Kind {
								cands = append(cands, k)
							}
						}
						o.Kind = rapid.SampledFrom(cands).Draw(rt, "newKind")
						o.Payload = vfGenPayload(rt, o.Kind)
						next[n] = o
						touched[n]++
					}
				}
			}
			for _, n := range vfNames {
				if touched[n] > 1 {
					vf.Class("coalesced-changes-on-one-name")
					break
				}
			}
			// ---- fault plan
			var planDesc []string
			for _, n := range vfNames {
				m := rapid.SampledFrom([]int{0, 0, 0, 0, 0, 0, 0, 0, 0, 0, 0, 0, 0, 0, 1, 2, 4, 7}).Draw(rt, "panicMask")
				if m == 0 {
					continue
				}
				// for a pipeline the plan names one filter; drawn always to keep the draw sequence regular
				fn := rapid.SampledFrom(vfFilterNames).Draw(rt, "panicFilter")
				led.plan[fmt.Sprintf("%d/%s", step, n)] = m
				led.plan[fmt.Sprintf("%d/%s/%s", step, n, fn)] = m
				planDesc = append(planDesc, fmt.Sprintf("%s(/%s):%d", n, fn, m))
			}
			hist = append(hist, fmt.Sprintf("step %d: snapshot %s panic-plan(name(/filter):mask 1=init 2=inherit 4=close)=%v", step, next, planDesc))

			// ---- the event a correct registry delivers for cur -> next, and the expectations
			ev := &supervisor.ObjectEntityWatcherEvent{
				Delete: map[string]*supervisor.ObjectEntity{},
				Create: map[string]*supervisor.ObjectEntity{},
				Update: map[string]*supervisor.ObjectEntity{},
			}
			expect := map[string][]string{}
			changed := map[string]bool{}
			newModel := map[string]*vfLive{}
			mkEntity := func(n string, o vfObj) *supervisor.ObjectEntity {
				y := vfRender(n, o)
				e, err := super.NewObjectEntityFromConfig(y)
				if err != nil {
					rt.Fatalf("VF-INCONCLUSIVE generator produced a spec that validation rejects: %v\n%s", err, y)
				}
				return e
			}
			expInit := func(n string, o vfObj) {
				if o.Kind == "Pipeline" {
					for _, f := range vfParseFilters(o.Payload) {
						expect[n] = append(expect[n], "finit:"+f.Name+":"+f.Payload)
					}
				} else {
					expect[n] = append(expect[n], "init:"+o.Kind+":"+o.Payload)
				}
			}
			expClose := func(n string, old *vfLive) {
				if old.obj.Kind == "Pipeline" {
					for _, f := range vfParseFilters(old.obj.Payload) {
						expect[n] = append(expect[n], "fclose:"+f.Name)
					}
				} else {
					expect[n] = append(expect[n], "close:"+old.obj.Kind)
				}
			}
			for _, n := range vfNames {
				old := model[n]
				nw, present := next[n]
				switch {
				case old == nil && present:
					changed[n] = true
					vf.Class("appear")
					if everAbsentAfterPresent[n] {
						vf.Class("reappear")
						ntReappear = true
					}
					e := mkEntity(n, nw)
					ev.Create[n] = e
					newModel[n] = &vfLive{obj: nw, ent: e}
					expInit(n, nw)
				case old != nil && !present:
					changed[n] = true
					vf.Class("disappear")
					ev.Delete[n] = old.ent
					expClose(n, old)
				case old != nil && present && old.obj.Kind != nw.Kind:
					changed[n] = true
					ntKind = true
					if (old.obj.Kind == "Pipeline") != (nw.Kind == "Pipeline") {
						vf.Class("kind-change-gate<->pipeline")
					} else {
						vf.Class("kind-change-gate<->gate")
					}
					// statement: close of the old object and init of the new one
					e := mkEntity(n, nw)
					ev.Delete[n] = old.ent
					ev.Create[n] = e
					newModel[n] = &vfLive{obj: nw, ent: e}
					expClose(n, old)
					expInit(n, nw)
				case old != nil && present && old.obj.Payload != nw.Payload:
					changed[n] = true
					vf.Class("spec-change")
					e := mkEntity(n, nw)
					ev.Update[n] = e
					newModel[n] = &vfLive{obj: nw, ent: e}
					if nw.Kind == "Pipeline" {
						oldF := map[string]bool{}
						for _, f := range vfParseFilters(old.obj.Payload) {
							oldF[f.Name] = true
							expect[n] = append(expect[n], "fclose:"+f.Name)
						}
						for _, f := range vfParseFilters(nw.Payload) {
							if oldF[f.Name] {
								expect[n] = append(expect[n], "finherit:"+f.Name+":"+f.Payload)
							} else {
								expect[n] = append(expect[n], "finit:"+f.Name+":"+f.Payload)
							}
						}
					} else {
						expect[n] = append(expect[n], "inherit:"+nw.Kind+":"+nw.Payload)
					}
				case old != nil && present:
					vf.Class("unchanged")
					newModel[n] = &vfLive{obj: nw, ent: old.ent, core: old.core, fcores: old.fcores, tainted: old.tainted}
				}
			}

			var disc []vfDiscrepancy
			add := func(name, kind, format string, args ...interface{}) {
				disc = append(disc, vfDiscrepancy{name: name, kind: kind, text: fmt.Sprintf(format, args...)})
			}

			// ---- drive the real code (an event without content is not sent by the registry)
			callsBefore := len(led.calls)
			if len(ev.Delete)+len(ev.Create)+len(ev.Update) > 0 || step == 0 {
				if p, text, site := vfRecover(func() { rctc.handleEvent(ev) }); p {
					add("", "panic-escaped rctc.handleEvent", "handleEvent panicked at %s: %s", site, text)
				}
			}

			// ---- ledger of this step
			stepCalls := led.calls[callsBefore:]
			byName := map[string][]vfCall{}
			panicked := map[string]bool{}
			for _, c := range stepCalls {
				byName[c.Owner] = append(byName[c.Owner], c)
				if c.Panicked {
					panicked[c.Owner] = true
					vf.Class("panic-fired-in-" + c.Level + "-" + c.Op)
				}
				if c.Level == "gate" && c.Op != "close" && c.Core.muxNil {
					add(c.Owner, "nil-mux-mapper", "%s got a nil MuxMapper", c)
				}
			}
			known := map[string]bool{}
			for _, n := range vfNames {
				known[n] = true
			}
			for n := range byName {
				if !known[n] {
					add(n, "lifecycle-mismatch", "callbacks on an unknown name %q: %v", n, byName[n])
				}
			}
			// An object whose own callback panicked ("tainted") stays in the model as live. Object level
			// (gates, controllers): the statement still counts its callbacks (exactly one Close when the
			// name disappears or the kind changes, no second Init, Inherit once per spec change); open are
			// only which of its generations (the last completed one or the one whose callback panicked) is
			// predecessor / closed / reported live, and whether an unchanged snapshot re-inherits it.
			// Filter level (inside a Pipeline whose filter panicked): Pipeline promises nothing about the
			// rest of that generation, so only this is judged: no callback outside the expected ones in
			// the panicking step, fresh instances, no instance closed twice, and when the pipeline
			// disappears (or changes kind) its one Close reaches exactly the still open filters of one
			// generation (the stored one, or the last completed one).
			broken := map[string]bool{}
			for _, n := range vfNames {
				old := model[n]
				lv := newModel[n]
				tainted := old != nil && old.tainted
				sameObject := old != nil && lv != nil && old.obj.Kind == lv.obj.Kind
				if sameObject {
					lv.core, lv.good, lv.fcores, lv.fattempt, lv.tainted = old.core, old.good, old.fcores, old.fattempt, old.tainted
				}
				if tainted {
					vf.Class("tainted-name-step-judged-with-narrowed-oracle")
					if !sameObject {
						vf.Class("tainted-object-disappears-or-changes-kind")
					}
				}
				var ocalls, fcalls []vfCall
				var gotO, gotF, wantO, wantF []string
				fpanic := false
				for _, c := range byName[n] {
					if c.Level == "filter" {
						fcalls = append(fcalls, c)
						gotF = append(gotF, c.token())
						fpanic = fpanic || c.Panicked
					} else {
						ocalls = append(ocalls, c)
						gotO = append(gotO, c.token())
					}
				}
				for _, w := range expect[n] {
					if strings.HasPrefix(w, "f") {
						wantF = append(wantF, w)
					} else {
						wantO = append(wantO, w)
					}
				}
				sort.Strings(gotO)
				sort.Strings(gotF)
				sort.Strings(wantO)
				sort.Strings(wantF)

				// ---- object level
				okOps := strings.Join(gotO, ",") == strings.Join(wantO, ",")
				if !okOps && tainted && sameObject && old.obj.Payload == lv.obj.Payload && lv.obj.Kind != "Pipeline" &&
					len(gotO) == 1 && gotO[0] == "inherit:"+lv.obj.Kind+":"+lv.obj.Payload {
					vf.Class("ambiguous-tainted-object-reinherited-on-unchanged-spec")
					okOps = true
				}
				if !okOps {
					add(n, "lifecycle-mismatch", "name %s (tainted by an earlier own panic: %v): callbacks %v, model expects %v", n, tainted, byName[n], expect[n])
					broken[n] = true
					if lv != nil {
						lv.tainted = true
					}
					continue
				}
				allowed := func(c *vfCore) bool {
					return old != nil && c != nil && (c == old.core || c == old.good)
				}
				oldDesc := "<none>"
				if old != nil {
					oldDesc = old.core.desc()
					if old.good != old.core {
						oldDesc += " or " + old.good.desc()
					}
				}
				for _, c := range ocalls {
					fresh := c.Core.nInit+c.Core.nInh == 1 && c.Core.nClose == 0
					switch c.Op {
					case "init", "inherit":
						if !fresh {
							add(n, "lifecycle-mismatch", "name %s: %s on an instance that was used before: %s", n, c.Op, c)
						}
						if c.Op == "inherit" && !allowed(c.Prev) {
							add(n, "inherit-wrong-predecessor", "name %s: %s but the live generation was %s", n, c, oldDesc)
						}
						lv.core = c.Core
						if c.Panicked {
							lv.tainted = true
						} else {
							lv.good = c.Core
						}
					case "close":
						if !allowed(c.Core) {
							add(n, "close-wrong-instance", "name %s: %s but the live instance was %s", n, c, oldDesc)
						}
						if c.Core.nClose != 1 {
							add(n, "lifecycle-mismatch", "name %s: instance closed %d times: %s", n, c.Core.nClose, c)
						}
					}
				}

				// ---- filter level
				oldPipe := old != nil && old.obj.Kind == "Pipeline"
				newPipe := lv != nil && lv.obj.Kind == "Pipeline"
				if !oldPipe && !newPipe {
					if len(fcalls) > 0 {
						add(n, "lifecycle-mismatch", "name %s is no pipeline but filters were called: %v", n, fcalls)
					}
					continue
				}
				for _, c := range fcalls {
					if c.Op == "close" {
						if c.Core.nClose != 1 {
							add(n, "lifecycle-mismatch", "pipeline %s: filter instance closed %d times: %s", n, c.Core.nClose, c)
						}
					} else if c.Core.nInit+c.Core.nInh != 1 || c.Core.nClose != 0 {
						add(n, "lifecycle-mismatch", "pipeline %s: %s on a filter instance that was used before: %s", n, c.Op, c)
					}
				}
				var started []*vfCore // filters of this step whose Init/Inherit completed
				nstarts := 0
				for _, c := range fcalls {
					if c.Op != "close" {
						nstarts++
						if !c.Panicked {
							started = append(started, c.Core)
						}
					}
				}
				pipeTainted := oldPipe && tainted
				if !pipeTainted && !fpanic {
					// the exact contract
					if strings.Join(gotF, ",") != strings.Join(wantF, ",") {
						add(n, "lifecycle-mismatch", "name %s: filter callbacks %v, model expects %v", n, fcalls, wantF)
						broken[n] = true
						if lv != nil {
							lv.tainted = true
						}
						continue
					}
					if newPipe {
						nf := map[string]*vfCore{}
						if sameObject && len(fcalls) == 0 {
							nf = old.fcores
						}
						for _, c := range fcalls {
							if c.Op != "close" {
								nf[c.Sub] = c.Core
							}
						}
						lv.fcores, lv.fattempt = nf, nil
					}
					for _, c := range fcalls {
						switch c.Op {
						case "inherit":
							if want := old.fcores[c.Sub]; c.Prev != want {
								add(n, "inherit-wrong-predecessor", "name %s: %s but the live generation was %s", n, c, want.desc())
							}
						case "close":
							if want := old.fcores[c.Sub]; c.Core != want {
								add(n, "close-wrong-instance", "name %s: %s but the live instance was %s", n, c, want.desc())
							}
						}
					}
					continue
				}
				if !pipeTainted {
					// first panic of this pipeline happens in this step: nothing outside the expected callbacks
					rest := append([]string{}, wantF...)
					for _, g := range gotF {
						found := false
						for i, w := range rest {
							if w == g {
								rest = append(rest[:i], rest[i+1:]...)
								found = true
								break
							}
						}
						if !found {
							add(n, "lifecycle-mismatch", "name %s: filter callback %s is not among the expected %v (all: %v)", n, g, wantF, fcalls)
						}
					}
					for _, c := range fcalls {
						if oldPipe && c.Op == "inherit" && c.Prev != old.fcores[c.Sub] {
							add(n, "inherit-wrong-predecessor", "name %s: %s but the live generation was %s", n, c, old.fcores[c.Sub].desc())
						}
						if oldPipe && c.Op == "close" && c.Core != old.fcores[c.Sub] {
							add(n, "close-wrong-instance", "name %s: %s but the live instance was %s", n, c, old.fcores[c.Sub].desc())
						}
					}
					if newPipe {
						lv.tainted = true
						lv.fattempt = started
						if !sameObject {
							lv.fcores = nil
						}
					}
					continue
				}
				// the pipeline was tainted before this step
				if !sameObject {
					// it goes away: its one Close reaches the open filters of one generation
					closedNow := map[*vfCore]bool{}
					closePanicked := false
					for _, c := range fcalls {
						if c.Op == "close" {
							closedNow[c.Core] = true
							closePanicked = closePanicked || c.Panicked
						}
					}
					openOf := func(cs []*vfCore) map[*vfCore]bool {
						o := map[*vfCore]bool{}
						for _, c := range cs {
							k := c.nClose
							if closedNow[c] {
								k--
							}
							if k == 0 {
								o[c] = true
							}
						}
						return o
					}
					var goodList []*vfCore
					for _, c := range old.fcores {
						goodList = append(goodList, c)
					}
					match := func(cand map[*vfCore]bool) bool {
						for c := range closedNow {
							if !cand[c] {
								return false
							}
						}
						return closePanicked || len(closedNow) == len(cand)
					}
					candA, candB := openOf(old.fattempt), openOf(goodList)
					if !match(candA) && !match(candB) {
						var da, db []string
						for c := range candA {
							da = append(da, c.desc())
						}
						for c := range candB {
							db = append(db, c.desc())
						}
						sort.Strings(da)
						sort.Strings(db)
						add(n, "tainted-pipeline-close-mismatch", "pipeline %s (tainted) goes away: filter callbacks %v; one Close must reach the open filters of the stored generation %v or of the last completed one %v", n, fcalls, da, db)
					}
					if newPipe { // cannot happen (a kind change leaves the Pipeline kind)
						lv.tainted = true
					}
					continue
				}
				// tainted pipeline stays: what its next generation does with the broken one is unspecified
				if nstarts > 0 {
					lv.fattempt = started
				}
			}
			for n := range panicked {
				for _, m := range vfNames {
					if m != n && changed[m] {
						ntPanic = true
						vf.Class("panic-fired-with-other-object-changing")
						break
					}
				}
			}

			// ---- live set == snapshot (TrafficController view and rctc.Status view)
			var st *Status
			if p, text, site := vfRecover(func() { st = rctc.Status().ObjectStatus.(*Status) }); p {
				add("", "panic-escaped rctc.Status", "Status panicked at %s: %s", site, text)
			}
			for _, n := range vfNames {
				if broken[n] {
					continue
				}
				lv := newModel[n]
				wantGate := lv != nil && lv.obj.Kind != "Pipeline"
				wantPipe := lv != nil && lv.obj.Kind == "Pipeline"
				ge, gok := tc.GetTrafficGate(DefaultNamespace, n)
				pe, pok := tc.GetPipeline(DefaultNamespace, n)
				if gok != wantGate || pok != wantPipe {
					add(n, "live-set-mismatch", "name %s: GetTrafficGate=%v GetPipeline=%v, snapshot says gate=%v pipeline=%v", n, gok, pok, wantGate, wantPipe)
					continue
				}
				if st != nil {
					_, sg := st.TrafficGates[n]
					_, sp := st.Pipelines[n]
					if sg != wantGate || sp != wantPipe {
						add(n, "live-set-mismatch", "name %s: Status lists gate=%v pipeline=%v, snapshot says gate=%v pipeline=%v", n, sg, sp, wantGate, wantPipe)
						continue
					}
				}
				if wantGate {
					if got := vfCoreOfObject(ge.Instance()); got != lv.core && (got == nil || got != lv.good) {
						add(n, "live-set-mismatch", "name %s: live instance is %s, model says %s", n, got.desc(), lv.core.desc())
					}
					if d, w := vfEntityDesc(ge), lv.obj.Kind+"["+lv.obj.Payload+"]"; !lv.tainted && d != w {
						add(n, "live-set-mismatch", "name %s: live spec is %s, snapshot says %s", n, d, w)
					}
				}
				if wantPipe && !lv.tainted {
					if d, w := vfEntityDesc(pe), "Pipeline["+lv.obj.Payload+"]"; d != w {
						add(n, "live-set-mismatch", "name %s: live spec is %s, snapshot says %s", n, d, w)
					}
					// the filters the live pipeline runs are the model's live filter instances
					ps, _ := pe.Instance().Status().ObjectStatus.(*pipeline.Status)
					var got, want []string
					if ps != nil {
						for fn, id := range ps.Filters {
							got = append(got, fmt.Sprintf("%s=#%v", fn, id))
						}
					}
					for fn, c := range lv.fcores {
						want = append(want, fmt.Sprintf("%s=#%d", fn, c.id))
					}
					sort.Strings(got)
					sort.Strings(want)
					if strings.Join(got, ",") != strings.Join(want, ",") {
						add(n, "live-set-mismatch", "pipeline %s runs filter instances %v, model says %v", n, got, want)
					}
				}
			}
			if st != nil {
				for n := range st.TrafficGates {
					if !known[n] {
						add(n, "live-set-mismatch", "Status lists an unknown gate %s", n)
					}
				}
				for n := range st.Pipelines {
					if !known[n] {
						add(n, "live-set-mismatch", "Status lists an unknown pipeline %s", n)
					}
				}
			}
			// no vf instance may be open (started, not closed) unless the model says it is live:
			// checked per instance over the whole ledger for names that were never exempt
			// (done incrementally through the per-step comparison above)

			if len(disc) > 0 {
				key := disc[0].kind
				var lines []string
				for _, d := range disc {
					lines = append(lines, "  - "+d.text)
				}
				var calls []string
				for _, c := range stepCalls {
					calls = append(calls, c.String())
				}
				finish()
				vf.Violation(rt, key, "after step %d:\n%s\ncallbacks of this step: %v\nhistory:\n%s", step, strings.Join(lines, "\n"), calls, strings.Join(hist, "\n"))
				return
			}

			for _, n := range vfNames {
				if _, present := next[n]; present {
					everPresent[n] = true
				} else if everPresent[n] {
					everAbsentAfterPresent[n] = true
				}
			}
			model = newModel
			cur = next
		}
		finish()
	})
}
