//go:build go1.21

package supervisor

// Minimal standalone reproduction of the known finding
// "kind-change-delivered-as-update {same,cross}-category" (not part of the check's run regexp):
//   build/C20/C20-<key>.test -test.run TestVerifReproC20KindChange -test.v
// It fails on the pinned tree and passes with harness/C20/proposed_fix_kind_change.diff applied.

import (
	"fmt"
	"testing"
)

func TestVerifReproC20KindChange(t *testing.T) {
	vfRegisterKinds()
	led := &vfLedger{plan: map[string]int{}}
	vfLed = led
	defer func() { vfLed = nil }()

	s := &Supervisor{firstHandle: true, firstHandleDone: make(chan struct{})}
	or := &ObjectRegistry{super: s, entities: map[string]*ObjectEntity{}, watchers: map[string]*ObjectEntityWatcher{}}
	s.objectRegistry = or
	s.watcher = or.NewWatcher(watcherName, FilterCategory(CategoryBusinessController))
	traffic := or.NewWatcher("traffic", FilterCategory(CategoryTrafficGate, CategoryPipeline))
	pump := func() (trafficEvents []string) {
		for {
			select {
			case ev := <-s.watcher.Watch():
				s.handleEvent(ev)
			case ev := <-traffic.Watch():
				for n := range ev.Delete {
					trafficEvents = append(trafficEvents, "delete "+n)
				}
				for n := range ev.Create {
					trafficEvents = append(trafficEvents, "create "+n)
				}
				for n := range ev.Update {
					trafficEvents = append(trafficEvents, "update "+n)
				}
			default:
				return
			}
		}
	}
	show := func() string {
		out := ""
		for _, c := range led.calls {
			out += "\n    " + c.String()
		}
		led.calls = nil
		return out
	}

	or.applyConfig(map[string]string{
		"same":  "name: same\nkind: VfCtlA\npayload: p0\n",
		"cross": "name: cross\nkind: VfCtlA\npayload: p0\n",
	})
	pump()
	t.Logf("snapshot 1 {same=VfCtlA cross=VfCtlA}: callbacks:%s", show())

	or.applyConfig(map[string]string{
		"same":  "name: same\nkind: VfCtlB\npayload: p0\n",
		"cross": "name: cross\nkind: VfGateA\npayload: p0\n",
	})
	tev := pump()
	calls := fmt.Sprint(led.calls)
	t.Logf("snapshot 2 {same=VfCtlB cross=VfGateA}: traffic watcher events %v, callbacks:%s", tev, show())

	// statement: kind change == close of the old object + init of the new one
	for _, want := range []string{"close(same/VfCtlA", "init(same/VfCtlB", "close(cross/VfCtlA"} {
		if !vfContains(calls, want) {
			t.Errorf("missing callback %s...) after the kind change", want)
		}
	}
	if vfContains(calls, "inherit(") {
		t.Errorf("a kind change was handled as Inherit (predecessor of another kind)")
	}
	if e, ok := s.GetBusinessController("cross"); ok {
		t.Errorf("name 'cross' is a traffic gate in the latest snapshot but business controller %s is still live", vfEntityDesc(e))
	}
	if len(tev) != 1 || tev[0] != "create cross" {
		t.Errorf("traffic watcher got %v for a name it never saw; want [create cross]", tev)
	}
}

func vfContains(s, sub string) bool {
	for i := 0; i+len(sub) <= len(s); i++ {
		if s[i:i+len(sub)] == sub {
			return true
		}
	}
	return false
}
