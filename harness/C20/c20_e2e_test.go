//go:build go1.21

package c20

// C20 (c): the asynchronous end-to-end path. supervisor.MustNew on a mocked cluster whose syncer
// channel the harness feeds; the real ObjectRegistry.run / applyConfig, the real Supervisor.run /
// handleEvent, the real RawConfigTrafficController (own watcher + goroutine), TrafficController and
// Pipelines. Quiescence is not guessed from the clock: two sentinel objects (one business
// controller, one traffic gate) get their spec bumped in a snapshot of their own after every
// generated snapshot; consumers handle events in order, so when both sentinels report the bump
// every callback of the generated snapshot has happened (or never will).

import (
	"fmt"
	"os"
	"runtime"
	"sort"
	"strings"
	"sync"
	"testing"
	"time"

	"pgregory.net/rapid"

	"github.com/megaease/easegress/pkg/cluster"
	"github.com/megaease/easegress/pkg/cluster/clustertest"
	"github.com/megaease/easegress/pkg/context"
	"github.com/megaease/easegress/pkg/filters"
	"github.com/megaease/easegress/pkg/logger"
	"github.com/megaease/easegress/pkg/object/pipeline"
	rctcpkg "github.com/megaease/easegress/pkg/object/rawconfigtrafficcontroller"
	"github.com/megaease/easegress/pkg/object/trafficcontroller"
	"github.com/megaease/easegress/pkg/option"
	"github.com/megaease/easegress/pkg/supervisor"
)

func init() { logger.InitNop() }

const (
	vfSentinelCtl  = "zz-sentinel-ctl"
	vfSentinelGate = "zz-sentinel-gate"
	vfBarrierWait  = 40 * time.Second // liveness only; expiry = inconclusive (the work behind a barrier is < 1 ms of CPU)
)

// once a wait has expired the run is inconclusive anyway: rapid's shrinking attempts must not
// wait the full bound again and again
var vfWaitExpired bool

func vfWaitBound() time.Duration {
	if vfWaitExpired {
		return time.Second
	}
	return vfBarrierWait
}

// ---------------------------------------------------------------------------------------------
// ledger (callbacks run on the supervisor's and the rctc's goroutines)

type vfCore struct {
	id      int
	level   string // "ctl" | "gate" | "filter"
	kind    string
	owner   string
	sub     string
	payload string
	nInit   int
	nInh    int
	nClose  int
	muxNil  bool
}

func (c *vfCore) desc() string {
	if c == nil {
		return "<not a vf instance>"
	}
	if c.level == "filter" {
		return fmt.Sprintf("#%d(%s/%s payload=%s)", c.id, c.owner, c.sub, c.payload)
	}
	return fmt.Sprintf("#%d(%s/%s payload=%s)", c.id, c.owner, c.kind, c.payload)
}

type vfCall struct {
	Op       string
	Core     *vfCore
	Prev     *vfCore
	PrevDesc string
	Level    string
	Owner    string
	Sub      string
	Kind     string
	Payload  string
	Panicked bool
	// the instance's counters right after this call
	NInit, NInh, NClose int
}

// vfWithoutMarkers drops the sentinel markers from a slice of ledger entries.
func vfWithoutMarkers(calls []vfCall) []vfCall {
	var out []vfCall
	for _, c := range calls {
		if c.Op != "marker" {
			out = append(out, c)
		}
	}
	return out
}

var vfStackBuf = make([]byte, 1<<20)

// vfRebumpAfter: how long the barrier waits for a report before it bumps the sentinels again. Progress
// only, never a verdict; VERIF_C20_REBUMP_MS shortens it to stress the "earlier bump still in flight" paths.
func vfRebumpAfter() time.Duration {
	if v := os.Getenv("VERIF_C20_REBUMP_MS"); v != "" {
		ms := 0
		fmt.Sscanf(v, "%d", &ms)
		return time.Duration(ms) * time.Millisecond
	}
	return 2 * time.Second
}

// vfProbeSeen: the goroutine-dump probe has worked at least once in this process
var vfProbeSeen bool

// vfRegistryParkedInSend reports whether a goroutine is parked in a channel send inside
// ObjectRegistry.applyConfig (the registry blocked on a full watcher queue).
func vfRegistryParkedInSend() bool {
	n := runtime.Stack(vfStackBuf, true)
	for _, g := range strings.Split(string(vfStackBuf[:n]), "\n\n") {
		// any method of the (exported) type ObjectRegistry: the name of the method that sends is not relied on
		if !strings.Contains(g, "pkg/supervisor.(*ObjectRegistry).") {
			continue
		}
		head := g
		if i := strings.Index(g, "\n"); i >= 0 {
			head = g[:i]
		}
		if strings.Contains(head, "[chan send") {
			vfProbeSeen = true
			return true
		}
	}
	return false
}

func (c vfCall) String() string {
	who := c.Owner + "/" + c.Kind
	if c.Level == "filter" {
		who = c.Owner + "/" + c.Sub
	}
	s := fmt.Sprintf("%s-%s(%s payload=%s inst=#%d", c.Level, c.Op, who, c.Payload, c.Core.id)
	if c.Op == "inherit" {
		s += " prev=" + c.PrevDesc
	}
	if c.Panicked {
		s += " PANICS"
	}
	return s + ")"
}

func (c vfCall) token() string {
	if c.Level == "filter" {
		if c.Op == "close" {
			return "fclose:" + c.Sub
		}
		return "f" + c.Op + ":" + c.Sub + ":" + c.Payload
	}
	if c.Op == "close" {
		return "close:" + c.Kind
	}
	return c.Op + ":" + c.Kind + ":" + c.Payload
}

type vfLedger struct {
	mu      sync.Mutex
	calls   []vfCall
	nextID  int
	step    int
	plan    map[string]int
	barrier chan string // "<sentinel name>=<payload>"
	// "callback blocks until released": "<step>/<object name>"; the first Init/Inherit on it parks
	block   string
	blocked bool
	parked  chan string
	release chan struct{}
}

var (
	vfLedMu sync.Mutex
	vfLedP  *vfLedger
)

func vfCurLedger() *vfLedger {
	vfLedMu.Lock()
	defer vfLedMu.Unlock()
	return vfLedP
}

func vfSetLedger(l *vfLedger) {
	vfLedMu.Lock()
	vfLedP = l
	vfLedMu.Unlock()
}

func (c *vfCore) touch() *vfCore {
	if c.id == 0 {
		if l := vfCurLedger(); l != nil {
			l.mu.Lock()
			if c.id == 0 {
				l.nextID++
				c.id = l.nextID
			}
			l.mu.Unlock()
		}
	}
	return c
}

func (c *vfCore) record(op string, prev *vfCore, prevDesc string) {
	c.touch()
	l := vfCurLedger()
	if l == nil {
		return
	}
	if c.owner == vfSentinelCtl || c.owner == vfSentinelGate {
		// a marker in the ledger (orders the consumer's callbacks against the sentinel's own callbacks;
		// Kind holds the sentinel's callback) and, for Init/Inherit, a report
		l.mu.Lock()
		l.calls = append(l.calls, vfCall{Op: "marker", Kind: op, Core: c, Level: c.level, Owner: c.owner, Payload: c.payload})
		l.mu.Unlock()
		if op != "close" {
			select {
			case l.barrier <- c.owner + "=" + c.payload:
			default:
			}
		}
		return
	}
	call := vfCall{Op: op, Core: c, Level: c.level, Owner: c.owner, Sub: c.sub, Kind: c.kind, Payload: c.payload, Prev: prev, PrevDesc: prevDesc}
	bit := 0
	l.mu.Lock()
	switch op {
	case "init":
		c.nInit++
		bit = 1
	case "inherit":
		c.nInh++
		bit = 2
	case "close":
		c.nClose++
		bit = 4
	}
	key := fmt.Sprintf("%d/%s", l.step, c.owner)
	if c.level == "filter" {
		key += "/" + c.sub
	}
	if l.plan[key]&bit != 0 {
		call.Panicked = true
	}
	call.NInit, call.NInh, call.NClose = c.nInit, c.nInh, c.nClose
	l.calls = append(l.calls, call)
	park := false
	if op != "close" && l.block != "" && !l.blocked && l.block == fmt.Sprintf("%d/%s", l.step, c.owner) {
		l.blocked, park = true, true
	}
	l.mu.Unlock()
	if park {
		l.parked <- c.owner
		<-l.release
	}
	if call.Panicked {
		panic(fmt.Sprintf("vf injected panic in %s of %s", op, c.desc()))
	}
}

type vfCored interface{ vfCoreOf() *vfCore }

func (c *vfCore) vfCoreOf() *vfCore { return c.touch() }

func vfCoreOfObject(o interface{}) *vfCore {
	if c, ok := o.(vfCored); ok {
		return c.vfCoreOf()
	}
	return nil
}

type vfObjSpec struct {
	Payload string `yaml:"payload" jsonschema:"omitempty"`
}

func (c *vfCore) Status() *supervisor.Status {
	return &supervisor.Status{ObjectStatus: map[string]interface{}{"inst": c.touch().id}}
}
func (c *vfCore) DefaultSpec() interface{} { return &vfObjSpec{} }

func (c *vfCore) object(level, op, kind string, s *supervisor.Spec, prev supervisor.Object, mux context.MuxMapper) {
	c.level, c.kind = level, kind
	if s != nil {
		c.owner = s.Name()
		if os, ok := s.ObjectSpec().(*vfObjSpec); ok {
			c.payload = os.Payload
		}
		if level == "gate" && mux == nil {
			c.muxNil = true
		}
	}
	var pc *vfCore
	pd := ""
	if op == "inherit" {
		pc = vfCoreOfObject(prev)
		if pc != nil {
			pd = pc.desc()
		} else {
			pd = fmt.Sprintf("<%T>", prev)
		}
	}
	c.record(op, pc, pd)
}

type VfCtlA struct{ vfCore }
type VfCtlB struct{ vfCore }
type VfGateA struct{ vfCore }
type VfGateB struct{ vfCore }

func (o *VfCtlA) Category() supervisor.ObjectCategory { return supervisor.CategoryBusinessController }
func (o *VfCtlA) Kind() string                        { return "VfCtlA" }
func (o *VfCtlA) Init(s *supervisor.Spec)             { o.object("ctl", "init", o.Kind(), s, nil, nil) }
func (o *VfCtlA) Inherit(s *supervisor.Spec, p supervisor.Object) {
	o.object("ctl", "inherit", o.Kind(), s, p, nil)
}
func (o *VfCtlA) Close() { o.object("ctl", "close", o.Kind(), nil, nil, nil) }

func (o *VfCtlB) Category() supervisor.ObjectCategory { return supervisor.CategoryBusinessController }
func (o *VfCtlB) Kind() string                        { return "VfCtlB" }
func (o *VfCtlB) Init(s *supervisor.Spec)             { o.object("ctl", "init", o.Kind(), s, nil, nil) }
func (o *VfCtlB) Inherit(s *supervisor.Spec, p supervisor.Object) {
	o.object("ctl", "inherit", o.Kind(), s, p, nil)
}
func (o *VfCtlB) Close() { o.object("ctl", "close", o.Kind(), nil, nil, nil) }

func (o *VfGateA) Category() supervisor.ObjectCategory { return supervisor.CategoryTrafficGate }
func (o *VfGateA) Kind() string                        { return "VfGateA" }
func (o *VfGateA) Init(s *supervisor.Spec, m context.MuxMapper) {
	o.object("gate", "init", o.Kind(), s, nil, m)
}
func (o *VfGateA) Inherit(s *supervisor.Spec, p supervisor.Object, m context.MuxMapper) {
	o.object("gate", "inherit", o.Kind(), s, p, m)
}
func (o *VfGateA) Close() { o.object("gate", "close", o.Kind(), nil, nil, nil) }

func (o *VfGateB) Category() supervisor.ObjectCategory { return supervisor.CategoryTrafficGate }
func (o *VfGateB) Kind() string                        { return "VfGateB" }
func (o *VfGateB) Init(s *supervisor.Spec, m context.MuxMapper) {
	o.object("gate", "init", o.Kind(), s, nil, m)
}
func (o *VfGateB) Inherit(s *supervisor.Spec, p supervisor.Object, m context.MuxMapper) {
	o.object("gate", "inherit", o.Kind(), s, p, m)
}
func (o *VfGateB) Close() { o.object("gate", "close", o.Kind(), nil, nil, nil) }

type vfRecSpec struct {
	filters.BaseSpec `yaml:",inline"`
	Payload          string `yaml:"payload" jsonschema:"omitempty"`
}

type vfRecFilter struct {
	vfCore
	spec *vfRecSpec
}

var vfRecKind = &filters.Kind{
	Name:        "VfRecFilter",
	Description: "records its lifecycle",
	Results:     []string{},
	DefaultSpec: func() filters.Spec { return &vfRecSpec{} },
	CreateInstance: func(spec filters.Spec) filters.Filter {
		f := &vfRecFilter{spec: spec.(*vfRecSpec)}
		f.level, f.kind = "filter", "VfRecFilter"
		f.owner, f.sub, f.payload = spec.Pipeline(), spec.Name(), f.spec.Payload
		return f
	},
}

func (f *vfRecFilter) Name() string                      { return f.spec.Name() }
func (f *vfRecFilter) Kind() *filters.Kind               { return vfRecKind }
func (f *vfRecFilter) Spec() filters.Spec                { return f.spec }
func (f *vfRecFilter) Handle(ctx *context.Context) string { return "" }
func (f *vfRecFilter) Status() interface{}               { return f.touch().id }
func (f *vfRecFilter) Init()                             { f.record("init", nil, "") }
func (f *vfRecFilter) Inherit(prev filters.Filter) {
	pc := vfCoreOfObject(prev)
	pd := fmt.Sprintf("<%T>", prev)
	if pc != nil {
		pd = pc.desc()
	}
	f.record("inherit", pc, pd)
}
func (f *vfRecFilter) Close() { f.record("close", nil, "") }

var vfRegisterOnce sync.Once

func vfRegisterKinds() {
	vfRegisterOnce.Do(func() {
		supervisor.Register(&VfCtlA{})
		supervisor.Register(&VfCtlB{})
		supervisor.Register(&VfGateA{})
		supervisor.Register(&VfGateB{})
		filters.Register(vfRecKind)
	})
}

// ---------------------------------------------------------------------------------------------

var vfKindCat = map[string]supervisor.ObjectCategory{
	"VfCtlA":   supervisor.CategoryBusinessController,
	"VfCtlB":   supervisor.CategoryBusinessController,
	"VfGateA":  supervisor.CategoryTrafficGate,
	"VfGateB":  supervisor.CategoryTrafficGate,
	"Pipeline": supervisor.CategoryPipeline,
}
var vfKinds = []string{"VfCtlA", "VfCtlB", "VfGateA", "VfGateB", "Pipeline"}
var vfNames = []string{"n0", "n1", "n2", "n3"}
var vfPayloads = []string{"p0", "p1", "p2"}
var vfFilterNames = []string{"f0", "f1", "f2"}
var vfFilterPayloads = []string{"q0", "q1"}

const (
	vfKeyKindSame  = "kind-change-delivered-as-update same-category"
	vfKeyKindCross = "kind-change-delivered-as-update cross-category"
)

type vfObj struct {
	Kind    string
	Payload string
}

type vfSnap map[string]vfObj

func (s vfSnap) clone() vfSnap {
	c := vfSnap{}
	for k, v := range s {
		c[k] = v
	}
	return c
}

func (s vfSnap) String() string {
	var parts []string
	for _, n := range vfNames {
		if o, ok := s[n]; ok {
			parts = append(parts, fmt.Sprintf("%s=%s[%s]", n, o.Kind, o.Payload))
		}
	}
	return "{" + strings.Join(parts, " ") + "}"
}

type vfFilterDesc struct{ Name, Payload string }

func vfParseFilters(payload string) []vfFilterDesc {
	var out []vfFilterDesc
	for _, p := range strings.Split(payload, ",") {
		kv := strings.SplitN(p, ":", 2)
		out = append(out, vfFilterDesc{kv[0], kv[1]})
	}
	return out
}

func vfGenPayload(rt *rapid.T, kind string) string {
	if kind != "Pipeline" {
		return rapid.SampledFrom(vfPayloads).Draw(rt, "payload")
	}
	n := rapid.IntRange(1, 3).Draw(rt, "nfilters")
	perm := rapid.Permutation(vfFilterNames).Draw(rt, "filterOrder")
	var parts []string
	for i := 0; i < n; i++ {
		parts = append(parts, perm[i]+":"+rapid.SampledFrom(vfFilterPayloads).Draw(rt, "fpayload"))
	}
	return strings.Join(parts, ",")
}

func vfRender(name string, o vfObj) string {
	if o.Kind != "Pipeline" {
		return fmt.Sprintf("name: %s\nkind: %s\npayload: %s\n", name, o.Kind, o.Payload)
	}
	var sb strings.Builder
	fmt.Fprintf(&sb, "name: %s\nkind: Pipeline\nfilters:\n", name)
	for _, f := range vfParseFilters(o.Payload) {
		fmt.Fprintf(&sb, "- name: %s\n  kind: VfRecFilter\n  payload: %s\n", f.Name, f.Payload)
	}
	return sb.String()
}

func vfEntityDesc(e *supervisor.ObjectEntity) string {
	if e == nil || e.Spec() == nil {
		return "<nil>"
	}
	switch os := e.Spec().ObjectSpec().(type) {
	case *vfObjSpec:
		return e.Spec().Kind() + "[" + os.Payload + "]"
	case *pipeline.Spec:
		var parts []string
		for _, f := range os.Filters {
			parts = append(parts, fmt.Sprintf("%v:%v", f["name"], f["payload"]))
		}
		return e.Spec().Kind() + "[" + strings.Join(parts, ",") + "]"
	}
	return e.Spec().Kind() + "[?]"
}

type vfLive struct {
	obj     vfObj
	good    *vfCore   // gates/controllers: latest instance whose Init/Inherit completed (== core unless tainted)
	fattempt []*vfCore // tainted pipelines: filters of the latest generation attempt whose Init/Inherit completed
	core    *vfCore
	fcores  map[string]*vfCore
	tainted bool
}

type vfDiscrepancy struct {
	name string
	kind string
	text string
}

// TestVerifC20EndToEnd: snapshot sequences through the syncer channel of a real Supervisor.
func TestVerifC20EndToEnd(t *testing.T) {
	vfRegisterKinds()
	vf := vfBegin(t, "C20")
	defer vf.End()
	home, err := os.MkdirTemp(".", "vfhome")
	if err != nil {
		t.Fatalf("VF-INCONCLUSIVE cannot create a scratch home dir: %v", err)
	}
	defer os.RemoveAll(home)

	rapid.Check(t, func(rt *rapid.T) {
		led := &vfLedger{plan: map[string]int{}, barrier: make(chan string, 256), parked: make(chan string, 1), release: make(chan struct{})}
		vfSetLedger(led)
		defer vfSetLedger(nil)

		syncChan := make(chan map[string]string) // unbuffered: a completed send == the registry took it
		layout := &cluster.Layout{}
		prefix := layout.ConfigObjectPrefix()
		cls := clustertest.NewMockedCluster()
		cls.MockedLayout = func() *cluster.Layout { return layout }
		cls.MockedSyncer = func(time.Duration) (cluster.Syncer, error) {
			sy := clustertest.NewMockedSyncer()
			sy.MockedSyncPrefix = func(string) (<-chan map[string]string, error) { return syncChan, nil }
			return sy, nil
		}
		opt := &option.Options{AbsHomeDir: home}
		super := supervisor.MustNew(opt, cls)
		closed := false
		closeSuper := func() {
			if closed {
				return
			}
			closed = true
			done := make(chan struct{})
			go func() {
				wg := &sync.WaitGroup{}
				wg.Add(1)
				super.Close(wg)
				close(done)
			}()
			select {
			case <-done:
			case <-time.After(vfWaitBound()):
				vfWaitExpired = true
				rt.Fatalf("VF-INCONCLUSIVE Supervisor.Close did not return within %v", vfBarrierWait)
			}
		}
		defer closeSuper()

		tcEnt, ok := super.GetSystemController(trafficcontroller.Kind)
		if !ok {
			rt.Fatalf("VF-INCONCLUSIVE no TrafficController system controller")
		}
		tc := tcEnt.Instance().(*trafficcontroller.TrafficController)
		rcEnt, ok := super.GetSystemController(rctcpkg.Kind)
		if !ok {
			rt.Fatalf("VF-INCONCLUSIVE no RawConfigTrafficController system controller")
		}
		rc := rcEnt.Instance().(*rctcpkg.RawConfigTrafficController)

		send := func(cfg map[string]string) {
			kv := map[string]string{}
			for n, y := range cfg {
				kv[prefix+n] = y
			}
			select {
			case syncChan <- kv:
			case <-time.After(vfWaitBound()):
				vfWaitExpired = true
				rt.Fatalf("VF-INCONCLUSIVE the registry did not take a snapshot within %v", vfBarrierWait)
			}
		}
		barrierNo := 0
		// applyBarrier bumps the sentinels in a snapshot of their own (regular objects as in snap) and
		// waits until both consumers report that bump or a later one. A bump that is not reported within
		// a short while is followed by another one (progress only; the bound below is the liveness bound).
		applyBarrier := func(snap vfSnap) {
			first := barrierNo + 1
			reported := map[string]bool{}
			overall := time.After(vfWaitBound())
			for {
				barrierNo++
				cfg := map[string]string{}
				for n, o := range snap {
					cfg[n] = vfRender(n, o)
				}
				b := fmt.Sprintf("b%d", barrierNo)
				cfg[vfSentinelCtl] = vfRender(vfSentinelCtl, vfObj{"VfCtlA", b})
				cfg[vfSentinelGate] = vfRender(vfSentinelGate, vfObj{"VfGateA", b})
				send(cfg)
				slice := time.After(vfRebumpAfter())
			wait:
				for {
					select {
					case got := <-led.barrier:
						if i := strings.Index(got, "=b"); i > 0 {
							no := 0
							fmt.Sscanf(got[i+2:], "%d", &no)
							if no >= first {
								reported[got[:i]] = true
							}
						}
						if reported[vfSentinelCtl] && reported[vfSentinelGate] {
							return
						}
					case <-slice:
						break wait
					case <-overall:
						vfWaitExpired = true
						rt.Fatalf("VF-INCONCLUSIVE sentinels did not report barrier b%d.. within %v (reported %v)", first, vfBarrierWait, reported)
					}
				}
				if vfWaitExpired {
					rt.Fatalf("VF-INCONCLUSIVE sentinels did not report barrier b%d.. (earlier wait expired)", first)
				}
			}
		}
		// applies the snapshot (sentinels unchanged), then the barrier
		apply := func(snap vfSnap) {
			if barrierNo > 0 {
				cfg := map[string]string{}
				for n, o := range snap {
					cfg[n] = vfRender(n, o)
				}
				prevB := fmt.Sprintf("b%d", barrierNo)
				cfg[vfSentinelCtl] = vfRender(vfSentinelCtl, vfObj{"VfCtlA", prevB})
				cfg[vfSentinelGate] = vfRender(vfSentinelGate, vfObj{"VfGateA", prevB})
				send(cfg)
			}
			applyBarrier(snap)
		}
		// the sentinels come to life alone
		apply(vfSnap{})

		nsteps := rapid.IntRange(1, 10).Draw(rt, "nsteps")
		probeKnown := rapid.IntRange(0, 11).Draw(rt, "probeKnown") == 0
		probing := probeKnown && (vf.HasKnown(vfKeyKindSame) || vf.HasKnown(vfKeyKindCross))
		if probing {
			vf.Class("case-probing-known-kind-change-finding")
		}
		var hist []string
		model := map[string]*vfLive{}
		everPresent, everAbsentAfterPresent := map[string]bool{}, map[string]bool{}
		ntReappear, ntKind, ntPanic := false, false, false
		cur := vfSnap{}
		finish := func() {
			nt := ntReappear || ntKind || ntPanic
			vf.Case(nt, strings.Join(hist, "\n"), func() interface{} {
				led.mu.Lock()
				n := len(led.calls)
				led.mu.Unlock()
				return map[string]interface{}{"history": append([]string{}, hist...), "reappear": ntReappear,
					"kind_change": ntKind, "panic_with_other_change": ntPanic, "callbacks": n}
			})
		}

		// filter instances closed by snapshots that were judged already
		closedBefore := map[*vfCore]bool{}
		genNext := func(base vfSnap) vfSnap {
			next := base.clone()
			rounds := rapid.SampledFrom([]int{1, 1, 1, 2, 2, 3}).Draw(rt, "rounds")
			touched := map[string]int{}
			for r := 0; r < rounds; r++ {
				for _, n := range vfNames {
					o, present := next[n]
					if !present {
						if rapid.IntRange(0, 2).Draw(rt, "appear") == 0 {
							k := rapid.SampledFrom(vfKinds).Draw(rt, "kind")
							next[n] = vfObj{Kind: k, Payload: vfGenPayload(rt, k)}
							touched[n]++
						}
						continue
					}
					act := rapid.SampledFrom([]string{"keep", "keep", "keep", "keep", "keep", "drop", "drop", "payload", "payload", "payload", "kind", "kind"}).Draw(rt, "act")
					switch act {
					case "drop":
						delete(next, n)
						touched[n]++
					case "payload":
						o.Payload = vfGenPayload(rt, o.Kind)
						next[n] = o
						touched[n]++
					case "kind":
						var cands []string
						for _, k := range vfKinds {
							if k != o.Kind {
								cands = append(cands, k)
							}
						}
						o.Kind = rapid.SampledFrom(cands).Draw(rt, "newKind")
						o.Payload = vfGenPayload(rt, o.Kind)
						next[n] = o
						touched[n]++
					}
				}
			}
			// net kind changes: steered away from behind a known finding, except when probing
			for _, n := range vfNames {
				o, ok1 := base[n]
				nw, ok2 := next[n]
				if !ok1 || !ok2 || o.Kind == nw.Kind {
					continue
				}
				key := vfKeyKindSame
				if vfKindCat[o.Kind] != vfKindCat[nw.Kind] {
					key = vfKeyKindCross
				}
				if vf.HasKnown(key) && !probeKnown {
					vf.Exclude()
					next[n] = o
				}
			}
			for _, n := range vfNames {
				if touched[n] > 1 {
					vf.Class("coalesced-changes-on-one-name")
					break
				}
			}
			return next
		}
		// judge compares the callbacks one snapshot caused with what the statement calls for, and (live)
		// the live sets with the snapshot; false: the case is over
		judge := func(step int, what string, next vfSnap, stepCalls []vfCall, live bool) bool {
			// ---- expectations
			expect := map[string][]string{}
			changed := map[string]bool{}
			kindChange := map[string]string{}
			newModel := map[string]*vfLive{}
			expInit := func(n string, o vfObj) {
				if o.Kind == "Pipeline" {
					for _, f := range vfParseFilters(o.Payload) {
						expect[n] = append(expect[n], "finit:"+f.Name+":"+f.Payload)
					}
				} else {
					expect[n] = append(expect[n], "init:"+o.Kind+":"+o.Payload)
				}
			}
			expClose := func(n string, old *vfLive) {
				if old.obj.Kind == "Pipeline" {
					for _, f := range vfParseFilters(old.obj.Payload) {
						expect[n] = append(expect[n], "fclose:"+f.Name)
					}
				} else {
					expect[n] = append(expect[n], "close:"+old.obj.Kind)
				}
			}
			for _, n := range vfNames {
				old := model[n]
				nw, present := next[n]
				switch {
				case old == nil && present:
					changed[n] = true
					vf.Class("appear")
					if everAbsentAfterPresent[n] {
						vf.Class("reappear")
						ntReappear = true
					}
					newModel[n] = &vfLive{obj: nw}
					expInit(n, nw)
				case old != nil && !present:
					changed[n] = true
					vf.Class("disappear")
					expClose(n, old)
				case old != nil && present && old.obj.Kind != nw.Kind:
					changed[n] = true
					ntKind = true
					if vfKindCat[old.obj.Kind] == vfKindCat[nw.Kind] {
						vf.Class("kind-change-same-category")
						kindChange[n] = vfKeyKindSame
					} else {
						vf.Class("kind-change-cross-category")
						kindChange[n] = vfKeyKindCross
					}
					newModel[n] = &vfLive{obj: nw}
					expClose(n, old)
					expInit(n, nw)
				case old != nil && present && old.obj.Payload != nw.Payload:
					changed[n] = true
					vf.Class("spec-change")
					newModel[n] = &vfLive{obj: nw}
					if nw.Kind == "Pipeline" {
						oldF := map[string]bool{}
						for _, f := range vfParseFilters(old.obj.Payload) {
							oldF[f.Name] = true
							expect[n] = append(expect[n], "fclose:"+f.Name)
						}
						for _, f := range vfParseFilters(nw.Payload) {
							if oldF[f.Name] {
								expect[n] = append(expect[n], "finherit:"+f.Name+":"+f.Payload)
							} else {
								expect[n] = append(expect[n], "finit:"+f.Name+":"+f.Payload)
							}
						}
					} else {
						expect[n] = append(expect[n], "inherit:"+nw.Kind+":"+nw.Payload)
					}
				case old != nil && present:
					vf.Class("unchanged")
					newModel[n] = &vfLive{obj: nw, core: old.core, fcores: old.fcores, tainted: old.tainted}
				}
			}

			var disc []vfDiscrepancy
			add := func(name, kind, format string, args ...interface{}) {
				disc = append(disc, vfDiscrepancy{name: name, kind: kind, text: fmt.Sprintf(format, args...)})
			}

			byName := map[string][]vfCall{}
			panicked := map[string]bool{}
			for _, c := range stepCalls {
				byName[c.Owner] = append(byName[c.Owner], c)
				if c.Panicked {
					panicked[c.Owner] = true
					vf.Class("panic-fired-in-" + c.Level + "-" + c.Op)
				}
				if c.Level == "gate" && c.Op != "close" && c.Core.muxNil {
					add(c.Owner, "nil-mux-mapper", "%s got a nil MuxMapper", c)
				}
			}
			known := map[string]bool{}
			for _, n := range vfNames {
				known[n] = true
			}
			for n := range byName {
				if !known[n] {
					add(n, "lifecycle-mismatch", "callbacks on an unknown name %q: %v", n, byName[n])
				}
			}
			// An object whose own callback panicked ("tainted") stays in the model as live. Object level
			// (gates, controllers): the statement still counts its callbacks (exactly one Close when the
			// name disappears or the kind changes, no second Init, Inherit once per spec change); open are
			// only which of its generations (the last completed one or the one whose callback panicked) is
			// predecessor / closed / reported live, and whether an unchanged snapshot re-inherits it.
			// Filter level (inside a Pipeline whose filter panicked): Pipeline promises nothing about the
			// rest of that generation, so only this is judged: no callback outside the expected ones in
			// the panicking step, fresh instances, no instance closed twice, and when the pipeline
			// disappears (or changes kind) its one Close reaches exactly the still open filters of one
			// generation (the stored one, or the last completed one).
			broken := map[string]bool{}
			for _, n := range vfNames {
				old := model[n]
				lv := newModel[n]
				tainted := old != nil && old.tainted
				sameObject := old != nil && lv != nil && old.obj.Kind == lv.obj.Kind
				if sameObject {
					lv.core, lv.good, lv.fcores, lv.fattempt, lv.tainted = old.core, old.good, old.fcores, old.fattempt, old.tainted
				}
				if tainted {
					vf.Class("tainted-name-step-judged-with-narrowed-oracle")
					if !sameObject {
						vf.Class("tainted-object-disappears-or-changes-kind")
					}
				}
				var ocalls, fcalls []vfCall
				var gotO, gotF, wantO, wantF []string
				fpanic := false
				for _, c := range byName[n] {
					if c.Level == "filter" {
						fcalls = append(fcalls, c)
						gotF = append(gotF, c.token())
						fpanic = fpanic || c.Panicked
					} else {
						ocalls = append(ocalls, c)
						gotO = append(gotO, c.token())
					}
				}
				for _, w := range expect[n] {
					if strings.HasPrefix(w, "f") {
						wantF = append(wantF, w)
					} else {
						wantO = append(wantO, w)
					}
				}
				sort.Strings(gotO)
				sort.Strings(gotF)
				sort.Strings(wantO)
				sort.Strings(wantF)

				// ---- object level
				okOps := strings.Join(gotO, ",") == strings.Join(wantO, ",")
				if !okOps && tainted && sameObject && old.obj.Payload == lv.obj.Payload && lv.obj.Kind != "Pipeline" &&
					len(gotO) == 1 && gotO[0] == "inherit:"+lv.obj.Kind+":"+lv.obj.Payload {
					vf.Class("ambiguous-tainted-object-reinherited-on-unchanged-spec")
					okOps = true
				}
				if !okOps {
					add(n, "lifecycle-mismatch", "name %s (tainted by an earlier own panic: %v): callbacks %v, model expects %v", n, tainted, byName[n], expect[n])
					broken[n] = true
					if lv != nil {
						lv.tainted = true
					}
					continue
				}
				allowed := func(c *vfCore) bool {
					return old != nil && c != nil && (c == old.core || c == old.good)
				}
				oldDesc := "<none>"
				if old != nil {
					oldDesc = old.core.desc()
					if old.good != old.core {
						oldDesc += " or " + old.good.desc()
					}
				}
				for _, c := range ocalls {
					fresh := c.NInit+c.NInh == 1 && c.NClose == 0
					switch c.Op {
					case "init", "inherit":
						if !fresh {
							add(n, "lifecycle-mismatch", "name %s: %s on an instance that was used before: %s", n, c.Op, c)
						}
						if c.Op == "inherit" && !allowed(c.Prev) {
							add(n, "inherit-wrong-predecessor", "name %s: %s but the live generation was %s", n, c, oldDesc)
						}
						lv.core = c.Core
						if c.Panicked {
							lv.tainted = true
						} else {
							lv.good = c.Core
						}
					case "close":
						if !allowed(c.Core) {
							add(n, "close-wrong-instance", "name %s: %s but the live instance was %s", n, c, oldDesc)
						}
						if c.NClose != 1 {
							add(n, "lifecycle-mismatch", "name %s: instance closed %d times: %s", n, c.NClose, c)
						}
					}
				}

				// ---- filter level
				oldPipe := old != nil && old.obj.Kind == "Pipeline"
				newPipe := lv != nil && lv.obj.Kind == "Pipeline"
				if !oldPipe && !newPipe {
					if len(fcalls) > 0 {
						add(n, "lifecycle-mismatch", "name %s is no pipeline but filters were called: %v", n, fcalls)
					}
					continue
				}
				for _, c := range fcalls {
					if c.Op == "close" {
						if c.NClose != 1 {
							add(n, "lifecycle-mismatch", "pipeline %s: filter instance closed %d times: %s", n, c.NClose, c)
						}
					} else if c.NInit+c.NInh != 1 || c.NClose != 0 {
						add(n, "lifecycle-mismatch", "pipeline %s: %s on a filter instance that was used before: %s", n, c.Op, c)
					}
				}
				var started []*vfCore // filters of this step whose Init/Inherit completed
				nstarts := 0
				for _, c := range fcalls {
					if c.Op != "close" {
						nstarts++
						if !c.Panicked {
							started = append(started, c.Core)
						}
					}
				}
				pipeTainted := oldPipe && tainted
				if !pipeTainted && !fpanic {
					// the exact contract
					if strings.Join(gotF, ",") != strings.Join(wantF, ",") {
						add(n, "lifecycle-mismatch", "name %s: filter callbacks %v, model expects %v", n, fcalls, wantF)
						broken[n] = true
						if lv != nil {
							lv.tainted = true
						}
						continue
					}
					if newPipe {
						nf := map[string]*vfCore{}
						if sameObject && len(fcalls) == 0 {
							nf = old.fcores
						}
						for _, c := range fcalls {
							if c.Op != "close" {
								nf[c.Sub] = c.Core
							}
						}
						lv.fcores, lv.fattempt = nf, nil
					}
					for _, c := range fcalls {
						switch c.Op {
						case "inherit":
							if want := old.fcores[c.Sub]; c.Prev != want {
								add(n, "inherit-wrong-predecessor", "name %s: %s but the live generation was %s", n, c, want.desc())
							}
						case "close":
							if want := old.fcores[c.Sub]; c.Core != want {
								add(n, "close-wrong-instance", "name %s: %s but the live instance was %s", n, c, want.desc())
							}
						}
					}
					continue
				}
				if !pipeTainted {
					// first panic of this pipeline happens in this step: nothing outside the expected callbacks
					rest := append([]string{}, wantF...)
					for _, g := range gotF {
						found := false
						for i, w := range rest {
							if w == g {
								rest = append(rest[:i], rest[i+1:]...)
								found = true
								break
							}
						}
						if !found {
							add(n, "lifecycle-mismatch", "name %s: filter callback %s is not among the expected %v (all: %v)", n, g, wantF, fcalls)
						}
					}
					for _, c := range fcalls {
						if oldPipe && c.Op == "inherit" && c.Prev != old.fcores[c.Sub] {
							add(n, "inherit-wrong-predecessor", "name %s: %s but the live generation was %s", n, c, old.fcores[c.Sub].desc())
						}
						if oldPipe && c.Op == "close" && c.Core != old.fcores[c.Sub] {
							add(n, "close-wrong-instance", "name %s: %s but the live instance was %s", n, c, old.fcores[c.Sub].desc())
						}
					}
					if newPipe {
						lv.tainted = true
						lv.fattempt = started
						if !sameObject {
							lv.fcores = nil
						}
					}
					continue
				}
				// the pipeline was tainted before this step
				if !sameObject {
					// it goes away: its one Close reaches the open filters of one generation
					closedNow := map[*vfCore]bool{}
					closePanicked := false
					for _, c := range fcalls {
						if c.Op == "close" {
							closedNow[c.Core] = true
							closePanicked = closePanicked || c.Panicked
						}
					}
					openOf := func(cs []*vfCore) map[*vfCore]bool {
						o := map[*vfCore]bool{}
						for _, c := range cs {
							if !closedBefore[c] {
								o[c] = true
							}
						}
						return o
					}
					var goodList []*vfCore
					for _, c := range old.fcores {
						goodList = append(goodList, c)
					}
					match := func(cand map[*vfCore]bool) bool {
						for c := range closedNow {
							if !cand[c] {
								return false
							}
						}
						return closePanicked || len(closedNow) == len(cand)
					}
					candA, candB := openOf(old.fattempt), openOf(goodList)
					if !match(candA) && !match(candB) {
						var da, db []string
						for c := range candA {
							da = append(da, c.desc())
						}
						for c := range candB {
							db = append(db, c.desc())
						}
						sort.Strings(da)
						sort.Strings(db)
						add(n, "tainted-pipeline-close-mismatch", "pipeline %s (tainted) goes away: filter callbacks %v; one Close must reach the open filters of the stored generation %v or of the last completed one %v", n, fcalls, da, db)
					}
					if newPipe { // cannot happen (a kind change leaves the Pipeline kind)
						lv.tainted = true
					}
					continue
				}
				// tainted pipeline stays: what its next generation does with the broken one is unspecified
				if nstarts > 0 {
					lv.fattempt = started
				}
			}
			for n := range panicked {
				for _, m := range vfNames {
					if m != n && changed[m] {
						ntPanic = true
						vf.Class("panic-fired-with-other-object-changing")
						break
					}
				}
			}

			if live {
			// ---- live set == snapshot
			st, _ := rc.Status().ObjectStatus.(*rctcpkg.Status)
			for _, n := range vfNames {
				if broken[n] {
					continue
				}
				lv := newModel[n]
				wantCtl := lv != nil && vfKindCat[lv.obj.Kind] == supervisor.CategoryBusinessController
				wantGate := lv != nil && vfKindCat[lv.obj.Kind] == supervisor.CategoryTrafficGate
				wantPipe := lv != nil && lv.obj.Kind == "Pipeline"
				ce, cok := super.GetBusinessController(n)
				ge, gok := tc.GetTrafficGate(rctcpkg.DefaultNamespace, n)
				pe, pok := tc.GetPipeline(rctcpkg.DefaultNamespace, n)
				if cok != wantCtl || gok != wantGate || pok != wantPipe {
					add(n, "live-set-mismatch", "name %s: GetBusinessController=%v GetTrafficGate=%v GetPipeline=%v, snapshot says controller=%v gate=%v pipeline=%v", n, cok, gok, pok, wantCtl, wantGate, wantPipe)
					continue
				}
				if st != nil {
					_, sg := st.TrafficGates[n]
					_, sp := st.Pipelines[n]
					if sg != wantGate || sp != wantPipe {
						add(n, "live-set-mismatch", "name %s: rctc Status lists gate=%v pipeline=%v, snapshot says gate=%v pipeline=%v", n, sg, sp, wantGate, wantPipe)
						continue
					}
				}
				var oe *supervisor.ObjectEntity
				if wantCtl {
					oe = ce
				} else if wantGate {
					oe = ge
				}
				if oe != nil {
					if got := vfCoreOfObject(oe.Instance()); got != lv.core && (got == nil || got != lv.good) {
						add(n, "live-set-mismatch", "name %s: live instance is %s, model says %s", n, got.desc(), lv.core.desc())
					}
					if d, w := vfEntityDesc(oe), lv.obj.Kind+"["+lv.obj.Payload+"]"; !lv.tainted && d != w {
						add(n, "live-set-mismatch", "name %s: live spec is %s, snapshot says %s", n, d, w)
					}
				}
				if wantPipe && !lv.tainted {
					if d, w := vfEntityDesc(pe), "Pipeline["+lv.obj.Payload+"]"; d != w {
						add(n, "live-set-mismatch", "name %s: live spec is %s, snapshot says %s", n, d, w)
					}
					ps, _ := pe.Instance().Status().ObjectStatus.(*pipeline.Status)
					var got, want []string
					if ps != nil {
						for fn, id := range ps.Filters {
							got = append(got, fmt.Sprintf("%s=#%v", fn, id))
						}
					}
					for fn, c := range lv.fcores {
						want = append(want, fmt.Sprintf("%s=#%d", fn, c.id))
					}
					sort.Strings(got)
					sort.Strings(want)
					if strings.Join(got, ",") != strings.Join(want, ",") {
						add(n, "live-set-mismatch", "pipeline %s runs filter instances %v, model says %v", n, got, want)
					}
				}
			}

			}

			if len(disc) > 0 {
				key := ""
				for _, d := range disc {
					if _, ok := kindChange[d.name]; !ok {
						key = d.kind
						break
					}
				}
				if key == "" {
					first := ""
					for _, d := range disc {
						if first == "" || d.name < first {
							first = d.name
						}
					}
					key = kindChange[first]
					// the old finding's key only when the old finding's signature (an Inherit for the name) shows
					asUpdate := false
					for _, c := range byName[first] {
						asUpdate = asUpdate || c.Op == "inherit"
					}
					if !asUpdate {
						key = strings.Replace(key, "kind-change-delivered-as-update", "kind-change-not-close-plus-init", 1)
					}
				}
				var lines []string
				for _, d := range disc {
					lines = append(lines, "  - "+d.text)
				}
				var calls []string
				for _, c := range stepCalls {
					calls = append(calls, c.String())
				}
				finish()
				closeSuper()
				vf.Violation(rt, key, "after step %d (%s):\n%s\ncallbacks of this snapshot: %v\nhistory:\n%s", step, what, strings.Join(lines, "\n"), calls, strings.Join(hist, "\n"))
				return false
			}

			for _, n := range vfNames {
				if _, present := next[n]; present {
					everPresent[n] = true
				} else if everPresent[n] {
					everAbsentAfterPresent[n] = true
				}
			}
			for _, c := range stepCalls {
				if c.Op == "close" {
					closedBefore[c.Core] = true
				}
			}
			model = newModel
			cur = next
			return true
		}

		blockAt := rapid.IntRange(0, 2*nsteps).Draw(rt, "blockAt") // >= nsteps: no blocked callback in this case
		for step := 0; step < nsteps; step++ {
			led.mu.Lock()
			led.step = step
			led.mu.Unlock()
			next := genNext(cur)
			var planDesc []string
			for _, n := range vfNames {
				m := rapid.SampledFrom([]int{0, 0, 0, 0, 0, 0, 0, 0, 0, 0, 0, 0, 0, 0, 1, 2, 4, 7}).Draw(rt, "panicMask")
				if m == 0 || probing {
					// a case that probes a known kind-change finding runs without injected panics: this
					// target sees callbacks only, and an exempt (panicking) name would hide the finding
					// until its delayed consequences surface under an unspecific key
					continue
				}
				fn := rapid.SampledFrom(vfFilterNames).Draw(rt, "panicFilter")
				led.mu.Lock()
				led.plan[fmt.Sprintf("%d/%s", step, n)] = m
				led.plan[fmt.Sprintf("%d/%s/%s", step, n, fn)] = m
				led.mu.Unlock()
				planDesc = append(planDesc, fmt.Sprintf("%s(/%s):%d", n, fn, m))
			}

			// fault plan entry "callback blocks until released": the Init/Inherit of one object of this
			// snapshot parks on a harness channel (a consumer stalled in a slow callback) while fillers
			// (>= the watcher queue's capacity of 10; they change the sentinels only, so both watchers get an
			// event each) and one more generated snapshot go through the syncer; then it is released.
			blockName := ""
			if step == blockAt {
				var cands []string
				for _, n := range vfNames {
					nw, present := next[n]
					o, had := cur[n]
					if present && (!had || o != nw) {
						cands = append(cands, n)
					}
				}
				if len(cands) > 0 {
					blockName = rapid.SampledFrom(cands).Draw(rt, "blockName")
				}
			}
			// an EMPTY snapshot through the syncer (the last objects were removed: the syncer delivers a map
			// without entries; not even the sentinels are in it). The sentinels come back in a snapshot of
			// their own, then the generated snapshot follows: each consumer's callbacks before its sentinel's
			// Init belong to the empty snapshot (everything closed, the sentinels included), the ones after
			// it to the snapshot that follows.
			if blockName == "" && rapid.IntRange(0, 4).Draw(rt, "emptySnapshot") == 0 {
				vf.Class("empty-snapshot-through-the-syncer")
				if len(cur) > 0 {
					vf.Class("empty-snapshot-removes-the-last-objects")
				}
				hist = append(hist, fmt.Sprintf("step %d: EMPTY snapshot {} (no entry at all), then the sentinels alone, then snapshot %s panic-plan(name(/filter):mask 1=init 2=inherit 4=close)=%v", step, next, planDesc))
				led.mu.Lock()
				callsBefore := len(led.calls)
				led.mu.Unlock()
				stepStartNo := barrierNo // every sentinel payload up to this number was sent before this step
				send(map[string]string{})
				prevB := fmt.Sprintf("b%d", barrierNo)
				send(map[string]string{
					vfSentinelCtl:  vfRender(vfSentinelCtl, vfObj{"VfCtlA", prevB}),
					vfSentinelGate: vfRender(vfSentinelGate, vfObj{"VfGateA", prevB}),
				})
				apply(next)
				led.mu.Lock()
				stepCalls := append([]vfCall{}, led.calls[callsBefore:]...)
				led.mu.Unlock()
				var calls1, calls2 []vfCall
				sentinelOps := map[string][]string{}
				for _, c := range stepCalls {
					consumer := vfSentinelGate
					if c.Level == "ctl" {
						consumer = vfSentinelCtl
					}
					if c.Op == "marker" {
						// a bump of an earlier barrier may still be in flight when this step starts (the barrier
						// re-bumps when a report is late and returns on the first report): an Inherit with a payload
						// that was sent before this step, arriving before the Close, belongs to that earlier bump
						no := -1
						fmt.Sscanf(strings.TrimPrefix(c.Payload, "b"), "%d", &no)
						if c.Kind == "inherit" && no >= 0 && no <= stepStartNo && len(sentinelOps[c.Owner]) == 0 {
							vf.Class("earlier-barrier-bump-arrived-inside-the-empty-snapshot-step")
							continue
						}
						sentinelOps[c.Owner] = append(sentinelOps[c.Owner], c.Kind)
						continue
					}
					seenInit := false
					for _, op := range sentinelOps[consumer] {
						seenInit = seenInit || op == "init"
					}
					if seenInit {
						calls2 = append(calls2, c)
					} else {
						calls1 = append(calls1, c)
					}
				}
				// the sentinels are objects like any other: closed once by the empty snapshot, initialised
				// once when they reappear, then inherited by the barrier's bump(s)
				for _, sn := range []string{vfSentinelCtl, vfSentinelGate} {
					ops := sentinelOps[sn]
					if len(ops) < 2 || ops[0] != "close" || ops[1] != "init" {
						finish()
						closeSuper()
						vf.Violation(rt, "empty-snapshot-not-applied", "after step %d: object %s was in no entry of the empty snapshot and is back in the next one, so it must get Close then Init; its callbacks were %v; callbacks of the other objects in this step: %v\nhistory:\n%s", step, sn, ops, vfWithoutMarkers(stepCalls), strings.Join(hist, "\n"))
						return
					}
				}
				if !judge(step, "empty snapshot", vfSnap{}, calls1, false) {
					return
				}
				if !judge(step, "snapshot after the empty one", next, calls2, true) {
					return
				}
				continue
			}
			if blockName == "" {
				hist = append(hist, fmt.Sprintf("step %d: snapshot %s panic-plan(name(/filter):mask 1=init 2=inherit 4=close)=%v", step, next, planDesc))
				led.mu.Lock()
				callsBefore := len(led.calls)
				led.mu.Unlock()
				apply(next)
				led.mu.Lock()
				stepCalls := append([]vfCall{}, led.calls[callsBefore:]...)
				led.mu.Unlock()
				if !judge(step, "single snapshot", next, vfWithoutMarkers(stepCalls), true) {
					return
				}
				continue
			}

			vf.Class("blocked-callback-while-snapshots-queue-up")
			nfill := rapid.SampledFrom([]int{2, 10, 10, 11, 12}).Draw(rt, "fillers")
			next2 := genNext(next)
			hist = append(hist, fmt.Sprintf("step %d: snapshot %s panic-plan(name(/filter):mask 1=init 2=inherit 4=close)=%v; the first Init/Inherit on %s BLOCKS until released", step, next, planDesc, blockName))
			hist = append(hist, fmt.Sprintf("step %d (while blocked): %d sentinel-only snapshots, then snapshot %s; then release", step, nfill, next2))
			led.mu.Lock()
			callsBefore := len(led.calls)
			led.block = fmt.Sprintf("%d/%s", step, blockName)
			led.mu.Unlock()
			mkcfg := func(snap vfSnap, b string) map[string]string {
				cfg := map[string]string{}
				for n, o := range snap {
					cfg[n] = vfRender(n, o)
				}
				cfg[vfSentinelCtl] = vfRender(vfSentinelCtl, vfObj{"VfCtlA", b})
				cfg[vfSentinelGate] = vfRender(vfSentinelGate, vfObj{"VfGateA", b})
				return cfg
			}
			send(mkcfg(next, fmt.Sprintf("b%d", barrierNo)))
			select {
			case <-led.parked:
			case <-time.After(vfWaitBound()):
				vfWaitExpired = true
				close(led.release)
				rt.Fatalf("VF-INCONCLUSIVE the callback on %s that was to block was not called within %v", blockName, vfBarrierWait)
			}
			fillers := map[string]bool{}
			var cfgs []map[string]string
			for i := 0; i < nfill; i++ {
				barrierNo++
				b := fmt.Sprintf("b%d", barrierNo)
				fillers[b] = true
				cfgs = append(cfgs, mkcfg(next, b))
			}
			cfgs = append(cfgs, mkcfg(next2, fmt.Sprintf("b%d", barrierNo)))
			pushed := make(chan struct{})
			stopPush := make(chan struct{})
			go func() {
				defer close(pushed)
				for _, cfg := range cfgs {
					kv := map[string]string{}
					for n, y := range cfg {
						kv[prefix+n] = y
					}
					select {
					case syncChan <- kv:
					case <-stopPush:
						return
					}
				}
			}()
			// release when everything was taken, or when the registry is parked on a full watcher queue
			// (read from the goroutine dump: the unchanged registry blocks there until the consumer moves)
			waitStart := time.Now()
			for done := false; !done; {
				select {
				case <-pushed:
					done = true
				default:
					if vfRegistryParkedInSend() {
						vf.Class("registry-blocked-on-a-full-watcher-queue")
						done = true
					} else if time.Since(waitStart) > 10*time.Second && !vfProbeSeen {
						// the goroutine dump never showed the registry parked (frames renamed/inlined?): release
						// without knowing that the queue ran full; the oracle is unaffected, the schedule is weaker
						vf.Class("probe-unavailable:registry-parked-in-send")
						done = true
					} else if time.Since(waitStart) > vfWaitBound() {
						vfWaitExpired = true
						close(stopPush)
						close(led.release)
						rt.Fatalf("VF-INCONCLUSIVE snapshots pushed behind a blocked callback were neither all taken nor did the registry park within %v", vfBarrierWait)
					} else {
						time.Sleep(50 * time.Microsecond)
					}
				}
			}
			close(led.release)
			select {
			case <-pushed:
			case <-time.After(vfWaitBound()):
				vfWaitExpired = true
				close(stopPush)
				rt.Fatalf("VF-INCONCLUSIVE the registry did not take the queued snapshots within %v after the release", vfBarrierWait)
			}
			applyBarrier(next2)
			led.mu.Lock()
			stepCalls := append([]vfCall{}, led.calls[callsBefore:]...)
			led.mu.Unlock()
			// callbacks of the first snapshot come before, those of the second after the consumer's
			// first filler marker (each consumer handles its events in order)
			var calls1, calls2 []vfCall
			seenFiller := map[string]bool{}
			for _, c := range stepCalls {
				consumer := "rctc"
				if c.Level == "ctl" {
					consumer = "supervisor"
				}
				if c.Op == "marker" {
					if fillers[c.Payload] {
						seenFiller[consumer] = true
					}
					continue
				}
				if seenFiller[consumer] {
					calls2 = append(calls2, c)
				} else {
					calls1 = append(calls1, c)
				}
			}
			if !judge(step, "snapshot with the blocked callback", next, calls1, false) {
				return
			}
			if !judge(step, "snapshot queued behind the blocked callback", next2, calls2, true) {
				return
			}
		}
		finish()
		closeSuper()
	})
}
