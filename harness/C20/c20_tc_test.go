//go:build go1.21

package trafficcontroller

// C20 (d): TrafficController driven the way the owners of a namespace drive it (IngressController,
// mesh IngressController, function worker): the desired snapshot of a namespace is applied with
// ApplyPipelineForSpec / ApplyTrafficGateForSpec, stale names are removed with Delete*, and the whole
// namespace is dropped with Clean(namespace) when the owner is closed (which is also what happens on
// every spec update of such an owner: Inherit = previous.Close() + Init), after which the same or
// other names are applied again. TrafficController.Close ends every case. Oracle: the exactly-once
// lifecycle ledger of two test kinds (one of category Pipeline, one TrafficGate) plus the live set
// (Get*/List*, and the entity Apply* hands out) against the model of the latest snapshot.

import (
	"fmt"
	"sort"
	"strings"
	"sync"
	"testing"

	"pgregory.net/rapid"

	"github.com/megaease/easegress/pkg/context"
	"github.com/megaease/easegress/pkg/logger"
	"github.com/megaease/easegress/pkg/supervisor"
)

func init() { logger.InitNop() }

type vfCore struct {
	id      int
	kind    string
	name    string
	payload string
	nInit   int
	nInh    int
	nClose  int
	muxNil  bool
}

func (c *vfCore) desc() string {
	if c == nil {
		return "<none>"
	}
	return fmt.Sprintf("#%d(%s/%s payload=%s closed=%d)", c.id, c.name, c.kind, c.payload, c.nClose)
}

type vfCall struct {
	Op                  string
	Core                *vfCore
	Prev                *vfCore
	PrevDesc            string
	Name                string
	Kind                string
	Payload             string
	Panicked            bool
	NInit, NInh, NClose int
}

func (c vfCall) String() string {
	s := fmt.Sprintf("%s(%s/%s payload=%s inst=#%d", c.Op, c.Name, c.Kind, c.Payload, c.Core.id)
	if c.Op == "inherit" {
		s += " prev=" + c.PrevDesc
	}
	if c.Panicked {
		s += " PANICS"
	}
	return s + ")"
}

type vfLedger struct {
	calls  []vfCall
	nextID int
	// fault plan: "<step>/<name>" -> mask (1 init, 2 inherit, 4 close); the step acts on one namespace
	plan map[string]int
	step int
}

var vfLed *vfLedger

type vfObjSpec struct {
	Payload string `yaml:"payload" jsonschema:"omitempty"`
}

type vfCored interface{ vfCoreOf() *vfCore }

func (c *vfCore) vfCoreOf() *vfCore {
	if c.id == 0 && vfLed != nil {
		vfLed.nextID++
		c.id = vfLed.nextID
	}
	return c
}

func vfCoreOfObject(o interface{}) *vfCore {
	if c, ok := o.(vfCored); ok {
		return c.vfCoreOf()
	}
	return nil
}

func (c *vfCore) Status() *supervisor.Status {
	return &supervisor.Status{ObjectStatus: map[string]interface{}{"inst": c.vfCoreOf().id}}
}
func (c *vfCore) DefaultSpec() interface{} { return &vfObjSpec{} }

func (c *vfCore) record(op, kind string, s *supervisor.Spec, prev supervisor.Object, mux context.MuxMapper) {
	c.vfCoreOf()
	c.kind = kind
	if s != nil {
		c.name = s.Name()
		if os, ok := s.ObjectSpec().(*vfObjSpec); ok {
			c.payload = os.Payload
		}
		if mux == nil {
			c.muxNil = true
		}
	}
	call := vfCall{Op: op, Core: c, Name: c.name, Kind: kind, Payload: c.payload}
	bit := 0
	switch op {
	case "init":
		c.nInit++
		bit = 1
	case "inherit":
		c.nInh++
		bit = 2
		call.Prev = vfCoreOfObject(prev)
		call.PrevDesc = fmt.Sprintf("<%T>", prev)
		if call.Prev != nil {
			call.PrevDesc = call.Prev.desc()
		}
	case "close":
		c.nClose++
		bit = 4
	}
	call.NInit, call.NInh, call.NClose = c.nInit, c.nInh, c.nClose
	l := vfLed
	if l == nil {
		return
	}
	if l.plan[fmt.Sprintf("%d/%s", l.step, c.name)]&bit != 0 {
		call.Panicked = true
	}
	l.calls = append(l.calls, call)
	if call.Panicked {
		panic(fmt.Sprintf("vf injected panic in %s of %s", op, c.desc()))
	}
}

type VfPipe struct{ vfCore }
type VfGate struct{ vfCore }

func (o *VfPipe) Category() supervisor.ObjectCategory { return supervisor.CategoryPipeline }
func (o *VfPipe) Kind() string                        { return "VfPipe" }
func (o *VfPipe) Init(s *supervisor.Spec, m context.MuxMapper) {
	o.record("init", o.Kind(), s, nil, m)
}
func (o *VfPipe) Inherit(s *supervisor.Spec, p supervisor.Object, m context.MuxMapper) {
	o.record("inherit", o.Kind(), s, p, m)
}
func (o *VfPipe) Close() { o.record("close", o.Kind(), nil, nil, nil) }

func (o *VfGate) Category() supervisor.ObjectCategory { return supervisor.CategoryTrafficGate }
func (o *VfGate) Kind() string                        { return "VfGate" }
func (o *VfGate) Init(s *supervisor.Spec, m context.MuxMapper) {
	o.record("init", o.Kind(), s, nil, m)
}
func (o *VfGate) Inherit(s *supervisor.Spec, p supervisor.Object, m context.MuxMapper) {
	o.record("inherit", o.Kind(), s, p, m)
}
func (o *VfGate) Close() { o.record("close", o.Kind(), nil, nil, nil) }

var vfRegisterOnce sync.Once

func vfRegisterKinds() {
	vfRegisterOnce.Do(func() {
		supervisor.Register(&VfPipe{})
		supervisor.Register(&VfGate{})
	})
}

var (
	vfNamespaces = []string{"ns-a", "ns-b"}
	vfPipeNames  = []string{"p0", "p1", "p2"}
	vfGateNames  = []string{"g0", "g1"}
	vfAllNames   = []string{"g0", "g1", "p0", "p1", "p2"}
	vfPayloads   = []string{"x0", "x1", "x2"}
)

func vfIsPipe(name string) bool { return strings.HasPrefix(name, "p") }

// model of one live object of one namespace
type vfLive struct {
	payload string
	core    *vfCore // instance that received the latest Init/Inherit
	good    *vfCore // latest instance whose Init/Inherit completed (== core unless tainted)
	tainted bool
}

type vfDiscrepancy struct{ kind, text string }

func vfSnapString(m map[string]string) string {
	var parts []string
	for _, n := range vfAllNames {
		if p, ok := m[n]; ok {
			parts = append(parts, n+"="+p)
		}
	}
	return "{" + strings.Join(parts, " ") + "}"
}

// TestVerifC20TrafficController: apply / delete-stale / Clean / re-apply histories per namespace.
func TestVerifC20TrafficController(t *testing.T) {
	vfRegisterKinds()
	vf := vfBegin(t, "C20")
	defer vf.End()
	rapid.Check(t, func(rt *rapid.T) {
		led := &vfLedger{plan: map[string]int{}}
		vfLed = led
		defer func() { vfLed = nil }()

		super := supervisor.NewDefaultMock()
		tcSpec, err := super.NewSpec("name: TrafficController\nkind: TrafficController\n")
		if err != nil {
			rt.Fatalf("VF-INCONCLUSIVE cannot build the TrafficController spec: %v", err)
		}
		tc := &TrafficController{}
		tc.Init(tcSpec)

		// what a namespace's owner ever asks for: pipelines only, gates only, or both
		flavour := map[string]string{}
		for _, ns := range vfNamespaces {
			flavour[ns] = rapid.SampledFrom([]string{"pipelines", "gates", "both", "both"}).Draw(rt, "flavour")
		}
		model := map[string]map[string]*vfLive{} // ns -> name -> live
		for _, ns := range vfNamespaces {
			model[ns] = map[string]*vfLive{}
		}
		cleanedNames := map[string]map[string]bool{} // ns -> names that were live at the latest Clean
		everGone := map[string]bool{}                // ns/name that was live once and then closed
		nsteps := rapid.IntRange(2, 12).Draw(rt, "nsteps")
		var hist []string
		ntReappear, ntPanic, ntCleanReapply := false, false, false
		finish := func() {
			vf.Case(ntReappear || ntPanic || ntCleanReapply, strings.Join(hist, "\n"), func() interface{} {
				return map[string]interface{}{"history": append([]string{}, hist...), "reappear": ntReappear,
					"clean_then_reapply": ntCleanReapply, "panic_with_other_change": ntPanic, "callbacks": len(led.calls)}
			})
		}

		// judge: callbacks of one action on namespace ns against want (name -> ops), then the live sets
		judge := func(step int, what, ns string, want map[string][]string, newNS map[string]*vfLive, stepCalls []vfCall, handed map[string]*supervisor.ObjectEntity, otherNS bool) bool {
			var disc []vfDiscrepancy
			add := func(kind, format string, args ...interface{}) {
				disc = append(disc, vfDiscrepancy{kind, fmt.Sprintf(format, args...)})
			}
			byName := map[string][]vfCall{}
			npanic, nchanged := 0, 0
			for _, c := range stepCalls {
				byName[c.Name] = append(byName[c.Name], c)
				if c.Panicked {
					npanic++
					vf.Class("panic-fired-in-" + c.Op)
				}
				if c.Op != "close" && c.Core.muxNil {
					add("nil-mux-mapper", "%s got a nil MuxMapper", c)
				}
			}
			for n := range byName {
				known := false
				for _, k := range vfAllNames {
					known = known || k == n
				}
				if !known {
					add("lifecycle-mismatch", "callbacks on an unknown name %q: %v", n, byName[n])
				}
			}
			old := model[ns]
			broken := map[string]bool{}
			for _, n := range vfAllNames {
				o, lv := old[n], newNS[n]
				if len(want[n]) > 0 {
					nchanged++
				}
				tainted := o != nil && o.tainted
				if tainted {
					vf.Class("tainted-name-step-judged-with-narrowed-oracle")
				}
				var got []string
				for _, c := range byName[n] {
					if c.Op == "close" {
						got = append(got, "close")
					} else {
						got = append(got, c.Op+":"+c.Payload)
					}
				}
				ws := append([]string{}, want[n]...)
				sort.Strings(got)
				sort.Strings(ws)
				okOps := strings.Join(got, ",") == strings.Join(ws, ",")
				if !okOps && tainted && lv != nil && o.payload == lv.payload && len(ws) == 0 && len(got) == 1 && got[0] == "inherit:"+lv.payload {
					vf.Class("ambiguous-tainted-object-reinherited-on-unchanged-spec")
					okOps = true
				}
				if !okOps {
					add("lifecycle-mismatch", "%s/%s (tainted by an earlier own panic: %v): callbacks %v, the statement calls for %v", ns, n, tainted, byName[n], want[n])
					broken[n] = true
					continue
				}
				allowed := func(c *vfCore) bool { return o != nil && c != nil && (c == o.core || c == o.good) }
				oldDesc := "<none>"
				if o != nil {
					oldDesc = o.core.desc()
					if o.good != o.core {
						oldDesc += " or " + o.good.desc()
					}
				}
				for _, c := range byName[n] {
					switch c.Op {
					case "init", "inherit":
						if c.NInit+c.NInh != 1 || c.NClose != 0 {
							add("lifecycle-mismatch", "%s/%s: %s on an instance that was used before: %s", ns, n, c.Op, c)
						}
						if c.Op == "inherit" && !allowed(c.Prev) {
							add("inherit-wrong-predecessor", "%s/%s: %s but the live generation was %s", ns, n, c, oldDesc)
						}
						if c.Op == "inherit" && c.Prev != nil && c.Prev.nClose > 0 {
							add("inherit-from-closed-object", "%s/%s: %s: the predecessor had been closed", ns, n, c)
						}
						lv.core = c.Core
						if c.Panicked {
							lv.tainted = true
						} else {
							lv.good = c.Core
						}
					case "close":
						if !allowed(c.Core) {
							add("close-wrong-instance", "%s/%s: %s but the live instance was %s", ns, n, c, oldDesc)
						}
						if c.NClose != 1 {
							add("closed-more-than-once", "%s/%s: instance closed %d times: %s", ns, n, c.NClose, c)
						}
					}
				}
			}
			if npanic > 0 && nchanged >= 2 {
				ntPanic = true
				vf.Class("panic-fired-with-other-object-changing")
			}
			model[ns] = newNS
			// what Apply* handed out is the live object, and a live object is not a closed one
			for _, n := range vfAllNames {
				e, ok := handed[n]
				if !ok || broken[n] {
					continue
				}
				lv := newNS[n]
				got := vfCoreOfObject(e.Instance())
				if got == nil || (got != lv.core && got != lv.good) {
					add("apply-returns-wrong-object", "%s/%s: Apply handed out %s, the live object is %s", ns, n, got.desc(), lv.core.desc())
				} else if got.nClose > 0 {
					add("closed-object-handed-out-as-live", "%s/%s: Apply handed out %s which has been closed", ns, n, got.desc())
				}
			}
			// live sets of every namespace == the model
			for _, ns2 := range vfNamespaces {
				listed := map[string]bool{}
				for _, e := range tc.ListPipelines(ns2) {
					listed["p:"+e.Spec().Name()] = true
				}
				for _, e := range tc.ListTrafficGates(ns2) {
					listed["g:"+e.Spec().Name()] = true
				}
				for _, n := range vfAllNames {
					if ns2 == ns && broken[n] {
						continue
					}
					lv := model[ns2][n]
					var e *supervisor.ObjectEntity
					var ok, wrongMap, inList bool
					if vfIsPipe(n) {
						e, ok = tc.GetPipeline(ns2, n)
						_, wrongMap = tc.GetTrafficGate(ns2, n)
						inList = listed["p:"+n]
					} else {
						e, ok = tc.GetTrafficGate(ns2, n)
						_, wrongMap = tc.GetPipeline(ns2, n)
						inList = listed["g:"+n]
					}
					if ok != (lv != nil) || inList != (lv != nil) || wrongMap {
						add("live-set-mismatch", "%s/%s: Get=%v List=%v registered-under-the-other-category=%v, the latest snapshot says live=%v", ns2, n, ok, inList, wrongMap, lv != nil)
						continue
					}
					if lv == nil {
						continue
					}
					got := vfCoreOfObject(e.Instance())
					if got == nil || (got != lv.core && got != lv.good) {
						add("live-set-mismatch", "%s/%s: live instance is %s, model says %s", ns2, n, got.desc(), lv.core.desc())
					} else if got.nClose > 0 {
						add("closed-object-handed-out-as-live", "%s/%s: the registered object %s has been closed", ns2, n, got.desc())
					}
					if os, _ := e.Spec().ObjectSpec().(*vfObjSpec); !lv.tainted && (os == nil || os.Payload != lv.payload) {
						add("live-set-mismatch", "%s/%s: live spec differs from the snapshot's payload %s", ns2, n, lv.payload)
					}
				}
			}
			if len(disc) == 0 {
				return true
			}
			var lines, calls []string
			for _, d := range disc {
				lines = append(lines, "  - "+d.text)
			}
			for _, c := range stepCalls {
				calls = append(calls, c.String())
			}
			finish()
			vf.Violation(rt, disc[0].kind, "after step %d (%s):\n%s\ncallbacks of this step: %v\nhistory:\n%s", step, what, strings.Join(lines, "\n"), calls, strings.Join(hist, "\n"))
			return false
		}

		for step := 0; step < nsteps; step++ {
			led.step = step
			ns := rapid.SampledFrom(vfNamespaces).Draw(rt, "ns")
			act := rapid.SampledFrom([]string{"sync", "sync", "sync", "clean", "clean"}).Draw(rt, "act")
			if act == "clean" && len(model[ns]) == 0 && rapid.IntRange(0, 3).Draw(rt, "cleanEmpty") != 0 {
				act = "sync" // cleaning an empty or missing namespace stays in, but rarely
			}
			var planDesc []string
			for _, n := range vfAllNames {
				m := rapid.SampledFrom([]int{0, 0, 0, 0, 0, 0, 0, 0, 0, 0, 0, 0, 0, 0, 0, 0, 1, 2, 4, 7}).Draw(rt, "panicMask")
				if m != 0 {
					led.plan[fmt.Sprintf("%d/%s", step, n)] = m
					planDesc = append(planDesc, fmt.Sprintf("%s:%d", n, m))
				}
			}
			old := model[ns]
			want := map[string][]string{}
			newNS := map[string]*vfLive{}
			callsBefore := len(led.calls)
			handed := map[string]*supervisor.ObjectEntity{}

			if act == "clean" {
				np, ng := 0, 0
				for n := range old {
					if vfIsPipe(n) {
						np++
					} else {
						ng++
					}
					want[n] = []string{"close"}
					everGone[ns+"/"+n] = true
				}
				switch {
				case np > 0 && ng > 0:
					vf.Class("clean-namespace-with-pipelines-and-gates")
				case np > 0:
					vf.Class("clean-namespace-with-pipelines-only")
				case ng > 0:
					vf.Class("clean-namespace-with-gates-only")
				default:
					vf.Class("clean-empty-or-missing-namespace")
				}
				if np+ng > 0 {
					cleanedNames[ns] = map[string]bool{}
					for n := range old {
						cleanedNames[ns][n] = true
					}
				}
				hist = append(hist, fmt.Sprintf("step %d: Clean(%s) (live there: %s) panic-plan(name:mask 1=init 2=inherit 4=close)=%v", step, ns, vfLiveString(old), planDesc))
				var cerr error
				if p, text, site := vfRecover(func() { cerr = tc.Clean(ns) }); p {
					finish()
					vf.Violation(rt, "panic-escaped Clean", "Clean(%s) panicked at %s: %s\nhistory:\n%s", ns, site, text, strings.Join(hist, "\n"))
					return
				}
				if cerr != nil && np+ng > 0 {
					finish()
					vf.Violation(rt, "clean-fails-on-live-namespace", "Clean(%s) = %v although the namespace holds %s\nhistory:\n%s", ns, cerr, vfLiveString(old), strings.Join(hist, "\n"))
					return
				}
				if !judge(step, "Clean("+ns+")", ns, want, newNS, led.calls[callsBefore:], handed, true) {
					return
				}
				continue
			}

			// sync: the owner applies its desired snapshot and deletes what is stale
			desired := map[string]string{}
			var cands []string
			if flavour[ns] != "gates" {
				cands = append(cands, vfPipeNames...)
			}
			if flavour[ns] != "pipelines" {
				cands = append(cands, vfGateNames...)
			}
			sort.Strings(cands)
			for _, n := range cands {
				o := old[n]
				var choice string
				if o != nil {
					choice = rapid.SampledFrom([]string{"same", "same", "same", "change", "change", "drop"}).Draw(rt, "keep")
				} else if cleanedNames[ns][n] {
					choice = rapid.SampledFrom([]string{"new", "new", "absent"}).Draw(rt, "reapply")
				} else {
					choice = rapid.SampledFrom([]string{"new", "absent", "absent"}).Draw(rt, "appear")
				}
				switch choice {
				case "same":
					desired[n] = o.payload
				case "change", "new":
					desired[n] = rapid.SampledFrom(vfPayloads).Draw(rt, "payload")
				}
			}
			afterClean := len(cleanedNames[ns]) > 0 && len(old) == 0
			for _, n := range vfAllNames {
				o := old[n]
				p, present := desired[n]
				switch {
				case o == nil && present:
					want[n] = []string{"init:" + p}
					newNS[n] = &vfLive{payload: p}
					vf.Class("appear")
					if everGone[ns+"/"+n] {
						vf.Class("reappear")
						ntReappear = true
					}
					if afterClean {
						ntCleanReapply = true
						if cleanedNames[ns][n] {
							vf.Class("reapply-same-name-after-clean")
						} else {
							vf.Class("apply-other-name-after-clean")
						}
					}
				case o != nil && !present:
					want[n] = []string{"close"}
					everGone[ns+"/"+n] = true
					vf.Class("disappear")
				case o != nil && o.payload != p:
					want[n] = []string{"inherit:" + p}
					newNS[n] = &vfLive{payload: p, core: o.core, good: o.good, tainted: o.tainted}
					vf.Class("spec-change")
				case o != nil:
					newNS[n] = &vfLive{payload: p, core: o.core, good: o.good, tainted: o.tainted}
					vf.Class("unchanged")
				}
			}
			if afterClean {
				delete(cleanedNames, ns)
			}
			hist = append(hist, fmt.Sprintf("step %d: owner of %s applies %s (live before: %s) panic-plan(name:mask 1=init 2=inherit 4=close)=%v", step, ns, vfSnapString(desired), vfLiveString(old), planDesc))
			escaped := ""
			for _, n := range vfAllNames {
				p, present := desired[n]
				if !present {
					continue
				}
				kind := "VfGate"
				if vfIsPipe(n) {
					kind = "VfPipe"
				}
				y := fmt.Sprintf("name: %s\nkind: %s\npayload: %s\n", n, kind, p)
				spec, err := super.NewSpec(y)
				if err != nil {
					rt.Fatalf("VF-INCONCLUSIVE generator produced a spec that validation rejects: %v\n%s", err, y)
				}
				var e *supervisor.ObjectEntity
				var aerr error
				if pn, text, site := vfRecover(func() {
					if vfIsPipe(n) {
						e, aerr = tc.ApplyPipelineForSpec(ns, spec)
					} else {
						e, aerr = tc.ApplyTrafficGateForSpec(ns, spec)
					}
				}); pn {
					escaped = fmt.Sprintf("Apply(%s/%s) panicked at %s: %s", ns, n, site, text)
					break
				}
				if aerr != nil || e == nil {
					escaped = fmt.Sprintf("Apply(%s/%s) failed: %v", ns, n, aerr)
					break
				}
				handed[n] = e
			}
			for _, n := range vfAllNames {
				if _, present := desired[n]; present || old[n] == nil || escaped != "" {
					continue
				}
				var derr error
				if pn, text, site := vfRecover(func() {
					if vfIsPipe(n) {
						derr = tc.DeletePipeline(ns, n)
					} else {
						derr = tc.DeleteTrafficGate(ns, n)
					}
				}); pn {
					escaped = fmt.Sprintf("Delete(%s/%s) panicked at %s: %s", ns, n, site, text)
				} else if derr != nil {
					escaped = fmt.Sprintf("Delete(%s/%s) of a live object failed: %v", ns, n, derr)
				}
			}
			if escaped != "" {
				finish()
				vf.Violation(rt, "apply-or-delete-fails", "%s\nhistory:\n%s", escaped, strings.Join(hist, "\n"))
				return
			}
			if !judge(step, "owner of "+ns+" applies its snapshot", ns, want, newNS, led.calls[callsBefore:], handed, true) {
				return
			}
		}

		// shutdown: every object that is still live is closed exactly once, nothing else is touched
		led.step = nsteps
		callsBefore := len(led.calls)
		hist = append(hist, "finally: TrafficController.Close()")
		if p, text, site := vfRecover(func() { tc.Close() }); p {
			finish()
			vf.Violation(rt, "panic-escaped Close", "TrafficController.Close panicked at %s: %s\nhistory:\n%s", site, text, strings.Join(hist, "\n"))
			return
		}
		wantClosed := map[*vfCore]string{}
		for _, ns := range vfNamespaces {
			for n, lv := range model[ns] {
				wantClosed[lv.core] = ns + "/" + n
				if lv.good != nil {
					wantClosed[lv.good] = ns + "/" + n
				}
			}
		}
		closedFor := map[string]int{}
		var bad []string
		for _, c := range led.calls[callsBefore:] {
			who, ok := wantClosed[c.Core]
			switch {
			case c.Op != "close":
				bad = append(bad, "unexpected "+c.String())
			case !ok:
				bad = append(bad, "Close of an object that is not live: "+c.String())
			case c.NClose != 1:
				bad = append(bad, fmt.Sprintf("closed %d times: %s", c.NClose, c))
			default:
				closedFor[who]++
			}
		}
		for _, ns := range vfNamespaces {
			for n := range model[ns] {
				if closedFor[ns+"/"+n] != 1 {
					bad = append(bad, fmt.Sprintf("%s/%s is live and got %d Close calls", ns, n, closedFor[ns+"/"+n]))
				}
			}
		}
		finish()
		if len(bad) > 0 {
			sort.Strings(bad)
			vf.Violation(rt, "shutdown-close-mismatch", "TrafficController.Close: %s\nhistory:\n%s", strings.Join(bad, "; "), strings.Join(hist, "\n"))
		}
	})
}

func vfLiveString(m map[string]*vfLive) string {
	var parts []string
	for _, n := range vfAllNames {
		if lv, ok := m[n]; ok {
			t := ""
			if lv.tainted {
				t = "(tainted)"
			}
			parts = append(parts, n+"="+lv.payload+t)
		}
	}
	return "{" + strings.Join(parts, " ") + "}"
}
