//go:build go1.21

package supervisor

// C20 (a): ObjectRegistry.applyConfig + Supervisor.handleEvent driven fully synchronously over
// generated snapshot sequences; oracle = lifecycle ledger model written from the statement.

import (
	"fmt"
	"runtime"
	"sort"
	"strings"
	"sync"
	"testing"
	"time"

	"pgregory.net/rapid"

	"github.com/megaease/easegress/pkg/context"
	"github.com/megaease/easegress/pkg/logger"
)

func init() { logger.InitNop() }

// ---------------------------------------------------------------------------------------------
// test-only kinds with a lifecycle ledger

type vfCall struct {
	Op       string // init | inherit | close
	Core     *vfCore
	Prev     *vfCore // inherit only (nil when the predecessor is not a vf kind)
	PrevDesc string
	Name     string
	Kind     string
	Payload  string
	Panicked bool
	// the instance's counters right after this call
	NInit, NInh, NClose int
}

// vfSub is one snapshot of a step (a step applies a burst of one or more snapshots before draining).
type vfSub struct {
	snap   vfSnap
	olds   map[string]*vfObj // the object each name had before this snapshot (nil: absent)
	cfg    map[string]string
	expect map[string][]string // business controllers: the callbacks the statement calls for
}

// vfBurstRun applies the snapshots one after the other (own goroutine: applyConfig blocks on a full queue).
func vfBurstRun(or *ObjectRegistry, cfgs []map[string]string, done chan<- string) {
	res := ""
	defer func() {
		if r := recover(); r != nil {
			res = fmt.Sprint(r)
		}
		done <- res
	}()
	for _, c := range cfgs {
		or.applyConfig(c)
	}
}

// vfBurstParkedInSend reports whether the vfBurstRun goroutine is parked in a channel send.
var vfStackBuf = make([]byte, 1<<18)

func vfBurstParkedInSend() bool {
	buf := vfStackBuf
	n := runtime.Stack(buf, true)
	for _, g := range strings.Split(string(buf[:n]), "\n\n") {
		if !strings.Contains(g, "supervisor.vfBurstRun") {
			continue
		}
		head := g
		if i := strings.Index(g, "\n"); i >= 0 {
			head = g[:i]
		}
		return strings.Contains(head, "[chan send")
	}
	return false
}

func (c vfCall) String() string {
	s := fmt.Sprintf("%s(%s/%s payload=%s inst=#%d", c.Op, c.Name, c.Kind, c.Payload, c.Core.id)
	if c.Op == "inherit" {
		s += " prev=" + c.PrevDesc
	}
	if c.Panicked {
		s += " PANICS"
	}
	return s + ")"
}

type vfLedger struct {
	calls  []vfCall
	nextID int
	step   int
	// fault plan: "<step>/<name>" -> bit mask (1 init, 2 inherit, 4 close)
	plan map[string]int
}

// the ledger of the case being evaluated (rapid is single-threaded, everything is synchronous)
var vfLed *vfLedger

type vfObjSpec struct {
	Payload string `yaml:"payload" jsonschema:"omitempty"`
}

// vfCore is the identity and the memory of one instance.
type vfCore struct {
	id      int
	kind    string
	name    string // from the last spec handed to Init/Inherit
	payload string
	nInit   int
	nInh    int
	nClose  int
}

func (c *vfCore) desc() string {
	if c == nil {
		return "<not a vf instance>"
	}
	return fmt.Sprintf("#%d(%s/%s payload=%s)", c.id, c.name, c.kind, c.payload)
}

type vfCored interface{ vfCoreOf() *vfCore }

func vfCoreOfObject(o Object) *vfCore {
	if c, ok := o.(vfCored); ok {
		return c.vfCoreOf()
	}
	return nil
}

func (c *vfCore) vfCoreOf() *vfCore {
	if c.id == 0 && vfLed != nil {
		vfLed.nextID++
		c.id = vfLed.nextID
	}
	return c
}

func (c *vfCore) record(op string, kind string, spec *Spec, prev Object) {
	c.vfCoreOf()
	c.kind = kind
	if spec != nil {
		c.name = spec.Name()
		if os, ok := spec.ObjectSpec().(*vfObjSpec); ok {
			c.payload = os.Payload
		}
	}
	call := vfCall{Op: op, Core: c, Name: c.name, Kind: kind, Payload: c.payload}
	bit := 0
	switch op {
	case "init":
		c.nInit++
		bit = 1
	case "inherit":
		c.nInh++
		bit = 2
		call.Prev = vfCoreOfObject(prev)
		if call.Prev != nil {
			call.PrevDesc = call.Prev.desc()
		} else {
			call.PrevDesc = fmt.Sprintf("<%T>", prev)
		}
	case "close":
		c.nClose++
		bit = 4
	}
	l := vfLed
	if l == nil {
		return
	}
	if l.plan[fmt.Sprintf("%d/%s", l.step, c.name)]&bit != 0 {
		call.Panicked = true
	}
	call.NInit, call.NInh, call.NClose = c.nInit, c.nInh, c.nClose
	l.calls = append(l.calls, call)
	if call.Panicked {
		panic(fmt.Sprintf("vf injected panic in %s of %s", op, c.name))
	}
}

func (c *vfCore) Status() *Status          { return &Status{ObjectStatus: struct{}{}} }
func (c *vfCore) DefaultSpec() interface{} { return &vfObjSpec{} }

// two business controller kinds
type VfCtlA struct{ vfCore }
type VfCtlB struct{ vfCore }

func (o *VfCtlA) Category() ObjectCategory { return CategoryBusinessController }
func (o *VfCtlA) Kind() string             { return "VfCtlA" }
func (o *VfCtlA) Init(s *Spec)             { o.record("init", o.Kind(), s, nil) }
func (o *VfCtlA) Inherit(s *Spec, p Object) {
	o.record("inherit", o.Kind(), s, p)
}
func (o *VfCtlA) Close() { o.record("close", o.Kind(), nil, nil) }

func (o *VfCtlB) Category() ObjectCategory { return CategoryBusinessController }
func (o *VfCtlB) Kind() string             { return "VfCtlB" }
func (o *VfCtlB) Init(s *Spec)             { o.record("init", o.Kind(), s, nil) }
func (o *VfCtlB) Inherit(s *Spec, p Object) {
	o.record("inherit", o.Kind(), s, p)
}
func (o *VfCtlB) Close() { o.record("close", o.Kind(), nil, nil) }

// two traffic object kinds (one per traffic category); in this target nobody drives their
// callbacks, they exist for the watcher filters and for kind changes across categories
type VfGateA struct{ vfCore }
type VfPipeA struct{ vfCore }

func (o *VfGateA) Category() ObjectCategory { return CategoryTrafficGate }
func (o *VfGateA) Kind() string             { return "VfGateA" }
func (o *VfGateA) Init(s *Spec, m context.MuxMapper) {
	o.record("init", o.Kind(), s, nil)
}
func (o *VfGateA) Inherit(s *Spec, p Object, m context.MuxMapper) {
	o.record("inherit", o.Kind(), s, p)
}
func (o *VfGateA) Close() { o.record("close", o.Kind(), nil, nil) }

func (o *VfPipeA) Category() ObjectCategory { return CategoryPipeline }
func (o *VfPipeA) Kind() string             { return "VfPipeA" }
func (o *VfPipeA) Init(s *Spec, m context.MuxMapper) {
	o.record("init", o.Kind(), s, nil)
}
func (o *VfPipeA) Inherit(s *Spec, p Object, m context.MuxMapper) {
	o.record("inherit", o.Kind(), s, p)
}
func (o *VfPipeA) Close() { o.record("close", o.Kind(), nil, nil) }

var vfRegisterOnce sync.Once

func vfRegisterKinds() {
	vfRegisterOnce.Do(func() {
		Register(&VfCtlA{})
		Register(&VfCtlB{})
		Register(&VfGateA{})
		Register(&VfPipeA{})
	})
}

var vfKindCat = map[string]ObjectCategory{
	"VfCtlA":  CategoryBusinessController,
	"VfCtlB":  CategoryBusinessController,
	"VfGateA": CategoryTrafficGate,
	"VfPipeA": CategoryPipeline,
}
var vfKinds = []string{"VfCtlA", "VfCtlB", "VfGateA", "VfPipeA"}

// generator bias: business controllers are the objects whose callbacks this target observes
var vfKindsWeighted = []string{"VfCtlA", "VfCtlA", "VfCtlB", "VfCtlB", "VfGateA", "VfPipeA"}
var vfNames = []string{"n0", "n1", "n2", "n3"}
var vfPayloads = []string{"p0", "p1", "p2"}

// ---------------------------------------------------------------------------------------------
// snapshots

type vfObj struct {
	Kind    string
	Payload string
}

type vfSnap map[string]vfObj

func (s vfSnap) clone() vfSnap {
	c := vfSnap{}
	for k, v := range s {
		c[k] = v
	}
	return c
}

func (s vfSnap) String() string {
	var parts []string
	for _, n := range vfNames {
		if o, ok := s[n]; ok {
			parts = append(parts, fmt.Sprintf("%s=%s:%s", n, o.Kind, o.Payload))
		}
	}
	return "{" + strings.Join(parts, " ") + "}"
}

// vfRender renders one object as YAML; the renderings are different texts of the same spec.
func vfRender(name string, o vfObj, style int) string {
	switch style {
	case 1:
		return fmt.Sprintf("payload: \"%s\"\nkind: %s\n\nname: '%s'\n", o.Payload, o.Kind, name)
	case 2:
		return fmt.Sprintf("{name: %s, kind: %s, payload: %s}\n", name, o.Kind, o.Payload)
	default:
		return fmt.Sprintf("name: %s\nkind: %s\npayload: %s\n", name, o.Kind, o.Payload)
	}
}

const (
	vfKeyKindSame  = "kind-change-delivered-as-update same-category"
	vfKeyKindCross = "kind-change-delivered-as-update cross-category"
)

// vfOtherKind picks a different kind of the same / another category.
func vfOtherKind(rt *rapid.T, kind string, sameCat bool) (string, bool) {
	var cands []string
	for _, k := range vfKinds {
		if k == kind {
			continue
		}
		if (vfKindCat[k] == vfKindCat[kind]) == sameCat {
			cands = append(cands, k)
		}
	}
	if len(cands) == 0 {
		return "", false
	}
	return rapid.SampledFrom(cands).Draw(rt, "newKind"), true
}

// model of one live object
type vfLive struct {
	obj     vfObj
	core    *vfCore // business controllers only: the instance that received the latest Init/Inherit
	good    *vfCore // the latest instance whose Init/Inherit completed (== core unless tainted; may be nil)
	tainted bool    // an own Init/Inherit of this object panicked since its name appeared
}

// expectation for one name in one step, as a multiset of ops
type vfExpect struct {
	ops []string // "init:<kind>:<payload>", "inherit:<kind>:<payload>", "close:<kind>"
}

type vfWatch struct {
	name   string
	w      *ObjectEntityWatcher
	filter func(kind string) bool
	last   map[string]*ObjectEntity
	// registered after the snapshot of the current step was applied: its first event lists the registry
	isNewThisStep bool
}

func vfCatFilter(cats ...ObjectCategory) func(kind string) bool {
	return func(kind string) bool {
		for _, c := range cats {
			if c == CategoryAll || c == vfKindCat[kind] {
				return true
			}
		}
		return false
	}
}

func vfDrain(w *ObjectEntityWatcher) []*ObjectEntityWatcherEvent {
	var evs []*ObjectEntityWatcherEvent
	for {
		select {
		case ev := <-w.Watch():
			evs = append(evs, ev)
		default:
			return evs
		}
	}
}

func vfSortedKeys(m map[string]*ObjectEntity) []string {
	ks := make([]string, 0, len(m))
	for k := range m {
		ks = append(ks, k)
	}
	sort.Strings(ks)
	return ks
}

func vfEntityDesc(e *ObjectEntity) string {
	if e == nil || e.Spec() == nil {
		return "<nil>"
	}
	p := ""
	if os, ok := e.Spec().ObjectSpec().(*vfObjSpec); ok {
		p = os.Payload
	}
	return fmt.Sprintf("%s:%s", e.Spec().Kind(), p)
}

type vfDiscrepancy struct {
	name string
	kind string // generic key
	text string
}

// TestVerifC20Supervisor: snapshot sequences against the real registry + supervisor.
func TestVerifC20Supervisor(t *testing.T) {
	vfRegisterKinds()
	vf := vfBegin(t, "C20")
	defer vf.End()
	rapid.Check(t, func(rt *rapid.T) {
		led := &vfLedger{plan: map[string]int{}}
		vfLed = led
		defer func() { vfLed = nil }()

		s := &Supervisor{firstHandle: true, firstHandleDone: make(chan struct{})}
		or := &ObjectRegistry{super: s, entities: map[string]*ObjectEntity{}, watchers: map[string]*ObjectEntityWatcher{}}
		s.objectRegistry = or

		nsteps := rapid.IntRange(1, 12).Draw(rt, "nsteps")
		preload := rapid.IntRange(0, 3).Draw(rt, "preload") == 0
		probeKnown := rapid.IntRange(0, 11).Draw(rt, "probeKnown") == 0
		lateAt := rapid.IntRange(0, 2*nsteps).Draw(rt, "lateAt") // >= nsteps: never
		longBurstAt := rapid.IntRange(0, 2*nsteps).Draw(rt, "longBurstAt") // >= nsteps: never

		var hist []string
		model := map[string]*vfLive{}
		everAbsentAfterPresent := map[string]bool{}
		everPresent := map[string]bool{}
		var watches []*vfWatch
		ntReappear, ntKind, ntPanic := false, false, false
		caseDone := false
		finish := func() {
			if caseDone {
				return
			}
			caseDone = true
			nt := ntReappear || ntKind || ntPanic
			vf.Case(nt, strings.Join(hist, "\n"), func() interface{} {
				return map[string]interface{}{"history": append([]string{}, hist...), "reappear": ntReappear,
					"kind_change": ntKind, "panic_with_other_change": ntPanic, "callbacks": len(led.calls)}
			})
		}

		addWatch := func(name string, afterApply bool, cats ...ObjectCategory) *vfWatch {
			w := or.NewWatcher(name, FilterCategory(cats...))
			if w == nil {
				rt.Fatalf("VF-INCONCLUSIVE NewWatcher(%s) returned nil", name)
			}
			vw := &vfWatch{name: name, w: w, filter: vfCatFilter(cats...), last: map[string]*ObjectEntity{}, isNewThisStep: afterApply}
			watches = append(watches, vw)
			return vw
		}
		addStdWatches := func(afterApply bool) {
			// the supervisor's own watcher, as MustNew registers it, plus two observers
			sw := addWatch(watcherName, afterApply, CategoryBusinessController)
			s.watcher = sw.w
			addWatch("vf-traffic", afterApply, CategoryTrafficGate, CategoryPipeline)
			addWatch("vf-all", afterApply, CategoryAll)
		}

		cur := vfSnap{}
		if !preload {
			addStdWatches(false)
		}

		for step := 0; step < nsteps; step++ {
			led.step = step
			// a burst: k snapshots are applied before any watcher channel is drained (a consumer that is
			// stalled, e.g. inside a slow Init, while the registry keeps receiving snapshots)
			k := 1
			if !(preload && step == 0) && step != lateAt {
				if step == longBurstAt {
					// at most one long burst per case (longer than, or close to, the watcher queue of 10)
					k = rapid.IntRange(8, 14).Draw(rt, "longBurst")
				} else {
					k = rapid.SampledFrom([]int{1, 1, 1, 1, 1, 1, 2, 3}).Draw(rt, "burst")
				}
			}
			if k > 1 {
				vf.Class("burst-of-snapshots-before-draining")
			}
			if k > 10 {
				vf.Class("burst-longer-than-the-watcher-queue")
			}
			// fault plan for this step (holds for the whole burst)
			var planDesc []string
			for _, n := range vfNames {
				m := rapid.SampledFrom([]int{0, 0, 0, 0, 0, 0, 0, 0, 0, 0, 0, 0, 0, 0, 1, 2, 4, 7}).Draw(rt, "panicMask")
				if m != 0 {
					led.plan[fmt.Sprintf("%d/%s", step, n)] = m
					planDesc = append(planDesc, fmt.Sprintf("%s:%d", n, m))
				}
			}

			kindChange := map[string]string{} // name -> key
			changed := map[string]bool{}
			var subs []*vfSub
			shadow := cur
			for b := 0; b < k; b++ {
				// ---- generate the next snapshot (1-3 coalesced rounds of per-name mutations)
				next := shadow.clone()
				rounds := rapid.SampledFrom([]int{1, 1, 1, 2, 2, 3}).Draw(rt, "rounds")
				touched := map[string]int{}
				for r := 0; r < rounds; r++ {
					for _, n := range vfNames {
						o, present := next[n]
						if !present {
							if rapid.IntRange(0, 2).Draw(rt, "appear") == 0 {
								next[n] = vfObj{Kind: rapid.SampledFrom(vfKindsWeighted).Draw(rt, "kind"), Payload: rapid.SampledFrom(vfPayloads).Draw(rt, "payload")}
								touched[n]++
							}
							continue
						}
						act := rapid.SampledFrom([]string{"keep", "keep", "keep", "keep", "keep", "drop", "drop", "payload", "payload", "payload", "kind-same", "kind-cross"}).Draw(rt, "act")
						switch act {
						case "drop":
							delete(next, n)
							touched[n]++
						case "payload":
							o.Payload = rapid.SampledFrom(vfPayloads).Draw(rt, "payload")
							next[n] = o
							touched[n]++
						case "kind-same", "kind-cross":
							if k, ok := vfOtherKind(rt, o.Kind, act == "kind-same"); ok {
								o.Kind = k
								next[n] = o
								touched[n]++
							}
						}
					}
				}
				// net kind changes (drawn directly, or a coalesced disappear + reappear as another kind):
				// behind a known finding they are steered away from, except in the few probing cases
				for _, n := range vfNames {
					o, ok1 := shadow[n]
					nw, ok2 := next[n]
					if !ok1 || !ok2 || o.Kind == nw.Kind {
						continue
					}
					key := vfKeyKindSame
					if vfKindCat[o.Kind] != vfKindCat[nw.Kind] {
						key = vfKeyKindCross
					}
					if vf.HasKnown(key) && !probeKnown {
						vf.Exclude()
						nw.Kind = o.Kind
						next[n] = nw
					}
				}
				for _, n := range vfNames {
					if touched[n] > 1 {
						vf.Class("coalesced-changes-on-one-name")
						break
					}
				}
				// render
				sub := &vfSub{snap: next, olds: map[string]*vfObj{}, cfg: map[string]string{}, expect: map[string][]string{}}
				var styles []string
				for _, n := range vfNames {
					if o, ok := next[n]; ok {
						st := rapid.IntRange(0, 2).Draw(rt, "style")
						sub.cfg[n] = vfRender(n, o, st)
						styles = append(styles, fmt.Sprint(st))
					}
				}
				hist = append(hist, fmt.Sprintf("step %d (snapshot %d of a burst of %d applied before draining): snapshot %s styles=%s panic-plan(name:mask 1=init 2=inherit 4=close)=%v", step, b+1, k, next, strings.Join(styles, ""), planDesc))

				// ---- expectations from the statement
				for _, n := range vfNames {
					var old *vfObj
					if o, ok := shadow[n]; ok {
						o := o
						old = &o
					}
					sub.olds[n] = old
					nw, present := next[n]
					var ops []string
					switch {
					case old == nil && present:
						changed[n] = true
						vf.Class("appear")
						if everAbsentAfterPresent[n] {
							vf.Class("reappear")
							ntReappear = true
						}
						if vfKindCat[nw.Kind] == CategoryBusinessController {
							ops = append(ops, "init:"+nw.Kind+":"+nw.Payload)
						}
					case old != nil && !present:
						changed[n] = true
						vf.Class("disappear")
						if vfKindCat[old.Kind] == CategoryBusinessController {
							ops = append(ops, "close:"+old.Kind)
						}
					case old != nil && present && old.Kind != nw.Kind:
						changed[n] = true
						ntKind = true
						if vfKindCat[old.Kind] == vfKindCat[nw.Kind] {
							vf.Class("kind-change-same-category")
							kindChange[n] = vfKeyKindSame
						} else {
							vf.Class("kind-change-cross-category")
							kindChange[n] = vfKeyKindCross
						}
						if vfKindCat[old.Kind] == CategoryBusinessController {
							ops = append(ops, "close:"+old.Kind)
						}
						if vfKindCat[nw.Kind] == CategoryBusinessController {
							ops = append(ops, "init:"+nw.Kind+":"+nw.Payload)
						}
					case old != nil && present && old.Payload != nw.Payload:
						changed[n] = true
						vf.Class("spec-change")
						if vfKindCat[nw.Kind] == CategoryBusinessController {
							ops = append(ops, "inherit:"+nw.Kind+":"+nw.Payload)
						}
					case old != nil && present:
						vf.Class("unchanged")
					}
					sub.expect[n] = ops
					if present {
						everPresent[n] = true
					} else if everPresent[n] {
						everAbsentAfterPresent[n] = true
					}
				}
				subs = append(subs, sub)
				shadow = next
			}
			next := shadow

			var disc []vfDiscrepancy
			add := func(name, kind, format string, args ...interface{}) {
				disc = append(disc, vfDiscrepancy{name: name, kind: kind, text: fmt.Sprintf(format, args...)})
			}

			// ---- drive the real code
			callsBefore := len(led.calls)
			queued := map[*vfWatch][]*ObjectEntityWatcherEvent{}
			if k == 1 {
				if p, text, site := vfRecover(func() { or.applyConfig(subs[0].cfg) }); p {
					add("", "panic-escaped applyConfig", "applyConfig panicked at %s: %s", site, text)
				}
			} else {
				// The registry blocks in applyConfig when a watcher's queue is full. The burst runs on its
				// own goroutine; the test takes one event out of a full queue only when that goroutine is
				// parked in a channel send (read from the goroutine dump, not guessed from the clock), so
				// every queue really runs full and the events keep their channel order.
				var cfgs []map[string]string
				for _, sub := range subs {
					cfgs = append(cfgs, sub.cfg)
				}
				done := make(chan string, 1)
				go vfBurstRun(or, cfgs, done)
				start := time.Now()
				for finished := false; !finished; {
					select {
					case r := <-done:
						finished = true
						if r != "" {
							add("", "panic-escaped applyConfig", "applyConfig panicked: %s", r)
						}
						continue
					default:
					}
					if vfBurstParkedInSend() {
						for _, vw := range watches {
							if ch := vw.w.Watch(); len(ch) == cap(ch) {
								vf.Class("registry-blocked-on-a-full-watcher-queue")
								queued[vw] = append(queued[vw], <-vw.w.Watch())
							}
						}
					} else {
						time.Sleep(20 * time.Microsecond)
					}
					if time.Since(start) > 2*time.Minute {
						rt.Fatalf("VF-INCONCLUSIVE a burst of %d applyConfig calls neither finished nor parked in a channel send within 2m", k)
					}
				}
			}
			if preload && step == 0 {
				// the registry got its first snapshot before anybody watched (possible in MustNew too)
				vf.Class("preloaded-registry-before-first-watch")
				addStdWatches(true)
			}
			if step == lateAt {
				vf.Class("late-watcher")
				cats := rapid.SampledFrom([][]ObjectCategory{{CategoryAll}, {CategoryBusinessController}, {CategoryPipeline}, {CategoryTrafficGate, CategoryBusinessController}}).Draw(rt, "lateCats")
				addWatch("vf-late", true, cats...)
			}

			updateDelivered := map[string]bool{}
			// watcher events against the model diff
			for _, vw := range watches {
				evs := append(queued[vw], vfDrain(vw.w)...)
				// per-name op sequence over all events of this step
				got := map[string][]string{}
				for _, ev := range evs {
					for _, n := range vfSortedKeys(ev.Delete) {
						ent := ev.Delete[n]
						got[n] = append(got[n], "delete:"+vfEntityDesc(ent))
						if prev, ok := vw.last[n]; ok && prev != ent {
							add(n, "watcher-event-mismatch", "watcher %s: Delete[%s] carries an entity that is not the one last delivered", vw.name, n)
						}
						delete(vw.last, n)
					}
					for _, n := range vfSortedKeys(ev.Create) {
						got[n] = append(got[n], "create:"+vfEntityDesc(ev.Create[n]))
						vw.last[n] = ev.Create[n]
					}
					for _, n := range vfSortedKeys(ev.Update) {
						got[n] = append(got[n], "update:"+vfEntityDesc(ev.Update[n]))
						updateDelivered[n] = true
						vw.last[n] = ev.Update[n]
					}
				}
				for _, n := range vfNames {
					var want []string
					// a watcher registered in this step sees the registry after the snapshot was applied
					if vw.isNewThisStep {
						if nw, present := next[n]; present && vw.filter(nw.Kind) {
							want = append(want, "create:"+nw.Kind+":"+nw.Payload)
						}
					} else {
						for _, sub := range subs {
							old := sub.olds[n]
							nw, present := sub.snap[n]
							switch {
							case old == nil && present:
								if vw.filter(nw.Kind) {
									want = append(want, "create:"+nw.Kind+":"+nw.Payload)
								}
							case old != nil && !present:
								if vw.filter(old.Kind) {
									want = append(want, "delete:"+old.Kind+":"+old.Payload)
								}
							case old != nil && present && old.Kind != nw.Kind:
								if vw.filter(old.Kind) {
									want = append(want, "delete:"+old.Kind+":"+old.Payload)
								}
								if vw.filter(nw.Kind) {
									want = append(want, "create:"+nw.Kind+":"+nw.Payload)
								}
							case old != nil && present && old.Payload != nw.Payload:
								if vw.filter(nw.Kind) {
									want = append(want, "update:"+nw.Kind+":"+nw.Payload)
								}
							}
						}
					}
					if strings.Join(want, ",") != strings.Join(got[n], ",") {
						add(n, "watcher-event-mismatch", "watcher %s name %s: events %v, model expects %v", vw.name, n, got[n], want)
					}
				}
				vw.isNewThisStep = false
				// the supervisor consumes its watcher's events
				if vw.name == watcherName {
					for _, ev := range evs {
						ev := ev
						if p, text, site := vfRecover(func() { s.handleEvent(ev) }); p {
							add("", "panic-escaped handleEvent", "handleEvent panicked at %s: %s", site, text)
						}
					}
				}
			}
			for _, vw := range watches {
				// nothing may be produced by handleEvent
				if evs := vfDrain(vw.w); len(evs) != 0 {
					add("", "watcher-event-mismatch", "watcher %s got %d events after the snapshot was fully handled", vw.name, len(evs))
				}
			}

			// ---- the ledger of this step against the expectations
			stepCalls := led.calls[callsBefore:]
			byName := map[string][]vfCall{}
			panicked := map[string]bool{}
			for _, c := range stepCalls {
				byName[c.Name] = append(byName[c.Name], c)
				if c.Panicked {
					panicked[c.Name] = true
					vf.Class("panic-fired-in-" + c.Op)
				}
			}
			knownName := map[string]bool{}
			for _, n := range vfNames {
				knownName[n] = true
			}
			for n := range byName {
				if !knownName[n] {
					add(n, "bc-lifecycle-mismatch", "callbacks on an unknown name %q: %v", n, byName[n])
				}
			}
			// An object whose own Init/Inherit panicked ("tainted") stays in the model as live. The
			// statement still counts its callbacks (exactly one Close when the name disappears or the
			// kind changes, no second Init, Inherit once per spec change); open are only: which of its
			// generations (the last one that completed, or the one whose callback panicked) is the
			// predecessor / gets closed / is reported live, and whether an unchanged snapshot re-inherits it.
			// The callbacks of a name arrive in snapshot order, so each snapshot of a burst consumes its
			// share of the name's callbacks.
			newModel := model
			broken := map[string]bool{}
			cursor := map[string]int{}
			for _, sub := range subs {
				prevModel := newModel
				newModel = map[string]*vfLive{}
				for _, n := range vfNames {
					old := prevModel[n]
					nw, present := sub.snap[n]
					if present {
						newModel[n] = &vfLive{obj: nw}
					}
					lv := newModel[n]
					if broken[n] {
						if present {
							lv.tainted = true
						}
						continue
					}
					tainted := old != nil && old.tainted
					sameObject := old != nil && present && old.obj.Kind == nw.Kind
					if sameObject {
						lv.core, lv.good, lv.tainted = old.core, old.good, old.tainted
					}
					if tainted {
						vf.Class("tainted-name-step-judged-with-narrowed-oracle")
						if !sameObject && vfKindCat[old.obj.Kind] == CategoryBusinessController {
							vf.Class("tainted-object-disappears-or-changes-kind")
						}
					}
					want := sub.expect[n]
					rest := byName[n][cursor[n]:]
					take := len(want)
					if take == 0 && tainted && sameObject && old.obj.Payload == nw.Payload && vfKindCat[nw.Kind] == CategoryBusinessController &&
						len(rest) > 0 && rest[0].Op == "inherit" && rest[0].Kind == nw.Kind && rest[0].Payload == nw.Payload {
						// unspecified: a tainted object may be re-inherited by an unchanged snapshot
						vf.Class("ambiguous-tainted-object-reinherited-on-unchanged-spec")
						take = 1
						want = []string{"inherit:" + nw.Kind + ":" + nw.Payload}
					}
					okOps := len(rest) >= take
					var mine []vfCall
					if okOps {
						mine = rest[:take]
						var got []string
						for _, c := range mine {
							switch c.Op {
							case "close":
								got = append(got, "close:"+c.Kind)
							default:
								got = append(got, c.Op+":"+c.Kind+":"+c.Payload)
							}
						}
						ws := append([]string{}, want...)
						sort.Strings(got)
						sort.Strings(ws)
						okOps = strings.Join(got, ",") == strings.Join(ws, ",")
					}
					if !okOps {
						add(n, "bc-lifecycle-mismatch", "name %s (tainted by an earlier own panic: %v): snapshot %s expects %v as the next callbacks; all callbacks of the name in this step: %v (the first %d were consumed by earlier snapshots of the burst)", n, tainted, sub.snap, want, byName[n], cursor[n])
						broken[n] = true
						if present {
							lv.tainted = true
						}
						continue
					}
					cursor[n] += take
					// identities
					allowed := func(c *vfCore) bool {
						return old != nil && c != nil && (c == old.core || c == old.good)
					}
					oldDesc := "<none>"
					if old != nil {
						oldDesc = old.core.desc()
						if old.good != old.core {
							oldDesc += " or " + old.good.desc()
						}
					}
					for _, c := range mine {
						switch c.Op {
						case "init":
							if c.NInit != 1 || c.NInh != 0 || c.NClose != 0 {
								add(n, "bc-lifecycle-mismatch", "name %s: Init on an instance that was used before: %s (init=%d inherit=%d close=%d)", n, c, c.NInit, c.NInh, c.NClose)
							}
							lv.core = c.Core
							if c.Panicked {
								lv.tainted = true
							} else {
								lv.good = c.Core
							}
						case "inherit":
							if c.NInit != 0 || c.NInh != 1 || c.NClose != 0 {
								add(n, "bc-lifecycle-mismatch", "name %s: Inherit on an instance that was used before: %s", n, c)
							}
							if !allowed(c.Prev) {
								add(n, "bc-inherit-wrong-predecessor", "name %s: %s but the live generation was %s", n, c, oldDesc)
							}
							lv.core = c.Core
							if c.Panicked {
								lv.tainted = true
							} else {
								lv.good = c.Core
							}
						case "close":
							if !allowed(c.Core) {
								add(n, "bc-close-wrong-instance", "name %s: %s but the live instance was %s", n, c, oldDesc)
							}
							if c.NClose != 1 {
								add(n, "bc-lifecycle-mismatch", "name %s: instance closed %d times: %s", n, c.NClose, c)
							}
						}
					}
				}
			}
			for _, n := range vfNames {
				if !broken[n] && cursor[n] < len(byName[n]) {
					add(n, "bc-lifecycle-mismatch", "name %s: callbacks beyond what the snapshots of this step call for: %v (all: %v)", n, byName[n][cursor[n]:], byName[n])
					broken[n] = true
				}
			}
			// panic alongside another object changing in the same snapshot
			for n := range panicked {
				for _, m := range vfNames {
					if m != n && changed[m] {
						ntPanic = true
						vf.Class("panic-fired-with-other-object-changing")
						break
					}
				}
			}

			// ---- live set == snapshot
			{
				walked := map[string]*ObjectEntity{}
				s.WalkControllers(func(e *ObjectEntity) bool {
					walked[e.Spec().Name()] = e
					return true
				})
				for _, n := range vfNames {
					if broken[n] {
						continue
					}
					lv := newModel[n]
					wantLive := lv != nil && vfKindCat[lv.obj.Kind] == CategoryBusinessController
					ent, ok := s.GetBusinessController(n)
					_, okw := walked[n]
					if ok != wantLive || okw != wantLive {
						add(n, "live-set-mismatch", "name %s: GetBusinessController=%v WalkControllers=%v, snapshot says live=%v", n, ok, okw, wantLive)
						continue
					}
					if wantLive {
						if got := vfCoreOfObject(ent.Instance()); got != lv.core && (got == nil || got != lv.good) {
							add(n, "live-set-mismatch", "name %s: live instance is %s, model says %s", n, got.desc(), lv.core.desc())
						}
						if d := vfEntityDesc(ent); !lv.tainted && d != lv.obj.Kind+":"+lv.obj.Payload {
							add(n, "live-set-mismatch", "name %s: live spec is %s, snapshot says %s:%s", n, d, lv.obj.Kind, lv.obj.Payload)
						}
					}
				}
			}
			for _, vw := range watches {
				ents := vw.w.Entities()
				for _, n := range vfNames {
					nw, present := next[n]
					want := ""
					if present && vw.filter(nw.Kind) {
						want = nw.Kind + ":" + nw.Payload
					}
					got := ""
					if e, ok := ents[n]; ok {
						got = vfEntityDesc(e)
					}
					if got != want {
						add(n, "watcher-entities-mismatch", "watcher %s Entities()[%s] = %q, snapshot says %q", vw.name, n, got, want)
					}
				}
				if len(ents) > len(next) {
					add("", "watcher-entities-mismatch", "watcher %s has %d entities, snapshot has %d", vw.name, len(ents), len(next))
				}
			}

			// ---- verdict of this step
			if len(disc) > 0 {
				key := ""
				for _, d := range disc {
					if _, ok := kindChange[d.name]; !ok {
						key = d.kind
						break
					}
				}
				if key == "" {
					// every discrepancy sits on a name whose kind changed in this snapshot
					first := ""
					for _, d := range disc {
						if first == "" || d.name < first {
							first = d.name
						}
					}
					key = kindChange[first]
					// the old finding's key only when the old finding's signature (an Inherit for the name) shows
					asUpdate := false
					if k == 1 {
						asUpdate = updateDelivered[first]
						for _, c := range byName[first] {
							asUpdate = asUpdate || c.Op == "inherit"
						}
					}
					if !asUpdate {
						key = strings.Replace(key, "kind-change-delivered-as-update", "kind-change-not-close-plus-init", 1)
					}
				}
				var lines []string
				for _, d := range disc {
					lines = append(lines, "  - "+d.text)
				}
				var calls []string
				for _, c := range stepCalls {
					calls = append(calls, c.String())
				}
				finish()
				if vf.Violation(rt, key, "after step %d:\n%s\ncallbacks of this step: %v\nhistory:\n%s", step, strings.Join(lines, "\n"), calls, strings.Join(hist, "\n")) {
					return
				}
				return
			}

			model = newModel
			cur = next
		}
		finish()
	})
}
