//go:build go1.21

package vfc02

import (
	"fmt"
	"strings"
	"testing"

	yaml "gopkg.in/yaml.v2"
	"pgregory.net/rapid"

	"github.com/megaease/easegress/pkg/object/pipeline"
	"github.com/megaease/easegress/pkg/supervisor"
)

// a mutation returns false when it is not applicable to p
type vfMutation struct {
	name  string
	apply func(rt *rapid.T, p *vfPipe) bool
}

// vfPickNode draws a non-END node index satisfying ok; -1 when none.
func vfPickNode(rt *rapid.T, p *vfPipe, ok func(i int) bool) int {
	var c []int
	for i := range p.Flow {
		if !p.Flow[i].isEnd() && (ok == nil || ok(i)) {
			c = append(c, i)
		}
	}
	if len(c) == 0 {
		return -1
	}
	return c[vfRange(rt, 0, len(c)-1, "mutNode")]
}

func vfDeclaredResult(rt *rapid.T, p *vfPipe, i int) string {
	kind, ok := p.kindOf(p.Flow[i].Filter)
	if !ok {
		return "r2"
	}
	return vfPick(rt, vfKindResults[kind], "mutResult")
}

func vfSetJump(n *vfNode, r, t string) {
	if n.JumpIf == nil {
		n.JumpIf = map[string]string{}
	}
	n.JumpIf[r] = t
}

// existing (node, result) pairs whose target is a node alias
func vfJumps(p *vfPipe) [][2]string {
	var out [][2]string
	for i := range p.Flow {
		if p.Flow[i].isEnd() {
			continue
		}
		for _, r := range vfSortedKeys(p.Flow[i].JumpIf) {
			if t := p.Flow[i].JumpIf[r]; t != vfEND && t != "" {
				out = append(out, [2]string{fmt.Sprint(i), r})
			}
		}
	}
	return out
}

var vfMutations = []vfMutation{
	{"target->earlier-node", func(rt *rapid.T, p *vfPipe) bool {
		i := vfPickNode(rt, p, func(i int) bool { return i > 0 })
		if i < 0 {
			return false
		}
		j := vfRange(rt, 0, i-1, "mutEarlier")
		vfSetJump(&p.Flow[i], vfDeclaredResult(rt, p, i), p.Flow[j].effAlias())
		return true
	}},
	{"target->own-alias", func(rt *rapid.T, p *vfPipe) bool {
		i := vfPickNode(rt, p, nil)
		if i < 0 {
			return false
		}
		vfSetJump(&p.Flow[i], vfDeclaredResult(rt, p, i), p.Flow[i].effAlias())
		return true
	}},
	{"target->unknown", func(rt *rapid.T, p *vfPipe) bool {
		i := vfPickNode(rt, p, nil)
		if i < 0 {
			return false
		}
		vfSetJump(&p.Flow[i], vfDeclaredResult(rt, p, i), vfPick(rt, []string{"zz", "f3", "end", "u9"}, "mutUnknown"))
		return true
	}},
	{"target->empty", func(rt *rapid.T, p *vfPipe) bool {
		i := vfPickNode(rt, p, nil)
		if i < 0 {
			return false
		}
		vfSetJump(&p.Flow[i], vfDeclaredResult(rt, p, i), "")
		return true
	}},
	{"duplicate-target-alias-on-later-node", func(rt *rapid.T, p *vfPipe) bool {
		// give another later node (filter or END node) the alias of an existing target
		js := vfJumps(p)
		if len(js) == 0 {
			return false
		}
		j := js[vfRange(rt, 0, len(js)-1, "mutJump")]
		var i int
		fmt.Sscan(j[0], &i)
		t := p.Flow[i].JumpIf[j[1]]
		var c []int
		for k := i + 1; k < len(p.Flow); k++ {
			if p.Flow[k].effAlias() != t {
				c = append(c, k)
			}
		}
		if len(c) == 0 {
			return false
		}
		p.Flow[c[vfRange(rt, 0, len(c)-1, "mutDupNode")]].Alias = t
		return true
	}},
	{"insert-END-node-aliased-as-target", func(rt *rapid.T, p *vfPipe) bool {
		js := vfJumps(p)
		if len(js) == 0 {
			return false
		}
		j := js[vfRange(rt, 0, len(js)-1, "mutJump")]
		var i int
		fmt.Sscan(j[0], &i)
		t := p.Flow[i].JumpIf[j[1]]
		pos := vfRange(rt, i+1, len(p.Flow), "mutInsertAt")
		nf := append([]vfNode{}, p.Flow[:pos]...)
		nf = append(nf, vfNode{Filter: vfEND, Alias: t})
		nf = append(nf, p.Flow[pos:]...)
		p.Flow = nf
		return true
	}},
	{"target->alias-of-END-node", func(rt *rapid.T, p *vfPipe) bool {
		i := vfPickNode(rt, p, nil)
		if i < 0 {
			return false
		}
		pos := vfRange(rt, i+1, len(p.Flow), "mutInsertAt")
		nf := append([]vfNode{}, p.Flow[:pos]...)
		nf = append(nf, vfNode{Filter: vfEND, Alias: "e9"})
		nf = append(nf, p.Flow[pos:]...)
		p.Flow = nf
		vfSetJump(&p.Flow[i], vfDeclaredResult(rt, p, i), "e9")
		return true
	}},
	{"undeclared-result", func(rt *rapid.T, p *vfPipe) bool {
		i := vfPickNode(rt, p, nil)
		if i < 0 {
			return false
		}
		kind, _ := p.kindOf(p.Flow[i].Filter)
		bad := []string{"zz", "", "R1", "r1 "}
		if kind == "VfRec" {
			bad = append(bad, "q1")
		} else {
			bad = append(bad, "r1", "r3")
		}
		r := vfPick(rt, bad, "mutBadResult")
		// the target itself is fine: END, or an existing valid target of this node
		t := vfEND
		for _, k := range vfSortedKeys(p.Flow[i].JumpIf) {
			if rapid.Bool().Draw(rt, "mutReuseTarget") {
				t = p.Flow[i].JumpIf[k]
			}
		}
		vfSetJump(&p.Flow[i], r, t)
		return true
	}},
	{"duplicate-filter-name", func(rt *rapid.T, p *vfPipe) bool {
		if len(p.Filters) == 0 {
			return false
		}
		f := p.Filters[vfRange(rt, 0, len(p.Filters)-1, "mutDupFilter")]
		if rapid.Bool().Draw(rt, "mutDupOtherKind") {
			if f.Kind == "VfRec" {
				f.Kind = "VfRec2"
			} else {
				f.Kind = "VfRec"
			}
		}
		pos := vfRange(rt, 0, len(p.Filters), "mutDupPos")
		nf := append([]vfFilterDef{}, p.Filters[:pos]...)
		nf = append(nf, f)
		nf = append(nf, p.Filters[pos:]...)
		p.Filters = nf
		return true
	}},
	{"filter-named-END", func(rt *rapid.T, p *vfPipe) bool {
		if len(p.Filters) > 0 && rapid.Bool().Draw(rt, "mutEndRename") {
			// rename an existing definition (its flow nodes follow: they become END nodes)
			k := vfRange(rt, 0, len(p.Filters)-1, "mutEndFilter")
			old := p.Filters[k].Name
			p.Filters[k].Name = vfEND
			for i := range p.Flow {
				if p.Flow[i].Filter == old {
					p.Flow[i].Filter = vfEND
				}
			}
			return true
		}
		p.Filters = append(p.Filters, vfFilterDef{Name: vfEND, Kind: "VfRec"})
		return true
	}},
	{"flow-names-missing-filter", func(rt *rapid.T, p *vfPipe) bool {
		i := vfPickNode(rt, p, nil)
		if i < 0 {
			return false
		}
		if len(p.Filters) > 1 && rapid.Bool().Draw(rt, "mutDropDef") {
			// drop the definition of a filter the flow uses
			name := p.Flow[i].Filter
			var nf []vfFilterDef
			for _, f := range p.Filters {
				if f.Name != name {
					nf = append(nf, f)
				}
			}
			if len(nf) == 0 {
				return false // "filters" is a required key: keep at least one definition
			}
			p.Filters = nf
			return true
		}
		p.Flow[i].Filter = vfPick(rt, []string{"ghost", "f3x", "end"}, "mutGhost")
		return true
	}},
	{"filter-node-aliased-END", func(rt *rapid.T, p *vfPipe) bool {
		i := vfPickNode(rt, p, nil)
		if i < 0 {
			return false
		}
		p.Flow[i].Alias = vfEND
		return true
	}},
}

// TestVerifC02Validate: one to three mutations of a valid pipeline; the reference validity
// predicate V decides: not V => supervisor.NewSpec (and Spec.Validate itself) must reject, V => accept.
func TestVerifC02Validate(t *testing.T) {
	vf := vfBegin(t, "C02")
	defer vf.End()
	vfRegisterKinds()
	rapid.Check(t, func(rt *rapid.T) {
		base := vfGenValidPipe(rt, "main", vfGenCfg{maxNodes: 6, allowNoFlow: false}, "m.")
		// one case in four: a pipeline WITHOUT a flow section (implicit flow = filters in definition
		// order); the rules about filter names hold there as well, flow-node mutations do not apply
		flowless := vfRange(rt, 0, 3, "flowless") == 0
		pool := vfMutations
		if flowless {
			base.Flow = nil
			pool = nil
			for _, m := range vfMutations {
				if m.name == "duplicate-filter-name" || m.name == "filter-named-END" {
					pool = append(pool, m)
				}
			}
		}
		p := base.clone()
		nmut := vfRange(rt, 1, 3, "nmut")
		if vfRange(rt, 0, 9, "oneMut") < 6 {
			nmut = 1
		}
		var applied []string
		for tries := 0; len(applied) < nmut && tries < 12; tries++ {
			m := pool[vfRange(rt, 0, len(pool)-1, "mutation")]
			if m.apply(rt, p) {
				applied = append(applied, m.name)
			}
		}
		if len(applied) == 0 {
			rt.Skip() // (practically unreachable: two mutations are always applicable)
		}
		reasons, ambiguous := vfInvalidReasons(p)

		// where the spec sits: a Pipeline, or the before/after pipeline of a GlobalFilter
		wrap := vfPick(rt, []string{"pipeline", "pipeline", "pipeline", "globalfilter-before", "globalfilter-after"}, "wrap")
		var y string
		switch wrap {
		case "pipeline":
			y = p.YAML()
		case "globalfilter-before":
			y = vfGlobalFilterYAML(p, nil)
		default:
			y = vfGlobalFilterYAML(nil, p)
		}

		var err error
		panicked, ptext, psite := vfRecover(func() { _, err = supervisor.NewSpec(y) })
		if panicked {
			vf.Violation(rt, "newspec-panics site="+psite+" panic="+vfPanicClass(ptext), "supervisor.NewSpec panics: %s\n%s", ptext, y)
			return
		}
		// Spec.Validate called directly must not let a panic escape and must agree on rejection
		var ps pipeline.Spec
		var derr error
		if uerr := yaml.Unmarshal([]byte(p.body("")), &ps); uerr != nil {
			rt.Fatalf("VF-INCONCLUSIVE cannot parse own YAML: %v\n%s", uerr, p.body(""))
		}
		panicked, ptext, psite = vfRecover(func() { derr = ps.Validate() })
		if panicked {
			vf.Violation(rt, "validate-panics site="+psite+" panic="+vfPanicClass(ptext), "Spec.Validate panics: %s\n%s", ptext, y)
			return
		}

		for _, a := range applied {
			vf.Class("mutation=" + a)
		}
		vf.Class("wrap="+wrap, fmt.Sprintf("mutations=%d", len(applied)))
		for _, r := range reasons {
			vf.Class("invalid:" + r)
			if flowless {
				vf.Class("flowless:invalid:" + r)
			}
		}
		if flowless {
			vf.Class("base=flowless")
		}
		for _, a := range ambiguous {
			vf.Class("ambiguous-" + a)
		}
		switch {
		case len(reasons) == 0 && len(ambiguous) == 0:
			vf.Class("verdict=valid-after-mutation")
		case len(reasons) == 0:
			vf.Class("verdict=ambiguous")
		case len(reasons) == 1:
			vf.Class("verdict=invalid-for-exactly-one-reason")
		default:
			vf.Class("verdict=invalid-for-several-reasons")
		}
		if err != nil {
			vf.Class("real=rejected")
		} else {
			vf.Class("real=accepted")
		}
		vf.Case(len(reasons) == 1, wrap+"||"+y, func() interface{} {
			return map[string]interface{}{"wrap": wrap, "spec": y, "mutations": applied, "invalid_for": reasons,
				"ambiguous": ambiguous, "rejected": err != nil, "error": fmt.Sprint(err)}
		})

		if len(reasons) > 0 {
			key := "validation-accepts:" + strings.Join(reasons, "+")
			if err == nil {
				vf.Violation(rt, key, "spec is invalid (%v) but supervisor.NewSpec accepts it (%s; mutations %v)\n%s", reasons, wrap, applied, y)
				return
			}
			// (a rejection by the schema layer alone is still "rejected at validation": the verdict
			// of the direct Spec.Validate call is only recorded)
			if derr == nil {
				vf.Class("rejected-by-schema-layer-only")
			}
			return
		}
		if len(ambiguous) > 0 {
			return // the statement does not say: either verdict is fine
		}
		if err != nil {
			vf.Violation(rt, "valid-spec-rejected", "spec satisfies every rule of the statement but is rejected: %v (%s; mutations %v)\n%s", err, wrap, applied, y)
			return
		}
		if derr != nil {
			vf.Violation(rt, "valid-spec-rejected", "spec satisfies every rule of the statement but Spec.Validate rejects it: %v (mutations %v)\n%s", derr, applied, y)
			return
		}
	})
	if !t.Failed() {
		floors := map[string]float64{"verdict=invalid-for-exactly-one-reason": 0.35, "wrap=globalfilter-before": 0.05, "wrap=globalfilter-after": 0.05}
		for _, r := range []string{"dup-filter-name", "reserved-filter-name", "missing-filter", "undeclared-result", "target-earlier",
			"target-self", "target-unknown", "target-duplicated", "target-empty", "target-shared-with-END-node-alias"} {
			floors["invalid:"+r] = 0.01
		}
		floors["base=flowless"] = 0.15
		floors["flowless:invalid:reserved-filter-name"] = 0.05
		floors["flowless:invalid:dup-filter-name"] = 0.05
		vfHealth(t, vf, floors)
	}
}
