//go:build go1.21

package vfc02

import (
	"fmt"
	"strings"
	"testing"

	"pgregory.net/rapid"

	"github.com/megaease/easegress/pkg/context"
	"github.com/megaease/easegress/pkg/object/globalfilter"
	"github.com/megaease/easegress/pkg/supervisor"
)

// vfNewGlobalFilterGen creates generation 0 through Init (prev == nil) or the next generation
// through Inherit -- the way the supervisor updates an object whose spec changed.
func vfNewGlobalFilterGen(yaml string, prev *globalfilter.GlobalFilter) (g *globalfilter.GlobalFilter, rejected error, panicText string) {
	spec, err := supervisor.NewSpec(yaml)
	if err != nil {
		return nil, err, ""
	}
	gf := &globalfilter.GlobalFilter{}
	panicked, text, site := vfRecover(func() {
		if prev == nil {
			gf.Init(spec)
		} else {
			gf.Inherit(spec, prev)
		}
	})
	if panicked {
		return nil, nil, text + " at " + site
	}
	return gf, nil, ""
}

// TestVerifC02GlobalFilterUpdate: update histories of one GlobalFilter object. Generation 0 has
// generated before/after sections; each of 1-3 updates (GlobalFilter.Inherit) keeps / removes /
// replaces / adds each section. After every generation the before and after flows that run around
// the main flow must be those of the CURRENT spec (reference interpreter over the current spec
// vs GlobalFilter.Handle), under the same flow rules.
func TestVerifC02GlobalFilterUpdate(t *testing.T) {
	vf := vfBegin(t, "C02")
	defer vf.End()
	vfRegisterKinds()
	rapid.Check(t, func(rt *rapid.T) {
		main := vfGenValidPipe(rt, "main", vfGenCfg{maxNodes: 4, allowNoFlow: true}, "m.")
		pm, rej, pan := vfNewPipeline(main.YAML())
		if rej != nil || pan != "" {
			vf.Violation(rt, "valid-spec-rejected", "valid main pipeline not created: %v %s\n%s", rej, pan, main.YAML())
			return
		}
		defer pm.Close()

		genSection := func(name, label string) *vfPipe {
			return vfGenValidPipe(rt, name, vfGenCfg{maxNodes: 4, allowNoFlow: true}, label)
		}
		var before, after *vfPipe
		if vfRange(rt, 0, 9, "g0.hasBefore") < 7 {
			before = genSection("before", "g0.b.")
		}
		if vfRange(rt, 0, 9, "g0.hasAfter") < 7 {
			after = genSection("after", "g0.a.")
		}
		nupd := vfRange(rt, 1, 3, "nupdates")
		var gf *globalfilter.GlobalFilter
		var history []string // YAML of every generation so far
		var transitions []string

		for gen := 0; gen <= nupd; gen++ {
			changed, removed := false, false
			if gen > 0 {
				// one transition per section
				step := func(cur *vfPipe, name string) *vfPipe {
					c := vfRange(rt, 0, 9, fmt.Sprintf("g%d.%s.op", gen, name))
					switch {
					case cur == nil && c < 5:
						transitions = append(transitions, name+"-stays-absent")
						return nil
					case cur == nil:
						changed = true
						transitions = append(transitions, name+"-added")
						return genSection(name, fmt.Sprintf("g%d.%s.", gen, name))
					case c < 4:
						changed, removed = true, true
						transitions = append(transitions, name+"-removed")
						return nil
					case c < 7:
						changed = true
						transitions = append(transitions, name+"-replaced")
						return genSection(name, fmt.Sprintf("g%d.%s.", gen, name))
					default:
						transitions = append(transitions, name+"-unchanged")
						return cur
					}
				}
				transitions = nil
				before = step(before, "before")
				after = step(after, "after")
			}
			y := vfGlobalFilterYAML(before, after)
			history = append(history, fmt.Sprintf("--- generation %d (%s)\n%s", gen, strings.Join(transitions, ","), y))
			g, rej, pan := vfNewGlobalFilterGen(y, gf)
			if rej != nil {
				vf.Violation(rt, "valid-globalfilter-spec-rejected", "GlobalFilter over valid before/after pipelines is rejected: %v\n%s", rej, y)
				return
			}
			if pan != "" {
				how := "Init"
				if gen > 0 {
					how = "Inherit"
				}
				vf.Violation(rt, "globalfilter-"+how+"-panics", "GlobalFilter.%s panics: %s\nhistory:\n%s", how, pan, strings.Join(history, ""))
				return
			}
			gf = g

			all := "main:\n" + main.YAML() + strings.Join(history, "")
			nscripts := vfRange(rt, 2, 4, "nscripts")
			for si := 0; si < nscripts; si++ {
				script := vfGenScript(rt, 16, "script")
				ref := vfRefRun(before, main, after, script)
				obs := vfObserve(script, func(ctx *context.Context) (string, bool) {
					gf.Handle(ctx, pm)
					return "", false
				})
				used := fmt.Sprint(script[:ref.Consumed])
				vfRunClasses(vf, ref, "GlobalFilter.Handle-after-update")
				vf.Class(fmt.Sprintf("generation=%d", gen))
				for _, tr := range transitions {
					vf.Class("update:" + tr)
				}
				if removed {
					vf.Class("update-removed-a-section")
				}
				// non-trivial: the object was updated and the update changed a section
				vf.Case(gen > 0 && changed, "gfupdate||"+all+"||"+used, func() interface{} {
					return map[string]interface{}{"mode": "GlobalFilter.Handle after update", "history": all, "results": used, "run": obs.String()}
				})
				if key, what := vfCompare(ref, obs); key != "" {
					k := "GlobalFilter.Handle:" + key
					if gen > 0 {
						k = "GlobalFilter.update(" + strings.Join(transitions, ",") + "):" + key
					}
					vf.Violation(rt, k, "%s\n(reference = flows of the current generation's spec)\n%s\nresults per invocation %s\nreal:      %s\nreference: %s", what, all, used, obs, ref)
					return
				}
			}
		}
	})
	if !t.Failed() {
		vfHealth(t, vf, map[string]float64{
			"update-removed-a-section": 0.15,
			"update:before-removed":    0.05,
			"update:after-removed":     0.05,
			"update:before-replaced":   0.05,
			"update:after-replaced":    0.05,
			"update:before-added":      0.03,
			"update:after-added":       0.03,
			"update:before-unchanged":  0.05,
			"update:after-unchanged":   0.05,
			"generation=2":             0.10,
		})
	}
}
