//go:build go1.21

// Package vfc02 is an overlay-only package (pkg/zzverif/c02): harness for property C02
// (pipeline flow semantics and validation). Everything it needs from easegress is exported
// (supervisor.NewSpec, Pipeline.Init/Handle/HandleWithBeforeAfter, GlobalFilter.Init/Handle,
// filters.Register), so the harness is an external package and survives refactors of unexported code.
//
// This file: model of a pipeline spec, YAML rendering, recording filter kinds, reference
// interpreter and reference validity predicate (both written from the property statement), generators.
package vfc02

import (
	"fmt"
	"io"
	"regexp"
	"sort"
	"strings"

	"pgregory.net/rapid"

	"github.com/megaease/easegress/pkg/context"
	"github.com/megaease/easegress/pkg/filters"
	"github.com/megaease/easegress/pkg/logger"
	"github.com/megaease/easegress/pkg/object/globalfilter"
	"github.com/megaease/easegress/pkg/object/pipeline"
	"github.com/megaease/easegress/pkg/protocols"
	"github.com/megaease/easegress/pkg/supervisor"
	"github.com/megaease/easegress/pkg/tracing"
)

func init() {
	logger.InitNop()
}

const vfEND = "END"

// ---------------------------------------------------------------------------------------------
// model

type vfFilterDef struct {
	Name string
	Kind string
}

type vfNode struct {
	Filter string // filter name, or END
	Alias  string // "" = none
	NS     string
	HasNS  bool              // render the namespace key (also when NS == "")
	JumpIf map[string]string // nil = none
}

func (n *vfNode) isEnd() bool { return n.Filter == vfEND }

// alias by which jumpIf targets and the stats tag name this node
func (n *vfNode) effAlias() string {
	if n.Alias != "" {
		return n.Alias
	}
	return n.Filter
}

type vfPipe struct {
	Name    string
	Filters []vfFilterDef
	Flow    []vfNode // empty = implicit flow (filters in definition order)
}

func (p *vfPipe) clone() *vfPipe {
	q := &vfPipe{Name: p.Name}
	q.Filters = append(q.Filters, p.Filters...)
	for _, n := range p.Flow {
		m := n
		if n.JumpIf != nil {
			m.JumpIf = map[string]string{}
			for k, v := range n.JumpIf {
				m.JumpIf[k] = v
			}
		}
		q.Flow = append(q.Flow, m)
	}
	return q
}

// effFlow is the flow that runs: the explicit one, or (statement/doc: flow is optional) all filters
// in definition order.
func (p *vfPipe) effFlow() []vfNode {
	if len(p.Flow) > 0 {
		return p.Flow
	}
	out := make([]vfNode, 0, len(p.Filters))
	for _, f := range p.Filters {
		out = append(out, vfNode{Filter: f.Name})
	}
	return out
}

func (p *vfPipe) kindOf(filter string) (string, bool) {
	for _, f := range p.Filters {
		if f.Name == filter {
			return f.Kind, true
		}
	}
	return "", false
}

// test-only filter kinds and their declared results
var vfKindResults = map[string][]string{
	"VfRec":  {"r1", "r2", "r3"},
	"VfRec2": {"q1", "r2"},
}

func vfSortedKeys(m map[string]string) []string {
	ks := make([]string, 0, len(m))
	for k := range m {
		ks = append(ks, k)
	}
	sort.Strings(ks)
	return ks
}

// body renders flow + filters with the given indentation (no name/kind lines).
func (p *vfPipe) body(ind string) string {
	var sb strings.Builder
	if len(p.Flow) > 0 {
		sb.WriteString(ind + "flow:\n")
		for _, n := range p.Flow {
			fmt.Fprintf(&sb, "%s- filter: %q\n", ind, n.Filter)
			if n.Alias != "" {
				fmt.Fprintf(&sb, "%s  alias: %q\n", ind, n.Alias)
			}
			if n.HasNS || n.NS != "" {
				fmt.Fprintf(&sb, "%s  namespace: %q\n", ind, n.NS)
			}
			if n.JumpIf != nil {
				parts := []string{}
				for _, k := range vfSortedKeys(n.JumpIf) {
					parts = append(parts, fmt.Sprintf("%q: %q", k, n.JumpIf[k]))
				}
				fmt.Fprintf(&sb, "%s  jumpIf: {%s}\n", ind, strings.Join(parts, ", "))
			}
		}
	}
	sb.WriteString(ind + "filters:\n")
	for _, f := range p.Filters {
		fmt.Fprintf(&sb, "%s- name: %q\n%s  kind: %s\n", ind, f.Name, ind, f.Kind)
	}
	return sb.String()
}

func (p *vfPipe) YAML() string {
	return fmt.Sprintf("name: %s\nkind: Pipeline\n", p.Name) + p.body("")
}

func vfGlobalFilterYAML(before, after *vfPipe) string {
	var sb strings.Builder
	sb.WriteString("name: vfgf\nkind: GlobalFilter\n")
	if before != nil {
		sb.WriteString("beforePipeline:\n" + before.body("  "))
	}
	if after != nil {
		sb.WriteString("afterPipeline:\n" + after.body("  "))
	}
	return sb.String()
}

// ---------------------------------------------------------------------------------------------
// recording filter kinds

type vfVisit struct {
	Pipeline string // name of the pipeline the filter instance was created for
	Filter   string // name of the filter instance
	NS       string // namespace observed through the marker request
	Result   string
}

type vfRunState struct {
	script []int
	k      int
	visits []vfVisit
}

// result of the k-th filter invocation of a run: 0 = "", v>0 = declared result (v-1) mod |results|
func vfScripted(kind string, script []int, k int) string {
	if k >= len(script) || script[k] == 0 {
		return ""
	}
	rs := vfKindResults[kind]
	return rs[(script[k]-1)%len(rs)]
}

type vfRecSpec struct {
	filters.BaseSpec `yaml:",inline"`
}

type vfRecFilter struct {
	kind *filters.Kind
	spec *vfRecSpec
}

func (f *vfRecFilter) Name() string                { return f.spec.Name() }
func (f *vfRecFilter) Kind() *filters.Kind         { return f.kind }
func (f *vfRecFilter) Spec() filters.Spec          { return f.spec }
func (f *vfRecFilter) Init()                       {}
func (f *vfRecFilter) Inherit(prev filters.Filter) {}
func (f *vfRecFilter) Status() interface{}         { return nil }
func (f *vfRecFilter) Close()                      {}
func (f *vfRecFilter) Handle(ctx *context.Context) string {
	run := ctx.GetData("vfrun").(*vfRunState)
	ns := "<no-request>"
	if r, ok := ctx.GetInputRequest().(*vfReq); ok && r != nil {
		ns = r.ns
	}
	res := vfScripted(f.kind.Name, run.script, run.k)
	run.k++
	run.visits = append(run.visits, vfVisit{Pipeline: f.spec.Pipeline(), Filter: f.spec.Name(), NS: ns, Result: res})
	return res
}

func vfRegisterKinds() {
	for _, name := range []string{"VfRec", "VfRec2"} {
		if filters.GetKind(name) != nil {
			continue
		}
		k := &filters.Kind{
			Name:        name,
			Description: name,
			Results:     append([]string{}, vfKindResults[name]...),
			DefaultSpec: func() filters.Spec { return &vfRecSpec{} },
		}
		kk := k
		k.CreateInstance = func(spec filters.Spec) filters.Filter {
			return &vfRecFilter{kind: kk, spec: spec.(*vfRecSpec)}
		}
		filters.Register(k)
	}
}

// vfReq is a marker request: one per namespace, so that what a filter gets from
// ctx.GetInputRequest() tells which namespace was active when it ran.
type vfReq struct{ ns string }

func (r *vfReq) Header() protocols.Header                 { return nil }
func (r *vfReq) IsStream() bool                           { return false }
func (r *vfReq) SetPayload(payload interface{})           {}
func (r *vfReq) GetPayload() io.Reader                    { return strings.NewReader("") }
func (r *vfReq) RawPayload() []byte                       { return nil }
func (r *vfReq) PayloadSize() int64                       { return 0 }
func (r *vfReq) ToBuilderRequest(name string) interface{} { return nil }
func (r *vfReq) Close()                                   {}

var vfNamespaces = []string{context.DefaultNamespace, "n1", "n2"}

func vfNewCtx(script []int) (*context.Context, *vfRunState) {
	ctx := context.New(tracing.NoopSpan)
	for _, ns := range vfNamespaces {
		ctx.SetRequest(ns, &vfReq{ns: ns})
	}
	run := &vfRunState{script: script}
	ctx.SetData("vfrun", run)
	return ctx, run
}

// ---------------------------------------------------------------------------------------------
// observation of a real run

type vfTagStat struct{ Alias, Result string }

type vfObs struct {
	Visits  []vfVisit
	Result  string
	HasRes  bool // the entry point returns the pipeline result
	Tag     string
	Stats   []vfTagStat
	TagOK   bool
	Panic   string
	PanicAt string
}

var vfStatRe = regexp.MustCompile(`^([^()]*)\((?:([^(),]*),)?([^(),]*)\)$`)

// vfParseTag parses "pipeline: a(r1,1.2µs)->b(0s)" / "pipeline: <empty>".
func vfParseTag(tag string) ([]vfTagStat, bool) {
	const prefix = "pipeline: "
	if !strings.HasPrefix(tag, prefix) {
		return nil, false
	}
	rest := tag[len(prefix):]
	if rest == "<empty>" {
		return nil, true
	}
	var out []vfTagStat
	for _, part := range strings.Split(rest, "->") {
		m := vfStatRe.FindStringSubmatch(part)
		if m == nil {
			return nil, false
		}
		out = append(out, vfTagStat{Alias: m[1], Result: m[2]})
	}
	return out, true
}

func vfObserve(script []int, call func(ctx *context.Context) (string, bool)) *vfObs {
	ctx, run := vfNewCtx(script)
	o := &vfObs{}
	panicked, text, site := vfRecover(func() {
		o.Result, o.HasRes = call(ctx)
	})
	o.Visits = run.visits
	if panicked {
		o.Panic, o.PanicAt = text, site
		return o
	}
	o.Tag = ctx.Tags()
	o.Stats, o.TagOK = vfParseTag(o.Tag)
	return o
}

func (o *vfObs) String() string {
	var parts []string
	for i, v := range o.Visits {
		a := "?"
		if i < len(o.Stats) {
			a = o.Stats[i].Alias
		}
		parts = append(parts, fmt.Sprintf("%s/%s[alias=%s ns=%s]=%q", v.Pipeline, v.Filter, a, v.NS, v.Result))
	}
	s := strings.Join(parts, " -> ")
	if o.Panic != "" {
		return s + " PANIC " + o.Panic + " at " + o.PanicAt
	}
	return fmt.Sprintf("%s ; result=%q hasResult=%v ; tag=%q", s, o.Result, o.HasRes, o.Tag)
}

// ---------------------------------------------------------------------------------------------
// reference interpreter (from the statement)

type vfRefVisit struct {
	Pipeline, Alias, Filter, NS, Result string
}

type vfRefOut struct {
	Visits []vfRefVisit
	Result string
	// facts for the non-triviality rule and the class histogram
	JumpSkip      int  // taken jumps that skipped >= 1 node
	JumpSkipEnd   int  // ... of which skipped an END node
	JumpAdjacent  int  // taken jumps to the very next node
	JumpToEndNode int  // taken jumps that land on an aliased END node
	Reused        bool // one filter instance ran more than once
	Suppressed    bool // an END inside before/main kept a later, non-empty flow from running
	EndNode       bool // stopped at an END node reached sequentially
	EndMapped     bool // stopped by result -> END
	EndUnmapped   bool // stopped by an unmapped result
	NonDefaultNS  bool
	Consumed      int
}

func vfNormNS(ns string) string {
	if ns == "" {
		return context.DefaultNamespace
	}
	return ns
}

// vfRefFlow runs one flow; returns whether END was seen. Precondition: the pipe is valid
// (every target is END or the alias of exactly one later node).
func vfRefFlow(p *vfPipe, script []int, out *vfRefOut) (sawEnd bool) {
	flow := p.effFlow()
	i := 0
	for i < len(flow) {
		n := &flow[i]
		if n.isEnd() {
			out.EndNode = true
			return true
		}
		kind, _ := p.kindOf(n.Filter)
		r := vfScripted(kind, script, out.Consumed)
		out.Consumed++
		ns := vfNormNS(n.NS)
		if ns != context.DefaultNamespace {
			out.NonDefaultNS = true
		}
		out.Visits = append(out.Visits, vfRefVisit{Pipeline: p.Name, Alias: n.effAlias(), Filter: n.Filter, NS: ns, Result: r})
		out.Result = r
		if r == "" {
			i++
			continue
		}
		t, mapped := n.JumpIf[r]
		if !mapped {
			out.EndUnmapped = true
			return true
		}
		if t == vfEND || t == "" {
			out.EndMapped = true
			return true
		}
		j := -1
		for k := i + 1; k < len(flow); k++ {
			if flow[k].effAlias() == t {
				j = k
				break
			}
		}
		if j < 0 {
			panic("vf: reference interpreter run on an invalid flow (target " + t + ")")
		}
		if flow[j].isEnd() {
			out.JumpToEndNode++
		}
		if j == i+1 {
			out.JumpAdjacent++
		} else {
			out.JumpSkip++
			for k := i + 1; k < j; k++ {
				if flow[k].isEnd() {
					out.JumpSkipEnd++
					break
				}
			}
		}
		i = j
	}
	return false
}

// vfRefRun: before -> main -> after, an END anywhere stops all three; result of the last filter run.
func vfRefRun(before, main, after *vfPipe, script []int) *vfRefOut {
	out := &vfRefOut{}
	sawEnd := false
	if before != nil {
		sawEnd = vfRefFlow(before, script, out)
		if sawEnd {
			out.Suppressed = true // main always has >= 1 node
		}
	}
	if !sawEnd {
		sawEnd = vfRefFlow(main, script, out)
		if sawEnd && after != nil {
			out.Suppressed = true
		}
	}
	if !sawEnd && after != nil {
		vfRefFlow(after, script, out)
	}
	seen := map[string]bool{}
	for _, v := range out.Visits {
		k := v.Pipeline + "/" + v.Filter
		if seen[k] {
			out.Reused = true
		}
		seen[k] = true
	}
	if len(out.Visits) == 0 {
		out.Result = ""
	}
	return out
}

func (o *vfRefOut) String() string {
	var parts []string
	for _, v := range o.Visits {
		parts = append(parts, fmt.Sprintf("%s/%s[alias=%s ns=%s]=%q", v.Pipeline, v.Filter, v.Alias, v.NS, v.Result))
	}
	return fmt.Sprintf("%s ; result=%q", strings.Join(parts, " -> "), o.Result)
}

// vfCompare returns "" when the observation equals the reference, else (key suffix, description).
func vfCompare(ref *vfRefOut, o *vfObs) (string, string) {
	if o.Panic != "" {
		return "panic site=" + o.PanicAt + " panic=" + vfPanicClass(o.Panic), "panicked: " + o.Panic
	}
	n := len(ref.Visits)
	if len(o.Visits) < n {
		n = len(o.Visits)
	}
	for i := 0; i < n; i++ {
		rv, ov := ref.Visits[i], o.Visits[i]
		if rv.Pipeline != ov.Pipeline || rv.Filter != ov.Filter {
			return "visit-sequence", fmt.Sprintf("visit %d: ran %s/%s, reference runs %s/%s", i, ov.Pipeline, ov.Filter, rv.Pipeline, rv.Filter)
		}
		if rv.NS != ov.NS {
			return "namespace", fmt.Sprintf("visit %d (%s/%s): ran in namespace %q, configured %q", i, ov.Pipeline, ov.Filter, ov.NS, rv.NS)
		}
	}
	if len(o.Visits) > len(ref.Visits) {
		v := o.Visits[len(ref.Visits)]
		return "visit-sequence", fmt.Sprintf("ran %s/%s after the reference had stopped (%d visits)", v.Pipeline, v.Filter, len(ref.Visits))
	}
	if len(o.Visits) < len(ref.Visits) {
		v := ref.Visits[len(o.Visits)]
		return "visit-sequence", fmt.Sprintf("stopped after %d visits, reference goes on with %s/%s", len(o.Visits), v.Pipeline, v.Alias)
	}
	if o.HasRes && o.Result != ref.Result {
		return "result", fmt.Sprintf("pipeline result %q, result of the last filter run is %q", o.Result, ref.Result)
	}
	if !o.TagOK {
		return "stats-tag", fmt.Sprintf("stats tag %q does not parse", o.Tag)
	}
	if len(o.Stats) != len(ref.Visits) {
		return "stats-tag", fmt.Sprintf("stats tag has %d entries, %d filters ran", len(o.Stats), len(ref.Visits))
	}
	for i, s := range o.Stats {
		if s.Alias != ref.Visits[i].Alias || s.Result != ref.Visits[i].Result {
			return "stats-tag", fmt.Sprintf("stats entry %d is %s(%s), reference %s(%s)", i, s.Alias, s.Result, ref.Visits[i].Alias, ref.Visits[i].Result)
		}
	}
	return "", ""
}

// ---------------------------------------------------------------------------------------------
// reference validity predicate V (from the statement)

// vfInvalidReasons returns the reasons for which the statement demands rejection, and the readings
// the statement leaves open (either verdict accepted).
func vfInvalidReasons(p *vfPipe) (reasons []string, ambiguous []string) {
	rs, as := map[string]bool{}, map[string]bool{}
	seen := map[string]int{}
	for _, f := range p.Filters {
		seen[f.Name]++
		if f.Name == vfEND {
			rs["reserved-filter-name"] = true
		}
	}
	for _, c := range seen {
		if c > 1 {
			rs["dup-filter-name"] = true
		}
	}
	flow := p.Flow
	for i := range flow {
		n := &flow[i]
		if n.isEnd() {
			if len(n.JumpIf) > 0 {
				as["jumpIf-on-END-node"] = true
			}
			continue
		}
		if n.Alias == vfEND {
			as["filter-node-aliased-END"] = true
		}
		kind, ok := p.kindOf(n.Filter)
		if !ok {
			rs["missing-filter"] = true
		}
		for _, r := range vfSortedKeys(n.JumpIf) {
			t := n.JumpIf[r]
			if ok && seen[n.Filter] == 1 {
				declared := false
				for _, d := range vfKindResults[kind] {
					if d == r {
						declared = true
					}
				}
				if !declared {
					rs["undeclared-result"] = true
				}
			}
			if t == vfEND {
				continue
			}
			if t == "" {
				rs["target-empty"] = true
				continue
			}
			laterF, laterE := 0, 0
			for k := i + 1; k < len(flow); k++ {
				if flow[k].effAlias() == t {
					if flow[k].isEnd() {
						laterE++
					} else {
						laterF++
					}
				}
			}
			switch {
			case laterF+laterE == 0:
				earlier := false
				for k := 0; k < i; k++ {
					if flow[k].effAlias() == t {
						earlier = true
					}
				}
				if earlier {
					rs["target-earlier"] = true
				} else if n.effAlias() == t {
					rs["target-self"] = true
				} else {
					rs["target-unknown"] = true
				}
			case laterF >= 2:
				rs["target-duplicated"] = true
			case laterF == 1 && laterE >= 1:
				rs["target-shared-with-END-node-alias"] = true
			case laterF == 0 && laterE >= 2:
				rs["target-duplicated-END-node-aliases"] = true
			case laterF == 0 && laterE == 1:
				as["target-is-END-node-alias"] = true
			}
		}
	}
	for k := range rs {
		reasons = append(reasons, k)
	}
	for k := range as {
		ambiguous = append(ambiguous, k)
	}
	sort.Strings(reasons)
	sort.Strings(ambiguous)
	return
}

// ---------------------------------------------------------------------------------------------
// generators

// vfRange is a calibrated (near-uniform) draw in [lo,hi]. rapid's own integer generators favour
// small values and the bounds, which is what one wants for sizes but not for "one time in seven".
var vfBits = rapid.SliceOfN(rapid.Bool(), 10, 10)

func vfRange(rt *rapid.T, lo, hi int, label string) int {
	if hi <= lo {
		return lo
	}
	v := 0
	for _, b := range vfBits.Draw(rt, label) {
		v <<= 1
		if b {
			v |= 1
		}
	}
	return lo + v*(hi-lo+1)/1024
}

func vfPick[T any](rt *rapid.T, xs []T, label string) T {
	return xs[vfRange(rt, 0, len(xs)-1, label)]
}

var (
	vfFilterNames = []string{"f0", "f1", "f2", "f3"}
	vfAliasPool   = []string{"a", "b", "c", "f0", "f1", "f2"}
	vfNSPool      = []string{"", "", "DEFAULT", "n1", "n2"}
)

type vfGenCfg struct {
	maxNodes    int
	allowNoFlow bool
	// endAliasJumps: jumpIf targets may also be the alias of exactly one later END node. Whether
	// validation accepts such a target is a reading the statement leaves open; once accepted, the
	// flow rules apply: the jump lands on that END node (skipping what is in between), the pipeline
	// ends there and its result is the result of the last filter run.
	endAliasJumps bool
}

// vfGenValidPipe builds a pipeline that is valid by construction (V holds).
func vfGenValidPipe(rt *rapid.T, name string, cfg vfGenCfg, label string) *vfPipe {
	p := &vfPipe{Name: name}
	nf := vfRange(rt, 1, 4, label+"nfilters")
	for i := 0; i < nf; i++ {
		kind := "VfRec"
		if vfRange(rt, 0, 3, label+"kind") == 0 {
			kind = "VfRec2"
		}
		p.Filters = append(p.Filters, vfFilterDef{Name: vfFilterNames[i], Kind: kind})
	}
	// filter definition order need not be the flow order
	if nf > 1 && rapid.Bool().Draw(rt, label+"revfilters") {
		for i, j := 0, nf-1; i < j; i, j = i+1, j-1 {
			p.Filters[i], p.Filters[j] = p.Filters[j], p.Filters[i]
		}
	}
	lo := 1
	if cfg.allowNoFlow {
		lo = 0
	}
	nn := vfRange(rt, lo, cfg.maxNodes, label+"nnodes")
	if nn > 0 && nn < cfg.maxNodes && rapid.Bool().Draw(rt, label+"longer") {
		nn = vfRange(rt, nn, cfg.maxNodes, label+"nnodes2")
	}
	for i := 0; i < nn; i++ {
		n := vfNode{}
		// END nodes anywhere, but rarely as the very first node (nothing would run)
		endOdds := 6
		if i == 0 {
			endOdds = 24
		}
		if vfRange(rt, 0, endOdds, label+"isEnd") == 0 {
			n.Filter = vfEND
		} else {
			n.Filter = vfFilterNames[vfRange(rt, 0, nf-1, label+"filter")]
		}
		aliasMode := vfRange(rt, 0, 3, label+"aliasMode")
		if cfg.endAliasJumps && n.isEnd() && aliasMode <= 1 && rapid.Bool().Draw(rt, label+"endAliased") {
			aliasMode = 2
		}
		switch aliasMode {
		case 0, 1: // none
		case 2: // unique alias
			n.Alias = fmt.Sprintf("u%d", i)
		case 3: // colliding pool (other filters' names included)
			n.Alias = vfPick(rt, vfAliasPool, label+"alias")
		}
		n.NS = vfPick(rt, vfNSPool, label+"ns")
		n.HasNS = n.NS != "" || rapid.Bool().Draw(rt, label+"hasNS")
		p.Flow = append(p.Flow, n)
	}
	// jumpIf: declared results -> END | unique later non-END alias | left unmapped
	for i := range p.Flow {
		n := &p.Flow[i]
		if n.isEnd() {
			continue
		}
		count := map[string]int{}
		for k := i + 1; k < len(p.Flow); k++ {
			count[p.Flow[k].effAlias()]++
		}
		var eligible, endAliases []string
		for k := i + 1; k < len(p.Flow); k++ {
			a := p.Flow[k].effAlias()
			if !p.Flow[k].isEnd() && count[a] == 1 && a != vfEND {
				eligible = append(eligible, a)
			}
			if cfg.endAliasJumps && p.Flow[k].isEnd() && p.Flow[k].Alias != "" && count[a] == 1 && a != vfEND {
				endAliases = append(endAliases, a)
			}
		}
		kind, _ := p.kindOf(n.Filter)
		for _, r := range vfKindResults[kind] {
			if len(endAliases) > 0 && vfRange(rt, 0, 9, label+"jumpEndAlias") < 4 {
				if n.JumpIf == nil {
					n.JumpIf = map[string]string{}
				}
				n.JumpIf[r] = vfPick(rt, endAliases, label+"endAlias")
				continue
			}
			c := vfRange(rt, 0, 9, label+"jump")
			switch {
			case c <= 1: // unmapped
			case c <= 2:
				if n.JumpIf == nil {
					n.JumpIf = map[string]string{}
				}
				n.JumpIf[r] = vfEND
			default:
				if len(eligible) == 0 {
					if c%2 == 0 {
						if n.JumpIf == nil {
							n.JumpIf = map[string]string{}
						}
						n.JumpIf[r] = vfEND
					}
					continue
				}
				if n.JumpIf == nil {
					n.JumpIf = map[string]string{}
				}
				// bias towards far targets (they skip more)
				idx := vfRange(rt, 0, len(eligible)-1, label+"target")
				if len(eligible) > 1 && rapid.Bool().Draw(rt, label+"far") {
					idx = len(eligible) - 1 - vfRange(rt, 0, (len(eligible)-1)/2, label+"farIdx")
				}
				n.JumpIf[r] = eligible[idx]
			}
		}
	}
	return p
}

// vfGenScript: results for up to n invocations; "" (continue) about half of the time.
func vfGenScript(rt *rapid.T, n int, label string) []int {
	s := make([]int, n)
	for i := range s {
		if vfRange(rt, 0, 99, label) < 50 {
			s[i] = 0
		} else {
			s[i] = vfRange(rt, 1, 6, label+"r")
		}
	}
	return s
}

// ---------------------------------------------------------------------------------------------
// real objects

// vfNewPipeline pushes YAML through the real acceptance path and creates the pipeline.
func vfNewPipeline(yaml string) (p *pipeline.Pipeline, rejected error, panicText string) {
	spec, err := supervisor.NewSpec(yaml)
	if err != nil {
		return nil, err, ""
	}
	pl := &pipeline.Pipeline{}
	panicked, text, site := vfRecover(func() { pl.Init(spec, nil) })
	if panicked {
		return nil, nil, text + " at " + site
	}
	return pl, nil, ""
}

func vfNewGlobalFilter(yaml string) (g *globalfilter.GlobalFilter, rejected error, panicText string) {
	spec, err := supervisor.NewSpec(yaml)
	if err != nil {
		return nil, err, ""
	}
	gf := &globalfilter.GlobalFilter{}
	panicked, text, site := vfRecover(func() { gf.Init(spec) })
	if panicked {
		return nil, nil, text + " at " + site
	}
	return gf, nil, ""
}
