//go:build go1.21

package vfc02

import (
	"fmt"
	"testing"

	"github.com/megaease/easegress/pkg/context"
)

// TestVerifC02Exhaustive (thorough tier only): every flow with 1..3 nodes over two filters (each
// node f0 | f1 | END, a reused filter gets a distinct alias, node i runs in namespace i), every
// jumpIf map over the two declared results (unmapped | END | any later filter node), times every
// result vector. Bounded-exhaustive companion of the random search: same oracle, no sampling.
func TestVerifC02Exhaustive(t *testing.T) {
	vf := vfBegin(t, "C02")
	defer vf.End()
	vf.Exhaust = true
	vfRegisterKinds()

	results := vfKindResults["VfRec2"] // two declared results
	nsOf := []string{"", "n1", "n2"}
	var scripts [][]int
	for a := 0; a < 3; a++ {
		for b := 0; b < 3; b++ {
			for c := 0; c < 3; c++ {
				scripts = append(scripts, []int{a, b, c})
			}
		}
	}
	pipes, runs := 0, 0

	check := func(p *vfPipe) {
		if rs, amb := vfInvalidReasons(p); len(rs)+len(amb) > 0 {
			t.Fatalf("VF-INCONCLUSIVE enumeration bug: %v %v\n%s", rs, amb, p.YAML())
		}
		pl, rej, pan := vfNewPipeline(p.YAML())
		if rej != nil {
			vf.Violation(t, "valid-spec-rejected", "a pipeline that satisfies every rule of the statement is rejected: %v\n%s", rej, p.YAML())
			return
		}
		if pan != "" {
			vf.Violation(t, "valid-spec-init-panics", "Init panics: %s\n%s", pan, p.YAML())
			return
		}
		defer pl.Close()
		pipes++
		y := p.YAML()
		seenPrefix := map[string]bool{}
		for _, script := range scripts {
			ref := vfRefRun(nil, p, nil, script)
			used := fmt.Sprint(script[:ref.Consumed])
			if seenPrefix[used] {
				continue // same run: the unused tail of the vector does not matter
			}
			seenPrefix[used] = true
			for _, mode := range []string{"Handle", "HandleWithBeforeAfter(nil,nil)"} {
				m := mode
				obs := vfObserve(script, func(ctx *context.Context) (string, bool) {
					if m == "Handle" {
						return pl.Handle(ctx), true
					}
					return pl.HandleWithBeforeAfter(ctx, nil, nil), true
				})
				runs++
				vfRunClasses(vf, ref, "exhaustive:"+m)
				vf.Case(ref.JumpSkip > 0 || ref.Reused, "exh||"+m+"||"+y+"||"+used, func() interface{} {
					return map[string]interface{}{"mode": "exhaustive:" + m, "spec": y, "results": used, "run": obs.String()}
				})
				if key, what := vfCompare(ref, obs); key != "" {
					if vf.Violation(t, m+":"+key, "%s\n%s\nresults per invocation %s\nreal:      %s\nreference: %s", what, y, used, obs, ref) {
						return
					}
				}
			}
		}
	}

	// enumerate node kinds, then jumpIf maps
	var jumps func(p *vfPipe, node, res int)
	jumps = func(p *vfPipe, node, res int) {
		if node == len(p.Flow) {
			check(p.clone())
			return
		}
		n := &p.Flow[node]
		if n.isEnd() {
			jumps(p, node+1, 0)
			return
		}
		if res == len(results) {
			jumps(p, node+1, 0)
			return
		}
		targets := []string{"", vfEND} // "" = leave unmapped
		for k := node + 1; k < len(p.Flow); k++ {
			if !p.Flow[k].isEnd() {
				targets = append(targets, p.Flow[k].effAlias())
			}
		}
		for _, tgt := range targets {
			if tgt == "" {
				delete(n.JumpIf, results[res])
			} else {
				if n.JumpIf == nil {
					n.JumpIf = map[string]string{}
				}
				n.JumpIf[results[res]] = tgt
			}
			jumps(p, node, res+1)
		}
		delete(n.JumpIf, results[res])
	}
	kinds := []string{"f0", "f1", vfEND}
	var nodes func(p *vfPipe, want int)
	nodes = func(p *vfPipe, want int) {
		if len(p.Flow) == want {
			jumps(p.clone(), 0, 0)
			return
		}
		i := len(p.Flow)
		for _, k := range kinds {
			n := vfNode{Filter: k, NS: nsOf[i]}
			for _, prev := range p.Flow {
				if prev.Filter == k {
					n.Alias = fmt.Sprintf("x%d", i) // reuse (also of END) under a distinct alias
				}
			}
			p.Flow = append(p.Flow, n)
			nodes(p, want)
			p.Flow = p.Flow[:i]
		}
	}
	for want := 1; want <= 3; want++ {
		p := &vfPipe{Name: "main", Filters: []vfFilterDef{{"f0", "VfRec2"}, {"f1", "VfRec2"}}}
		nodes(p, want)
	}
	vf.Note(fmt.Sprintf("exhaustive sub-run: %d pipelines (all flows of 1..3 nodes over 2 filters + END, all jumpIf maps over 2 results) x all distinct result vectors = %d runs", pipes, runs))
	t.Logf("exhaustive: %d pipelines, %d runs", pipes, runs)
}
