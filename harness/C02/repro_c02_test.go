//go:build go1.21

package vfc02

import (
	"testing"

	"github.com/megaease/easegress/pkg/context"
	"github.com/megaease/easegress/pkg/supervisor"
)

// Standalone reproductions of the two genuine defects the C02 check found. They are NOT part of
// the check (the run regexps do not match them); each FAILS while its defect is present:
//
//	cd /verif && bin/check C02 --build-only && cd /tmp && $(ls -t /verif/build/C02/C02-*.test | head -1) -test.run 'TestVerifReproC02' -test.v

// key: validation-accepts:target-shared-with-END-node-alias
func TestVerifReproC02EndNodeAliasSharedWithTarget(t *testing.T) {
	vfRegisterKinds()
	y := `
name: main
kind: Pipeline
flow:
- filter: f0
  jumpIf: {r3: x}
- filter: END
  alias: x
- filter: f0
  alias: x
filters:
- name: f0
  kind: VfRec
`
	_, err := supervisor.NewSpec(y)
	if err != nil {
		t.Logf("rejected (defect fixed): %v", err)
		return
	}
	t.Errorf("accepted although jumpIf target x names two later nodes (an END node aliased x and filter node x)")
	pl, _, _ := vfNewPipeline(y)
	defer pl.Close()
	// f0 returns r3 on its first invocation: the jump to "x" stops at the aliased END node
	obs := vfObserve([]int{3, 0}, func(ctx *context.Context) (string, bool) { return pl.Handle(ctx), true })
	t.Logf("run with first result r3: %s   (the filter node aliased x never runs)", obs)
}

// key: globalfilter-ignores-pipeline-without-explicit-flow
func TestVerifReproC02GlobalFilterImplicitFlow(t *testing.T) {
	vfRegisterKinds()
	before := &vfPipe{Name: "before", Filters: []vfFilterDef{{"b0", "VfRec"}}} // no flow: filters in definition order
	main := &vfPipe{Name: "main", Filters: []vfFilterDef{{"f0", "VfRec"}}, Flow: []vfNode{{Filter: "f0"}}}
	pm, rej, pan := vfNewPipeline(main.YAML())
	if rej != nil || pan != "" {
		t.Fatalf("VF-INCONCLUSIVE %v %s", rej, pan)
	}
	defer pm.Close()
	pb, rej, pan := vfNewPipeline(before.YAML())
	if rej != nil || pan != "" {
		t.Fatalf("VF-INCONCLUSIVE %v %s", rej, pan)
	}
	defer pb.Close()
	direct := vfObserve([]int{0, 0}, func(ctx *context.Context) (string, bool) { return pm.HandleWithBeforeAfter(ctx, pb, nil), true })
	t.Logf("HandleWithBeforeAfter(before, nil): %s", direct)

	gf, rej, pan := vfNewGlobalFilter(vfGlobalFilterYAML(before, nil))
	if rej != nil || pan != "" {
		t.Fatalf("VF-INCONCLUSIVE %v %s", rej, pan)
	}
	defer gf.Close()
	viaGF := vfObserve([]int{0, 0}, func(ctx *context.Context) (string, bool) { gf.Handle(ctx, pm); return "", false })
	t.Logf("GlobalFilter.Handle:                %s", viaGF)
	if len(viaGF.Visits) != len(direct.Visits) {
		t.Errorf("GlobalFilter ran %d filters, HandleWithBeforeAfter over the same pipelines %d: the beforePipeline without explicit flow is dropped\n%s",
			len(viaGF.Visits), len(direct.Visits), vfGlobalFilterYAML(before, nil))
	}
}
