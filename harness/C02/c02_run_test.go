//go:build go1.21

package vfc02

import (
	"fmt"
	"sort"
	"strings"
	"testing"

	"pgregory.net/rapid"

	"github.com/megaease/easegress/pkg/context"
	"github.com/megaease/easegress/pkg/object/globalfilter"
	"github.com/megaease/easegress/pkg/object/pipeline"
)

const vfKeyGFImplicit = "globalfilter-ignores-pipeline-without-explicit-flow"

// vfRunClasses feeds the class histogram from the reference's facts.
func vfRunClasses(vf *vfCollector, ref *vfRefOut, mode string) {
	vf.Class("mode=" + mode)
	vf.Class(fmt.Sprintf("visits=%d", len(ref.Visits)))
	if ref.JumpSkip > 0 {
		vf.Class("jump-skipping>=1-node")
	}
	if ref.JumpSkipEnd > 0 {
		vf.Class("jump-skipping-END-node")
	}
	if ref.JumpToEndNode > 0 {
		vf.Class("jump-to-aliased-END-node")
		if ref.Result != "" {
			vf.Class("jump-to-aliased-END-node-with-result")
		}
	}
	if ref.JumpAdjacent > 0 {
		vf.Class("jump-to-next-node")
	}
	if ref.Reused {
		vf.Class("filter-instance-ran-twice")
	}
	if ref.Suppressed {
		vf.Class("END-suppresses-later-flow")
	}
	if ref.EndNode {
		vf.Class("stop=END-node")
	}
	if ref.EndMapped {
		vf.Class("stop=result->END")
	}
	if ref.EndUnmapped {
		vf.Class("stop=unmapped-result")
	}
	if !ref.EndNode && !ref.EndMapped && !ref.EndUnmapped {
		vf.Class("stop=ran-off-the-end")
	}
	if ref.NonDefaultNS {
		vf.Class("non-default-namespace")
	}
}

// TestVerifC02Run: valid pipelines (by construction) x result scripts, with and without
// before/after flows, real Handle / HandleWithBeforeAfter / GlobalFilter.Handle against the
// reference interpreter.
func TestVerifC02Run(t *testing.T) {
	vf := vfBegin(t, "C02")
	defer vf.End()
	vfRegisterKinds()
	rapid.Check(t, func(rt *rapid.T) {
		cfg := vfGenCfg{maxNodes: 7, allowNoFlow: true, endAliasJumps: true}
		main := vfGenValidPipe(rt, "main", cfg, "m.")
		var before, after *vfPipe
		if vfRange(rt, 0, 9, "hasBefore") < 4 {
			before = vfGenValidPipe(rt, "before", vfGenCfg{maxNodes: 4, allowNoFlow: true, endAliasJumps: true}, "b.")
		}
		if vfRange(rt, 0, 9, "hasAfter") < 4 {
			after = vfGenValidPipe(rt, "after", vfGenCfg{maxNodes: 4, allowNoFlow: true, endAliasJumps: true}, "a.")
		}
		endAlias := map[string]bool{}
		for _, p := range []*vfPipe{before, main, after} {
			if p == nil {
				continue
			}
			rs, amb := vfInvalidReasons(p)
			if len(amb) == 1 && amb[0] == "target-is-END-node-alias" {
				amb = nil // generated on purpose (endAliasJumps)
				endAlias[p.Name] = true
			}
			if len(rs)+len(amb) > 0 {
				rt.Fatalf("VF-INCONCLUSIVE generator bug: valid-by-construction pipeline is invalid for %v %v\n%s", rs, amb, p.YAML())
			}
		}
		all := "main:\n" + main.YAML()
		if before != nil {
			all += "before:\n" + before.YAML()
		}
		if after != nil {
			all += "after:\n" + after.YAML()
		}

		// V => accepted and creatable
		mk := func(p *vfPipe) *pipeline.Pipeline {
			if p == nil {
				return nil
			}
			pl, rej, pan := vfNewPipeline(p.YAML())
			if rej != nil {
				if endAlias[p.Name] {
					// open reading: a jump target that is the alias of an END node may be refused
					vf.Class("ambiguous-END-node-alias-target-rejected")
					return nil
				}
				vf.Violation(rt, "valid-spec-rejected", "a pipeline that satisfies every rule of the statement is rejected: %v\n%s", rej, p.YAML())
				return nil
			}
			if pan != "" {
				vf.Violation(rt, "valid-spec-init-panics", "Init of an accepted pipeline panics: %s\n%s", pan, p.YAML())
				return nil
			}
			return pl
		}
		pm := mk(main)
		if pm == nil {
			return
		}
		defer pm.Close()
		var pb, pa *pipeline.Pipeline
		if before != nil {
			if pb = mk(before); pb == nil {
				return
			}
			defer pb.Close()
		}
		if after != nil {
			if pa = mk(after); pa == nil {
				return
			}
			defer pa.Close()
		}

		// GlobalFilter over the same before/after specs
		var gf *globalfilter.GlobalFilter
		gfImplicit := false
		if before != nil || after != nil {
			gfImplicit = (before != nil && len(before.Flow) == 0) || (after != nil && len(after.Flow) == 0)
			g, rej, pan := vfNewGlobalFilter(vfGlobalFilterYAML(before, after))
			if rej != nil {
				vf.Violation(rt, "valid-globalfilter-spec-rejected", "GlobalFilter over valid before/after pipelines is rejected: %v\n%s", rej, vfGlobalFilterYAML(before, after))
				return
			}
			if pan != "" {
				vf.Violation(rt, "valid-globalfilter-init-panics", "GlobalFilter.Init panics: %s\n%s", pan, vfGlobalFilterYAML(before, after))
				return
			}
			gf = g
			defer gf.Close()
		}

		nscripts := vfRange(rt, 3, 8, "nscripts")
		scripts := make([][]int, nscripts)
		for si := range scripts {
			scripts[si] = vfGenScript(rt, 16, "script")
		}

		type leg struct {
			mode          string
			before, after *vfPipe
			call          func(ctx *context.Context) (string, bool)
		}
		legs := []leg{
			{"Handle", nil, nil, func(ctx *context.Context) (string, bool) { return pm.Handle(ctx), true }},
		}
		if before == nil && after == nil {
			legs = append(legs, leg{"HandleWithBeforeAfter(nil,nil)", nil, nil, func(ctx *context.Context) (string, bool) {
				return pm.HandleWithBeforeAfter(ctx, nil, nil), true
			}})
		} else {
			legs = append(legs, leg{"HandleWithBeforeAfter", before, after, func(ctx *context.Context) (string, bool) {
				return pm.HandleWithBeforeAfter(ctx, pb, pa), true
			}})
			// last leg (all scripts of the other legs first), because a known finding abandons the case
			legs = append(legs, leg{"GlobalFilter.Handle", before, after, func(ctx *context.Context) (string, bool) {
				gf.Handle(ctx, pm)
				return "", false
			}})
		}
		implicit := before != nil && len(before.Flow) == 0 || after != nil && len(after.Flow) == 0 || len(main.Flow) == 0
		for _, l := range legs {
			for _, script := range scripts {
				ref := vfRefRun(l.before, main, l.after, script)
				if ref.Consumed > len(script) {
					rt.Fatalf("VF-INCONCLUSIVE script too short")
				}
				obs := vfObserve(script, l.call)
				used := fmt.Sprint(script[:ref.Consumed])
				vfRunClasses(vf, ref, l.mode)
				if implicit {
					vf.Class("implicit-flow")
				}
				nontrivial := ref.JumpSkip > 0 || ref.Reused || ref.Suppressed
				vf.Case(nontrivial, l.mode+"||"+all+"||"+used, func() interface{} {
					return map[string]interface{}{"mode": l.mode, "spec": all, "results": used, "run": obs.String()}
				})
				key, what := vfCompare(ref, obs)
				if key == "" {
					continue
				}
				if l.mode == "GlobalFilter.Handle" && gfImplicit {
					// the differential against HandleWithBeforeAfter on the same three pipelines:
					// is the only difference that a before/after pipeline without explicit flow never ran?
					var b2, a2 *vfPipe
					if before != nil && len(before.Flow) > 0 {
						b2 = before
					}
					if after != nil && len(after.Flow) > 0 {
						a2 = after
					}
					if k2, _ := vfCompare(vfRefRun(b2, main, a2, script), obs); k2 == "" {
						if vf.Violation(rt, vfKeyGFImplicit,
							"GlobalFilter does not run a before/after pipeline that has filters but no explicit flow (a Pipeline with the same spec runs them in definition order)\n%s\nresults %s\nreal:      %s\nreference: %s",
							vfGlobalFilterYAML(before, after), used, obs, ref) {
							continue // known: keep checking the other scripts modulo that defect
						}
					}
				}
				vf.Violation(rt, l.mode+":"+key, "%s\n%s\nresults per invocation %s\nreal:      %s\nreference: %s", what, all, used, obs, ref)
				return
			}
		}
	})
	if !t.Failed() {
		vfHealth(t, vf, map[string]float64{
			"jump-skipping>=1-node":                0.05,
			"jump-skipping-END-node":               0.01,
			"jump-to-aliased-END-node-with-result": 0.01,
			"filter-instance-ran-twice":            0.05,
			"END-suppresses-later-flow":            0.05,
			"non-default-namespace":                0.10,
			"mode=GlobalFilter.Handle":             0.05,
			"stop=result->END":                     0.02,
			"stop=unmapped-result":                 0.05,
			"stop=END-node":                        0.03,
			"stop=ran-off-the-end":                 0.03,
		})
	}
}

// vfHealth: the classes the non-triviality rule depends on must be populated (share of the
// evaluations), else the run is inconclusive ("generator unhealthy"), never green.
func vfHealth(t *testing.T, vf *vfCollector, floors map[string]float64) {
	if vf.Evals < 2000 {
		return // replay of a single case
	}
	names := make([]string, 0, len(floors))
	for k := range floors {
		names = append(names, k)
	}
	sort.Strings(names)
	for _, k := range names {
		if float64(vf.Classes[k]) < floors[k]*float64(vf.Evals) {
			t.Fatalf("VF-INCONCLUSIVE generator unhealthy: class %q has %d of %d evaluations (floor %.0f%%)", k, vf.Classes[k], vf.Evals, floors[k]*100)
		}
	}
}

var _ = strings.Join
