//go:build go1.21

package httpserver

import (
	"bytes"
	"fmt"
	"os"
	"strings"
	"testing"

	"pgregory.net/rapid"
)

const vfC07Default = 4 * 1024 * 1024 // "else 4MB" of the statement

// vfC07Eff: effective limit = inner != 0 ? inner : outer != 0 ? outer : 4 MiB (statement); -1 = unlimited/stream.
func vfC07Eff(inner, outer int64) (eff int64, inherited bool) {
	if inner != 0 {
		return inner, false
	}
	if outer != 0 {
		return outer, true
	}
	return vfC07Default, true
}

func vfC07GenLimit(rt *rapid.T, label string) int64 {
	return rapid.SampledFrom([]int64{0, 0, 0, -1, -1, 1, 17, 17, 1024, 1024, 65536}).Draw(rt, label)
}

func vfC07GenCfg(rt *rapid.T) *vfxCfg {
	c := &vfxCfg{Compression: -1}
	c.ServerClientMax = vfC07GenLimit(rt, "server-clientMax")
	for i := 0; i < 3; i++ {
		c.Paths = append(c.Paths, vfxPathCfg{Prefix: fmt.Sprintf("/p%d", i), ClientMax: vfC07GenLimit(rt, fmt.Sprintf("path%d-clientMax", i))})
	}
	c.ProxyServerMax = vfC07GenLimit(rt, "proxy-serverMax")
	// candidate pool first in the YAML or last: order must not matter (exactly one pool has no filter)
	main := vfxPoolCfg{ServerMax: vfC07GenLimit(rt, "mainpool-serverMax")}
	cand := vfxPoolCfg{ServerMax: vfC07GenLimit(rt, "candpool-serverMax"), FilterValue: "b"}
	if rapid.Bool().Draw(rt, "candidate-first") {
		c.Pools = []vfxPoolCfg{cand, main}
	} else {
		c.Pools = []vfxPoolCfg{main, cand}
	}
	c.ByHostName = rapid.IntRange(0, 3).Draw(rt, "by-hostname") == 0
	return c
}

// vfC07GenSize draws a size around the effective limit.
func vfC07GenSize(rt *rapid.T, eff int64, label string, thorough bool) int {
	if eff < 0 {
		pool := []int{0, 1, 1000, 100000, 300000}
		if thorough || rapid.IntRange(0, 9).Draw(rt, label+"-allow-huge") == 0 {
			pool = append(pool, vfC07Default+1, 5<<20)
		}
		return rapid.SampledFrom(pool).Draw(rt, label+"-size-unlimited")
	}
	e := int(eff)
	pool := []int{0, e - 1, e, e, e + 1, e + 1}
	if e <= 65536 {
		pool = append(pool, 3*e, e+100000)
	} else {
		pool = append(pool, 1000)
	}
	n := rapid.SampledFrom(pool).Draw(rt, label+"-size")
	if n < 0 {
		n = 0
	}
	return n
}

type vfC07Case struct {
	Dir      string // req | resp
	PathIdx  int
	Pool     string // "" main, "b" candidate
	Method   string
	Size     int
	Seed     uint32
	Encoding string // cl | chunked | lying
	LieExtra int
	Chunks   []int
	Split    int
	Status   int
}

func vfC07GenCase(rt *rapid.T, c *vfxCfg, thorough bool) (k vfC07Case, eff int64, inherited bool) {
	k.Dir = rapid.SampledFrom([]string{"req", "resp"}).Draw(rt, "direction")
	k.PathIdx = rapid.IntRange(0, len(c.Paths)-1).Draw(rt, "path")
	k.Pool = rapid.SampledFrom([]string{"", "b"}).Draw(rt, "pool")
	k.Seed = uint32(rapid.IntRange(1, 1<<20).Draw(rt, "bodyseed"))
	k.Encoding = rapid.SampledFrom([]string{"cl", "cl", "chunked", "chunked", "lying"}).Draw(rt, "encoding")
	k.LieExtra = rapid.SampledFrom([]int{1, 1, 100}).Draw(rt, "lie-extra")
	if k.Dir == "req" {
		eff, inherited = vfC07Eff(c.Paths[k.PathIdx].ClientMax, c.ServerClientMax)
		k.Method = rapid.SampledFrom([]string{"POST", "PUT", "PATCH"}).Draw(rt, "method")
		k.Status = rapid.SampledFrom([]int{200, 201, 404}).Draw(rt, "status")
	} else {
		var poolMax int64
		for _, p := range c.Pools {
			if p.FilterValue == k.Pool {
				poolMax = p.ServerMax
			}
		}
		eff, inherited = vfC07Eff(poolMax, c.ProxyServerMax)
		k.Method = "GET"
		k.Status = rapid.SampledFrom([]int{200, 200, 203, 404, 503}).Draw(rt, "status")
	}
	k.Size = vfC07GenSize(rt, eff, k.Dir, thorough)
	if k.Encoding == "chunked" {
		n := rapid.IntRange(0, 3).Draw(rt, "nchunks")
		for i := 0; i < n; i++ {
			k.Chunks = append(k.Chunks, rapid.IntRange(1, 70000).Draw(rt, "chunk"))
		}
		k.Split = rapid.IntRange(0, 70000).Draw(rt, "split")
	}
	return
}

func TestVerifC07Limits(t *testing.T) {
	vf := vfBegin(t, "C07")
	defer vf.End()
	thorough := os.Getenv("VERIF_TIER") == "thorough"
	rapid.Check(t, func(rt *rapid.T) {
		cfg := vfC07GenCfg(rt)
		rig, err := vfxNewRig(cfg)
		if err != nil {
			rt.Fatalf("VF-INCONCLUSIVE cannot build the rig (configuration rejected by the acceptance path, or no listener): %v", err)
		}
		defer rig.Close()
		nreq := rapid.IntRange(1, 6).Draw(rt, "nreq")
		for i := 0; i < nreq; i++ {
			k, eff, inherited := vfC07GenCase(rt, cfg, thorough)
			body := vfxBody(k.Seed, k.Size, int(k.Seed)&1)
			q := &vfxRequest{Method: k.Method, Target: fmt.Sprintf("/p%d/x?i=%d", k.PathIdx, i), Host: "c07.vf.test", Framing: "none"}
			if k.Pool != "" {
				q.Headers = append(q.Headers, [2]string{"X-Vf-Pool", k.Pool})
			}
			sc := &vfxScript{Status: k.Status, Framing: "cl", Headers: [][2]string{{"X-Vf-R", "1"}}}
			if k.Dir == "req" {
				q.Body, q.Framing, q.Chunks = body, k.Encoding, k.Chunks
				if k.Encoding == "lying" {
					q.LieExtra = k.LieExtra
				}
			} else {
				sc.Body, sc.Framing, sc.Split, sc.LieExtra = body, k.Encoding, k.Split, k.LieExtra
			}
			resp, seen, frontLog, transient, err := rig.exchange(q, sc)
			if err != nil {
				if err == errVfxTimeout {
					rt.Fatalf("VF-INCONCLUSIVE no complete response within %v for %s", vfxIOTimeout, q)
				}
				rt.Fatalf("VF-INCONCLUSIVE client I/O problem: %v", err)
			}
			if transient {
				vf.Class("transient-503-without-backend-contact-retried")
			}

			declared := int64(k.Size)
			if k.Encoding == "lying" {
				declared += int64(k.LieExtra)
			}
			over := eff >= 0 && int64(k.Size) > eff
			declaredOver := eff >= 0 && declared > eff
			near := eff >= 0 && int64(k.Size) >= eff-1 && int64(k.Size) <= eff+1
			nontrivial := near || inherited || k.Encoding == "chunked"
			effName := fmt.Sprint(eff)
			if eff == vfC07Default {
				effName = "default-4MiB"
			}
			vf.Class("dir="+k.Dir, k.Dir+"-encoding="+k.Encoding, k.Dir+"-eff="+effName, fmt.Sprintf("client-status=%d", resp.Status))
			for n, on := range map[string]bool{k.Dir + "-size=limit": eff >= 0 && int64(k.Size) == eff, k.Dir + "-size=limit+1": eff >= 0 && int64(k.Size) == eff+1,
				k.Dir + "-size=limit-1": eff > 0 && int64(k.Size) == eff-1, k.Dir + "-size>>limit": eff >= 0 && int64(k.Size) > eff+1, k.Dir + "-inherited": inherited,
				k.Dir + "-over": over, k.Dir + "-stream": eff < 0, k.Dir + "-inner-overrides-outer": !inherited && ((k.Dir == "req" && cfg.ServerClientMax != 0) || (k.Dir == "resp" && cfg.ProxyServerMax != 0)),
				"candidate-pool": k.Pool != "", "size>4MiB": k.Size > vfC07Default} {
				if on {
					vf.Class(n)
				}
			}
			desc := fmt.Sprintf("cfg{%s}\ncase{%+v effective-limit=%d inherited=%v}\nrequest{%s}", strings.ReplaceAll(rig.pipeYAML+rig.srvYAML, "\n", "; "), k, eff, inherited, q)
			vf.Case(nontrivial, fmt.Sprintf("%+v|%+v", *cfg, k), func() interface{} {
				return map[string]interface{}{"case": desc, "backend_contacts": len(seen), "client_received": resp.String()}
			})
			fail := func(key, format string, a ...interface{}) bool {
				if ps := vfxPanicSite(frontLog); ps != "" {
					key = "handler-panic " + ps
				}
				if len(frontLog) > 3000 {
					frontLog = frontLog[:3000] + "…"
				}
				return vf.Violation(rt, key, "%s\n%s\nbackend received: %v\nclient received: %s\nfront server log: %s", fmt.Sprintf(format, a...), desc, seen, resp, frontLog)
			}
			noResponse := resp.Status == 0

			if k.Dir == "req" {
				switch {
				case k.Encoding == "lying":
					// fewer bytes than declared, then the client half-closes
					if declaredOver {
						vf.Class("ambiguous-declared-over-limit-but-short")
					}
					if !noResponse && resp.Status < 400 {
						if fail("req-short-declared-body-success", "request declared %d body bytes, sent %d and closed: client got %d, not an error status", declared, k.Size, resp.Status) {
							rig.dropConn()
							continue
						}
					}
					if declaredOver && len(seen) != 0 {
						if fail("req-over-limit-reached-backend", "declared length %d exceeds the effective clientMaxBodySize %d but the backend was contacted %d times", declared, eff, len(seen)) {
							rig.dropConn()
							continue
						}
					}
					for _, s := range seen {
						if s.BodyErr == nil {
							if fail("req-short-declared-body-forwarded-as-complete", "request declared %d body bytes, sent %d and closed, yet the backend read a complete body of %d bytes", declared, k.Size, len(s.Body)) {
								break
							}
						}
					}
				case over:
					if resp.Status != 413 {
						if fail("req-over-limit-not-413", "request body of %d bytes (%s) exceeds the effective clientMaxBodySize %d: client got %d, want 413", k.Size, k.Encoding, eff, resp.Status) {
							rig.dropConn()
							continue
						}
					}
					if len(seen) != 0 {
						if fail("req-over-limit-reached-backend", "request body of %d bytes (%s) exceeds the effective clientMaxBodySize %d but the backend was contacted %d times", k.Size, k.Encoding, eff, len(seen)) {
							rig.dropConn()
							continue
						}
					}
				default:
					if len(seen) == 0 || resp.Status != k.Status {
						key := "req-within-limit-rejected"
						if eff < 0 {
							key = "req-stream-rejected"
						}
						if fail(key, "request body of %d bytes (%s) is within the effective clientMaxBodySize %d: backend contacts %d, client got %d (backend answers %d)", k.Size, k.Encoding, eff, len(seen), resp.Status, k.Status) {
							rig.dropConn()
							continue
						}
					}
					s := seen[len(seen)-1]
					if s.BodyErr != nil || !bytes.Equal(s.Body, body) {
						if fail("req-body-altered", "request body of %d bytes (%s) within the limit %d reached the backend as %s (read error %v), sent %s", k.Size, k.Encoding, eff, vfxBrief(s.Body), s.BodyErr, vfxBrief(body)) {
							rig.dropConn()
							continue
						}
					}
				}
				continue
			}

			// response direction
			deliveredSome := len(resp.Body) > 0 && len(body) > 0 && bytes.HasPrefix(body, resp.Body)
			switch {
			case k.Encoding == "lying":
				if declaredOver {
					vf.Class("ambiguous-declared-over-limit-but-short")
				}
				if noResponse || resp.Status >= 400 {
					break
				}
				if eff < 0 && resp.FramingErr != "" && resp.Status == k.Status {
					// streamed: the status line was gone before the backend broke its promise; the
					// client can tell from the framing that the body is incomplete
					vf.Class("ambiguous-stream-short-body-detectable-abort")
					break
				}
				if fail("resp-short-declared-body-success", "backend declared %d body bytes, sent %d and closed: client got a well-framed %d with %s", declared, k.Size, resp.Status, vfxBrief(resp.Body)) {
					rig.dropConn()
					continue
				}
			case over:
				if resp.Status < 500 || resp.Status > 599 {
					if fail("resp-over-limit-not-5xx", "backend body of %d bytes (%s) exceeds the effective serverMaxBodySize %d: client got %d, want 5xx", k.Size, k.Encoding, eff, resp.Status) {
						rig.dropConn()
						continue
					}
				}
				if deliveredSome {
					if fail("resp-over-limit-body-delivered", "backend body of %d bytes (%s) exceeds the effective serverMaxBodySize %d but %d of its bytes were delivered", k.Size, k.Encoding, eff, len(resp.Body)) {
						rig.dropConn()
						continue
					}
				}
			default:
				if resp.Status != k.Status {
					key := "resp-within-limit-not-delivered"
					if eff < 0 {
						key = "resp-stream-not-delivered"
					}
					if fail(key, "backend body of %d bytes (%s) is within the effective serverMaxBodySize %d: client got %d, backend answered %d", k.Size, k.Encoding, eff, resp.Status, k.Status) {
						rig.dropConn()
						continue
					}
				}
				if resp.FramingErr != "" || !bytes.Equal(resp.Body, body) {
					if fail("resp-body-altered", "backend body of %d bytes (%s) within the limit %d arrived as %s (framing: %q)", k.Size, k.Encoding, eff, vfxBrief(resp.Body), resp.FramingErr) {
						rig.dropConn()
						continue
					}
				}
			}
		}
	})
}
