//go:build go1.21

package httpserver

import (
	"bytes"
	"fmt"
	"os"
	"strings"
	"testing"

	"pgregory.net/rapid"
)

const vfC07Default = 4 * 1024 * 1024 // "else 4MB" of the statement

// vfC07Eff: effective limit = inner != 0 ? inner : outer != 0 ? outer : 4 MiB (statement); -1 = unlimited/stream.
func vfC07Eff(inner, outer int64) (eff int64, inherited bool) {
	if inner != 0 {
		return inner, false
	}
	if outer != 0 {
		return outer, true
	}
	return vfC07Default, true
}

func vfC07GenLimit(rt *rapid.T, label string) int64 {
	return rapid.SampledFrom([]int64{0, 0, 0, -1, -1, 1, 17, 17, 1024, 1024, 65536}).Draw(rt, label)
}

func vfC07GenCfg(rt *rapid.T) *vfxCfg {
	c := &vfxCfg{Compression: -1}
	c.ServerClientMax = vfC07GenLimit(rt, "server-clientMax")
	for i := 0; i < 3; i++ {
		c.Paths = append(c.Paths, vfxPathCfg{Prefix: fmt.Sprintf("/p%d", i), ClientMax: vfC07GenLimit(rt, fmt.Sprintf("path%d-clientMax", i))})
	}
	// a fourth path whose backend answers by itself (Mock filter) and never looks at the request
	// context or the body: what the mux decides about the body is then all that protects it
	c.Paths = append(c.Paths, vfxPathCfg{Prefix: "/p3", ClientMax: vfC07GenLimit(rt, "localpath-clientMax"), Local: true})
	c.ProxyServerMax = vfC07GenLimit(rt, "proxy-serverMax")
	// candidate pool first in the YAML or last: order must not matter (exactly one pool has no filter)
	main := vfxPoolCfg{ServerMax: vfC07GenLimit(rt, "mainpool-serverMax")}
	cand := vfxPoolCfg{ServerMax: vfC07GenLimit(rt, "candpool-serverMax"), FilterValue: "b"}
	if rapid.Bool().Draw(rt, "candidate-first") {
		c.Pools = []vfxPoolCfg{cand, main}
	} else {
		c.Pools = []vfxPoolCfg{main, cand}
	}
	c.ByHostName = rapid.IntRange(0, 3).Draw(rt, "by-hostname") == 0
	// the route cache must not change any limit; proxy compression must not turn a short or
	// oversized backend body into a success
	c.CacheSize = rapid.SampledFrom([]uint32{0, 2, 2, 1000, 1000}).Draw(rt, "route-cacheSize")
	c.Compression = rapid.SampledFrom([]int{-1, -1, -1, 0, 10}).Draw(rt, "compression-minLength")
	// a retry must not turn a streamed upload into an empty one
	if a := rapid.SampledFrom([]int{0, 0, 2, 3}).Draw(rt, "retry-attempts"); a > 0 {
		c.RetryAttempts, c.FailureCodes = a, []int{502, 503}
	}
	// a memoryCache must never hand out a response the current limits would withhold
	if rapid.Bool().Draw(rt, "memoryCache") {
		c.MemCache = &vfxMemCache{Expiration: "1h",
			MaxEntryBytes: rapid.SampledFrom([]int{2000, 1 << 20, 1 << 20}).Draw(rt, "maxEntryBytes"),
			Codes:         rapid.SampledFrom([][]int{{200, 203, 404, 503}, {200, 203, 404, 503}, {200}}).Draw(rt, "cache-codes"),
			Methods:       []string{"GET"}}
		// pools that take their limit from the proxy level are the interesting ones across updates
		for i := range c.Pools {
			if rapid.Bool().Draw(rt, "memoryCache-pool-inherits-limit") {
				c.Pools[i].ServerMax = 0
			}
		}
	}
	// a mirrorPool gets a copy of the requests that carry the mirror header; it must never eat the
	// body the selected backend is owed (one-shot stream bodies in particular)
	c.Mirror = rapid.IntRange(0, 1).Draw(rt, "mirrorPool") == 0
	if c.Mirror && rapid.Bool().Draw(rt, "mirror-with-streaming-upload-path") {
		c.Paths[rapid.IntRange(0, len(c.Paths)-1).Draw(rt, "streaming-upload-path")].ClientMax = -1
	}
	return c
}

// vfC07PrevServerGen draws an earlier generation of the HTTPServer spec (other clientMaxBodySize
// at server level, some paths with another or no own limit): the rig loads it first and then
// reloads the mux with the spec under test, the way an update of the HTTPServer object does. Only
// the limits of the generation that serves a request count.
func vfC07PrevServerGen(rt *rapid.T, c *vfxCfg) *vfxCfg {
	n := *c
	n.Paths = append([]vfxPathCfg(nil), c.Paths...)
	// mostly a non-zero server-level value different from the current one
	for tries := 0; tries < 4; tries++ {
		n.ServerClientMax = rapid.SampledFrom([]int64{-1, 1, 17, 1024, 65536, 65536, 0}).Draw(rt, "prev-server-clientMax")
		if n.ServerClientMax != c.ServerClientMax {
			break
		}
	}
	for i := range n.Paths {
		if rapid.Bool().Draw(rt, "prev-path-differs") {
			n.Paths[i].ClientMax = vfC07GenLimit(rt, fmt.Sprintf("prev-path%d-clientMax", i))
		}
	}
	return &n
}

// vfC07UpdatedServerCfg draws the next generation of the HTTPServer spec for a request-direction
// case: another clientMaxBodySize at server level or on the path the case uses.
func vfC07UpdatedServerCfg(rt *rapid.T, c *vfxCfg, pathIdx, size int) (*vfxCfg, string) {
	n := *c
	n.Paths = append([]vfxPathCfg(nil), c.Paths...)
	lim := rapid.SampledFrom([]int64{1, 17, 1024, 65536, -1, 0, int64(size) - 1, int64(size) - 1, int64(size), int64(size) + 1}).Draw(rt, "updated-client-limit")
	if lim < -1 {
		lim = 1
	}
	what := rapid.SampledFrom([]string{"server-clientMax", "server-clientMax", "path-clientMax", "server-and-path-clientMax"}).Draw(rt, "updated-server-level")
	switch what {
	case "server-clientMax":
		n.ServerClientMax = lim
	case "path-clientMax":
		n.Paths[pathIdx].ClientMax = lim
	default:
		// the path gives up (or gets) its own limit while the server-level value changes
		n.ServerClientMax = lim
		if n.Paths[pathIdx].ClientMax != 0 {
			n.Paths[pathIdx].ClientMax = 0
		} else {
			n.Paths[pathIdx].ClientMax = vfC07GenLimit(rt, "updated-path-clientMax")
		}
	}
	return &n, what
}

// vfC07UpdatedCfg draws the next generation of the pipeline: changed serverMaxBodySize at proxy
// level (pool specs untouched) or at the level of the pool the case uses.
func vfC07UpdatedCfg(rt *rapid.T, c *vfxCfg, pool string, size int) (*vfxCfg, string) {
	n := *c
	n.Pools = append([]vfxPoolCfg(nil), c.Pools...)
	lim := rapid.SampledFrom([]int64{1, 17, 1024, 65536, -1, 0, int64(size) - 1, int64(size) - 1, int64(size) - 1, int64(size)}).Draw(rt, "updated-limit")
	if lim < -1 {
		lim = 1
	}
	what := rapid.SampledFrom([]string{"proxy", "proxy", "proxy", "pool"}).Draw(rt, "updated-level")
	if what == "proxy" {
		n.ProxyServerMax = lim
	} else {
		for i := range n.Pools {
			if n.Pools[i].FilterValue == pool {
				n.Pools[i].ServerMax = lim
			}
		}
	}
	return &n, what
}

// vfC07GenSize draws a size around the effective limit.
func vfC07GenSize(rt *rapid.T, eff int64, label string, thorough bool) int {
	if eff < 0 {
		pool := []int{0, 1, 1000, 100000, 300000}
		odds := 9
		if thorough {
			odds = 2
		}
		if rapid.IntRange(0, odds).Draw(rt, label+"-allow-huge") == 0 {
			pool = append(pool, vfC07Default+1, 5<<20)
		}
		return rapid.SampledFrom(pool).Draw(rt, label+"-size-unlimited")
	}
	e := int(eff)
	pool := []int{0, e - 1, e, e, e + 1, e + 1}
	if e <= 65536 {
		pool = append(pool, 3*e, e+100000)
	} else {
		pool = []int{0, 1000, 1000, 1000, e - 1, e, e + 1} // the 4 MiB default: fewer of the expensive boundary bodies
	}
	n := rapid.SampledFrom(pool).Draw(rt, label+"-size")
	if n < 0 {
		n = 0
	}
	return n
}

type vfC07Case struct {
	Dir          string // req | resp
	PathIdx      int
	Pool         string // "" main, "b" candidate
	Method       string
	Size         int
	Seed         uint32
	Encoding     string // cl | chunked | lying | cut (response direction: chunked body torn in a chunk, or its terminating chunk missing)
	CutAt        int    // cut: bytes of the body that leave the backend before it drops the connection (-1: all of them, only the terminating chunk is missing)
	Mirrored     bool   // the request carries the header the mirrorPool matches
	Local        bool   // request direction: the path's backend is the local Mock pipeline
	LieExtra     int
	Chunks       []int
	Split        int
	Status       int
	Pre          []int  // request direction, within the limit: the first attempts fail (502/503, or 0 = connection dropped after the request was read)
	CType        string // Content-Type of the backend's response ("" = whatever net/http sniffs)
	UpdateAt     int    // >= 1: the pipeline is hot-updated (new limits) before this repetition; 0 = no update
	ServerUpdate bool   // request direction: the update is one of the HTTPServer spec (clientMaxBodySize at server or path level)
	AcceptEn     string // client Accept-Encoding ("" = none)
	Reps         int    // the same request (same route-cache key) is sent this many times
}

func vfC07GenCase(rt *rapid.T, c *vfxCfg, thorough bool) (k vfC07Case, eff int64, inherited bool) {
	k.Dir = rapid.SampledFrom([]string{"req", "resp"}).Draw(rt, "direction")
	k.PathIdx = rapid.IntRange(0, len(c.Paths)-2).Draw(rt, "path") // the last path is the local one
	if k.Dir == "req" && rapid.IntRange(0, 2).Draw(rt, "local-backend-path") == 0 {
		k.PathIdx = len(c.Paths) - 1
	}
	k.Local = c.Paths[k.PathIdx].Local
	k.Pool = rapid.SampledFrom([]string{"", "b"}).Draw(rt, "pool")
	k.Seed = uint32(rapid.IntRange(1, 1<<20).Draw(rt, "bodyseed"))
	k.Encoding = rapid.SampledFrom([]string{"cl", "cl", "chunked", "chunked", "lying"}).Draw(rt, "encoding")
	k.LieExtra = rapid.SampledFrom([]int{1, 1, 100}).Draw(rt, "lie-extra")
	if k.Dir == "req" && rapid.IntRange(0, 5).Draw(rt, "client-cuts-chunked-upload") == 0 {
		// a chunked upload that is torn: the client half-closes where the terminating chunk should
		// come, or inside a chunk (the last chunk announces LieExtra more bytes than are sent)
		k.Encoding = "cut"
		k.CutAt = -1
		if rapid.Bool().Draw(rt, "upload-torn-inside-chunk") {
			k.CutAt = 0 // 0: torn inside the last chunk
		}
	}
	if c.Mirror && !k.Local {
		k.Mirrored = rapid.IntRange(0, 3).Draw(rt, "mirrored") != 0
	}
	if k.Dir == "req" {
		eff, inherited = vfC07Eff(c.Paths[k.PathIdx].ClientMax, c.ServerClientMax)
		k.Method = rapid.SampledFrom([]string{"POST", "PUT", "PATCH"}).Draw(rt, "method")
		k.Status = rapid.SampledFrom([]int{200, 201, 404}).Draw(rt, "status")
	} else {
		var poolMax int64
		for _, p := range c.Pools {
			if p.FilterValue == k.Pool {
				poolMax = p.ServerMax
			}
		}
		eff, inherited = vfC07Eff(poolMax, c.ProxyServerMax)
		k.Method = "GET"
		k.Status = rapid.SampledFrom([]int{200, 200, 203, 404, 503}).Draw(rt, "status")
	}
	k.Size = vfC07GenSize(rt, eff, k.Dir, thorough)
	if k.Dir == "req" && k.Encoding == "cut" && eff >= 0 && eff <= 65536 && rapid.Bool().Draw(rt, "upload-torn-after-exactly-limit-bytes") {
		k.Size = int(eff) // where the limit check itself stops reading: only the probe behind it can notice the tear
	}
	if k.Local && eff < 0 && (k.Encoding == "lying" || k.Encoding == "cut") {
		k.Encoding = "chunked" // a streamed body nobody reads: its shortfall cannot be known to anybody
	}
	if k.Dir == "resp" && k.Size > 0 && rapid.IntRange(0, 7).Draw(rt, "backend-cuts-chunked-body") == 0 {
		// the backend promises a chunked body and drops the connection before it is complete
		k.Encoding = "cut"
		k.CutAt = rapid.SampledFrom([]int{-1, -1, 0, k.Size / 2, k.Size - 1, k.Size - 1}).Draw(rt, "cut-at")
	}
	k.Reps = rapid.SampledFrom([]int{1, 2, 2, 3}).Draw(rt, "repetitions")
	k.CType = rapid.SampledFrom([]string{"", "text/plain", "application/json", "application/octet-stream", "text/event-stream", "text/event-stream; charset=utf-8",
		"Text/Event-Stream", "text/html", "application/grpc", "multipart/form-data; boundary=vfb"}).Draw(rt, "backend-content-type")
	if k.Dir == "req" && !k.Local && c.RetryAttempts > 0 && k.Encoding != "lying" && k.Encoding != "cut" && (eff < 0 || int64(k.Size) <= eff) && rapid.Bool().Draw(rt, "failing-attempts") {
		n := rapid.IntRange(1, c.RetryAttempts-1).Draw(rt, "nfailing")
		for j := 0; j < n; j++ {
			k.Pre = append(k.Pre, rapid.SampledFrom([]int{503, 502, 0}).Draw(rt, "failure-kind"))
		}
	}
	updOdds := 9
	if c.MemCache != nil && k.Dir == "resp" {
		updOdds = 1
	}
	if k.Dir == "req" {
		updOdds = 3
	}
	if rapid.IntRange(0, updOdds).Draw(rt, "hot-update") == 0 {
		if k.Reps < 2 {
			k.Reps = 2
		}
		k.UpdateAt = rapid.IntRange(1, k.Reps-1).Draw(rt, "update-before-repetition")
		k.ServerUpdate = k.Dir == "req" && rapid.IntRange(0, 3).Draw(rt, "update-of-server-spec") != 0
	}
	if k.Size > 1<<20 && k.Reps > 2 {
		k.Reps = 2 // multi-megabyte bodies: at most one repetition
	}
	if k.Dir == "resp" {
		k.AcceptEn = rapid.SampledFrom([]string{"", "gzip", "identity"}).Draw(rt, "accept-encoding")
	} else if c.Compression >= 0 {
		k.AcceptEn = "identity" // keeps the (empty) response of request-direction cases out of the compressor
	}
	if k.Encoding == "chunked" || (k.Encoding == "cut" && k.Dir == "req") {
		n := rapid.IntRange(0, 3).Draw(rt, "nchunks")
		for i := 0; i < n; i++ {
			k.Chunks = append(k.Chunks, rapid.IntRange(1, 70000).Draw(rt, "chunk"))
		}
		k.Split = rapid.IntRange(0, 70000).Draw(rt, "split")
	}
	return
}

func TestVerifC07Limits(t *testing.T) {
	vf := vfBegin(t, "C07")
	defer vf.End()
	thorough := os.Getenv("VERIF_TIER") == "thorough"
	rapid.Check(t, func(rt *rapid.T) {
		cfg := vfC07GenCfg(rt)
		first := cfg
		var prev *vfxCfg
		if rapid.IntRange(0, 2).Draw(rt, "server-spec-loaded-before") != 0 {
			prev = vfC07PrevServerGen(rt, cfg)
			first = prev
		}
		rig, err := vfxNewRig(first)
		if err != nil {
			rt.Fatalf("VF-INCONCLUSIVE cannot build the rig (configuration rejected by the acceptance path, or no listener): %v", err)
		}
		defer rig.Close()
		if prev != nil {
			if err := rig.updateServer(cfg); err != nil {
				rt.Fatalf("VF-INCONCLUSIVE update of the HTTPServer spec rejected: %v", err)
			}
		}
		nreq := rapid.IntRange(1, 5).Draw(rt, "nreq")
		for i := 0; i < nreq; i++ {
			k, eff, inherited := vfC07GenCase(rt, cfg, thorough)
			body := vfxBody(k.Seed, k.Size, int(k.Seed)&1)
			// the repetitions of a case share host + method + path, i.e. the key of the route cache
			// and of the memoryCache; different cases get different paths
			q := &vfxRequest{Method: k.Method, Target: fmt.Sprintf("/p%d/c%d?i=%d", k.PathIdx, i, i), Host: "c07.vf.test", Framing: "none"}
			if k.Pool != "" {
				q.Headers = append(q.Headers, [2]string{"X-Vf-Pool", k.Pool})
			}
			if k.Mirrored {
				q.Headers = append(q.Headers, [2]string{vfxMirrorHeader, "1"})
			}
			if k.AcceptEn != "" {
				q.Headers = append(q.Headers, [2]string{"Accept-Encoding", k.AcceptEn})
			}
			sc := &vfxScript{Status: k.Status, Framing: "cl", Headers: [][2]string{{"X-Vf-R", "1"}}, Pre: k.Pre}
			if k.CType != "" {
				sc.Headers = append(sc.Headers, [2]string{"Content-Type", k.CType})
			}
			if k.Dir == "req" {
				q.Body, q.Framing, q.Chunks = body, k.Encoding, k.Chunks
				if k.Encoding == "lying" {
					q.LieExtra = k.LieExtra
				}
				if k.Encoding == "cut" {
					q.Framing, q.CutTornChunk, q.LieExtra = "chunked-cut", k.CutAt == 0, k.LieExtra
				}
			} else {
				sc.Body, sc.Framing, sc.Split, sc.LieExtra = body, k.Encoding, k.Split, k.LieExtra
				if k.Encoding == "cut" {
					sc.CutAt, sc.CutNoTerminator = k.CutAt, k.CutAt < 0
				}
			}
			for rep := 0; rep < k.Reps; rep++ {
				if k.UpdateAt > 0 && rep == k.UpdateAt && k.Dir == "req" && k.ServerUpdate {
					// a new generation of the HTTPServer spec: the limits of the generation that serves
					// the request count
					old := cfg
					ncfg, what := vfC07UpdatedServerCfg(rt, cfg, k.PathIdx, k.Size)
					if err := rig.updateServer(ncfg); err != nil {
						rt.Fatalf("VF-INCONCLUSIVE update of the HTTPServer spec rejected: %v", err)
					}
					cfg, prev = ncfg, old
					vf.Class("hot-update:" + what)
					eff, inherited = vfC07Eff(cfg.Paths[k.PathIdx].ClientMax, cfg.ServerClientMax)
				} else if k.UpdateAt > 0 && rep == k.UpdateAt {
					ncfg, what := vfC07UpdatedCfg(rt, cfg, k.Pool, k.Size)
					if err := rig.update(ncfg); err != nil {
						rt.Fatalf("VF-INCONCLUSIVE hot update rejected: %v", err)
					}
					cfg = ncfg
					vf.Class("hot-update:" + what)
					if k.Dir == "resp" {
						var poolMax int64
						for _, p := range cfg.Pools {
							if p.FilterValue == k.Pool {
								poolMax = p.ServerMax
							}
						}
						old := eff
						eff, inherited = vfC07Eff(poolMax, cfg.ProxyServerMax)
						if cfg.MemCache != nil && old >= 0 && int64(k.Size) <= old && eff >= 0 && int64(k.Size) > eff {
							vf.Class("hot-update:limit-lowered-below-cached-response")
						}
					}
				}
				if !vfC07Judge(rt, vf, rig, cfg, prev, k, eff, inherited, rep, q, sc, body) {
					rig.dropConn()
				}
			}
		}
	})
}

// vfC07Judge sends one request and applies the statement's table. It returns false when a listed
// known finding was hit (the exchange is abandoned).
func vfC07Judge(rt *rapid.T, vf *vfCollector, rig *vfxRig, cfg, prev *vfxCfg, k vfC07Case, eff int64, inherited bool, rep int, q *vfxRequest, sc *vfxScript, body []byte) bool {
	resp, seen, frontLog, transient, err := rig.exchange(q, sc)
	if err != nil {
		if err == errVfxTimeout {
			rt.Fatalf("VF-INCONCLUSIVE no complete response within %v for %s", vfxIOTimeout, q)
		}
		rt.Fatalf("VF-INCONCLUSIVE client I/O problem: %v", err)
	}
	if transient {
		vf.Class("transient-503-without-backend-contact-retried")
	}

	declared := int64(k.Size)
	if k.Encoding == "lying" {
		declared += int64(k.LieExtra)
	}
	over := eff >= 0 && int64(k.Size) > eff
	declaredOver := eff >= 0 && declared > eff
	near := eff >= 0 && int64(k.Size) >= eff-1 && int64(k.Size) <= eff+1
	nontrivial := near || inherited || k.Encoding == "chunked" || k.Encoding == "cut"
	// the limit of the path comes from the server level and the generation loaded before had
	// another server-level value
	reloadedOuter := k.Dir == "req" && prev != nil && cfg.Paths[k.PathIdx].ClientMax == 0 && prev.ServerClientMax != cfg.ServerClientMax
	mirrorCopies := 0
	if k.Mirrored {
		mirrorCopies = len(rig.mirrored())
	}
	effName := fmt.Sprint(eff)
	if eff == vfC07Default {
		effName = "default-4MiB"
	}
	// proxy compression applies (documented rule): client accepts gzip, declared length unknown or >= minLength
	lengthKnown := declared
	if k.Encoding == "chunked" || k.Encoding == "cut" {
		lengthKnown = -1
	}
	compressed := k.Dir == "resp" && cfg.Compression >= 0 && (k.AcceptEn == "" || k.AcceptEn == "gzip") &&
		(lengthKnown == -1 || lengthKnown >= int64(cfg.Compression))
	vf.Class("dir="+k.Dir, k.Dir+"-encoding="+k.Encoding, k.Dir+"-eff="+effName, fmt.Sprintf("client-status=%d", resp.Status), fmt.Sprintf("route-cacheSize=%d", cfg.CacheSize))
	for n, on := range map[string]bool{k.Dir + "-size=limit": eff >= 0 && int64(k.Size) == eff, k.Dir + "-size=limit+1": eff >= 0 && int64(k.Size) == eff+1,
		k.Dir + "-size=limit-1": eff > 0 && int64(k.Size) == eff-1, k.Dir + "-size>>limit": eff >= 0 && int64(k.Size) > eff+1, k.Dir + "-inherited": inherited,
		k.Dir + "-over": over, k.Dir + "-stream": eff < 0, k.Dir + "-inner-overrides-outer": !inherited && ((k.Dir == "req" && cfg.ServerClientMax != 0) || (k.Dir == "resp" && cfg.ProxyServerMax != 0)),
		"candidate-pool": k.Pool != "", "size>4MiB": k.Size > vfC07Default, "repeated-route-key": rep > 0, "repeated-route-key-cache-on": rep > 0 && cfg.CacheSize > 0,
		"repeated-over-limit-request-cache-on": rep > 0 && cfg.CacheSize > 0 && k.Dir == "req" && over, "repeated-stream-request-cache-on": rep > 0 && cfg.CacheSize > 0 && k.Dir == "req" && eff < 0,
		"retry-policy": cfg.RetryAttempts > 0, "req-failing-attempts": len(k.Pre) > 0, "req-failing-attempts-stream-chunked": len(k.Pre) > 0 && eff < 0 && k.Encoding == "chunked" && k.Size > 0,
		"resp-content-type=" + k.CType: k.Dir == "resp", "resp-event-stream-chunked-over-limit": k.Dir == "resp" && strings.HasPrefix(strings.ToLower(k.CType), "text/event-stream") && k.Encoding == "chunked" && over,
		"memoryCache": cfg.MemCache != nil, "after-hot-update": k.UpdateAt > 0 && rep >= k.UpdateAt, "resp-memoryCache-repeated": cfg.MemCache != nil && k.Dir == "resp" && rep > 0,
		"resp-memoryCache-hit(backend-not-contacted)": cfg.MemCache != nil && k.Dir == "resp" && rep > 0 && len(seen) == 0,
		"resp-compressed": compressed, "resp-compressed-lying": compressed && k.Encoding == "lying", "resp-compressed-over": compressed && over,
		"req-local-backend(mock)": k.Local, "req-local-backend-short-declared-body": k.Local && k.Encoding == "lying", "req-local-backend-chunked-upload-cut": k.Local && k.Encoding == "cut",
		"req-local-backend-chunked-upload-cut-after-exactly-limit-bytes": k.Local && k.Encoding == "cut" && eff >= 0 && int64(k.Size) == eff,
		"req-chunked-upload-cut": k.Dir == "req" && k.Encoding == "cut", "req-chunked-upload-cut:terminating-chunk-missing": k.Dir == "req" && k.Encoding == "cut" && k.CutAt < 0, "req-chunked-upload-cut:torn-inside-chunk": k.Dir == "req" && k.Encoding == "cut" && k.CutAt == 0,
		"req-chunked-upload-cut-after-exactly-limit-bytes": k.Dir == "req" && k.Encoding == "cut" && eff >= 0 && int64(k.Size) == eff, "req-chunked-upload-cut-after-limit-1-bytes": k.Dir == "req" && k.Encoding == "cut" && eff > 0 && int64(k.Size) == eff-1,
		"req-chunked-upload-cut-after-limit+1-bytes": k.Dir == "req" && k.Encoding == "cut" && eff >= 0 && int64(k.Size) == eff+1, "req-chunked-upload-cut-stream": k.Dir == "req" && k.Encoding == "cut" && eff < 0,
		"resp-chunked-body-cut": k.Dir == "resp" && k.Encoding == "cut", "resp-chunked-body-cut:only-terminating-chunk-missing": k.Dir == "resp" && k.Encoding == "cut" && k.CutAt < 0,
		"resp-chunked-body-cut-buffered-below-limit": k.Dir == "resp" && k.Encoding == "cut" && eff >= 0 && !over, "resp-chunked-body-cut-stream": k.Dir == "resp" && k.Encoding == "cut" && eff < 0,
		"mirrorPool": cfg.Mirror, "mirrored-request": k.Mirrored, "mirrored-request:copy-seen-by-mirror-server": mirrorCopies > 0, "mirrored-request:copy-not-seen-within-join-wait": k.Mirrored && len(seen) > 0 && mirrorCopies == 0,
		"req-mirrored-with-body": k.Dir == "req" && k.Mirrored && k.Size > 0, "req-mirrored-stream-with-body": k.Dir == "req" && k.Mirrored && eff < 0 && k.Size > 0 && k.Encoding != "lying",
		"server-spec-reloaded": prev != nil, "req-after-server-spec-reload": k.Dir == "req" && prev != nil,
		"req-limit-from-server-level-changed-by-reload": reloadedOuter, "req-limit-from-server-level-changed-by-reload(previous-non-zero)": reloadedOuter && prev.ServerClientMax != 0,
		"req-path-own-limit-changed-by-reload": k.Dir == "req" && prev != nil && prev.Paths[k.PathIdx].ClientMax != cfg.Paths[k.PathIdx].ClientMax,
		"after-hot-update-of-server-spec":      k.ServerUpdate && k.UpdateAt > 0 && rep >= k.UpdateAt} {
		if on {
			vf.Class(n)
		}
	}
	desc := fmt.Sprintf("cfg{%s}\ncase{%+v effective-limit=%d inherited=%v repetition=%d}\nrequest{%s}", strings.ReplaceAll(rig.pipeYAML+rig.srvYAML, "\n", "; "), k, eff, inherited, rep, q)
	vf.Case(nontrivial, fmt.Sprintf("%+v|%+v|%d", *cfg, k, rep), func() interface{} {
		return map[string]interface{}{"case": desc, "backend_contacts": len(seen), "client_received": resp.String()}
	})
	fail := func(key, format string, a ...interface{}) bool {
		if ps := vfxPanicSite(frontLog); ps != "" {
			key = "handler-panic " + ps
		}
		if cfg.Mirror && rig.mirroredBefore && resp.Status == 503 && k.Status != 503 && len(seen) > 0 {
			key = vfxKeyMirrorCancel
		}
		if len(frontLog) > 3000 {
			frontLog = frontLog[:3000] + "…"
		}
		return !vf.Violation(rt, key, "%s\n%s\nbackend received: %v\nclient received: %s\nfront server log: %s", fmt.Sprintf(format, a...), desc, seen, resp, frontLog)
	}
	noResponse := resp.Status == 0

	if k.Dir == "req" {
		switch {
		case k.Local && eff < 0 && (k.Encoding == "cut" || k.Encoding == "lying"):
			// (only after an update of the HTTPServer spec made the path stream) nobody reads a streamed
			// body here: its shortfall is known to nobody, any answer is accepted
			vf.Class("ambiguous-local-backend-never-reads-streamed-short-body")
		case k.Encoding == "cut":
			// k.Size bytes were sent in chunks, then the client half-closed where the chunk framing
			// promised more (the rest of a chunk, or at least the terminating chunk): shorter than declared
			how := "without the terminating chunk"
			if k.CutAt == 0 {
				how = fmt.Sprintf("inside a chunk that announced %d more bytes", k.LieExtra)
			}
			if !noResponse && resp.Status < 400 {
				return fail("req-cut-chunked-body-success", "chunked request body torn after %d bytes (%s; effective clientMaxBodySize %d): client got %d, not an error status", k.Size, how, eff, resp.Status)
			}
			if over && len(seen) != 0 {
				return fail("req-over-limit-reached-backend", "chunked request body of %d bytes (torn %s) exceeds the effective clientMaxBodySize %d but the backend was contacted %d times", k.Size, how, eff, len(seen))
			}
			for _, s := range seen {
				if s.BodyErr == nil {
					return fail("req-cut-chunked-body-forwarded-as-complete", "chunked request body torn after %d bytes (%s; effective clientMaxBodySize %d), yet the backend read a complete body of %d bytes", k.Size, how, eff, len(s.Body))
				}
			}
		case k.Encoding == "lying":
			// fewer bytes than declared, then the client half-closes
			if declaredOver {
				vf.Class("ambiguous-declared-over-limit-but-short")
			}
			if !noResponse && resp.Status < 400 {
				return fail("req-short-declared-body-success", "request declared %d body bytes, sent %d and closed: client got %d, not an error status", declared, k.Size, resp.Status)
			}
			if declaredOver && len(seen) != 0 {
				return fail("req-over-limit-reached-backend", "declared length %d exceeds the effective clientMaxBodySize %d but the backend was contacted %d times", declared, eff, len(seen))
			}
			for _, s := range seen {
				if s.BodyErr == nil {
					return fail("req-short-declared-body-forwarded-as-complete", "request declared %d body bytes, sent %d and closed, yet the backend read a complete body of %d bytes", declared, k.Size, len(s.Body))
				}
			}
		case over:
			if resp.Status != 413 {
				return fail("req-over-limit-not-413", "request body of %d bytes (%s) exceeds the effective clientMaxBodySize %d: client got %d, want 413", k.Size, k.Encoding, eff, resp.Status)
			}
			if len(seen) != 0 {
				return fail("req-over-limit-reached-backend", "request body of %d bytes (%s) exceeds the effective clientMaxBodySize %d but the backend was contacted %d times", k.Size, k.Encoding, eff, len(seen))
			}
		case k.Local:
			// the local backend answers 200 by itself whatever it is given
			if resp.Status != 200 {
				key := "req-within-limit-rejected"
				if eff < 0 {
					key = "req-stream-rejected"
				}
				return fail(key, "request body of %d bytes (%s) is within the effective clientMaxBodySize %d of the path with the local backend: client got %d, want its 200", k.Size, k.Encoding, eff, resp.Status)
			}
		case len(k.Pre) > 0:
			// the first attempts failed after the backend had read the request. Every attempt that
			// reached the backend must have carried the complete body; in particular the one that
			// produced the final answer. A streamed upload cannot be re-sent: there the failure of
			// the first attempt is an honest answer.
			for j, s := range seen {
				if s.BodyErr != nil || !bytes.Equal(s.Body, body) {
					return fail("req-body-on-retry", "attempt %d of %d that reached the backend carried %s (read error %v), the client sent %s (%s)", j+1, len(seen), vfxBrief(s.Body), s.BodyErr, vfxBrief(body), k.Encoding)
				}
			}
			if len(seen) == 0 {
				return fail("req-within-limit-rejected", "request body of %d bytes (%s) within the limit %d never reached the backend, client got %d", k.Size, k.Encoding, eff, resp.Status)
			}
			switch {
			case resp.Status == k.Status && len(seen) > len(k.Pre):
				vf.Class("req-retried-to-success")
			case eff < 0 && len(seen) == 1 && resp.Status >= 500:
				// 502/503 of the failed attempt, or 500 when that tiny failure response is itself over serverMaxBodySize
				vf.Class("req-stream-upload-not-retried")
			default:
				return fail("req-retry-outcome", "request body of %d bytes (%s), limit %d, scripted failing attempts %v with a %d-attempt retry policy: backend saw %d attempts, client got %d (final backend answer %d)", k.Size, k.Encoding, eff, k.Pre, cfg.RetryAttempts, len(seen), resp.Status, k.Status)
			}
		default:
			if len(seen) == 0 || resp.Status != k.Status {
				key := "req-within-limit-rejected"
				if eff < 0 {
					key = "req-stream-rejected"
				}
				return fail(key, "request body of %d bytes (%s) is within the effective clientMaxBodySize %d: backend contacts %d, client got %d (backend answers %d)", k.Size, k.Encoding, eff, len(seen), resp.Status, k.Status)
			}
			s := seen[len(seen)-1]
			if s.BodyErr != nil || !bytes.Equal(s.Body, body) {
				return fail("req-body-altered", "request body of %d bytes (%s) within the limit %d reached the backend as %s (read error %v), sent %s", k.Size, k.Encoding, eff, vfxBrief(s.Body), s.BodyErr, vfxBrief(body))
			}
		}
		return true
	}

	// response direction. The payload the client holds after undoing the Content-Encoding the
	// response is labelled with:
	got, decodeErr := resp.Body, error(nil)
	ce := resp.Get("Content-Encoding")
	labelledGzip := len(ce) == 1 && strings.EqualFold(ce[0], "gzip")
	if labelledGzip { // an empty body is not a gzip stream either
		got, decodeErr = vfxGunzip(resp.Body)
	}
	if len(ce) > 0 && !compressed {
		return fail("resp-unexpected-content-encoding", "response labelled Content-Encoding %q although proxy compression does not apply", ce)
	}
	deliveredSome := len(body) > 0 && ((len(resp.Body) > 0 && bytes.HasPrefix(body, resp.Body)) || (labelledGzip && len(got) > 0 && bytes.HasPrefix(body, got)))
	exact := resp.FramingErr == "" && decodeErr == nil && bytes.Equal(got, body)
	is5xx := resp.Status >= 500 && resp.Status <= 599
	switch {
	case k.Encoding == "cut":
		// the backend promised a chunked body and dropped the connection inside a chunk or before
		// the terminating chunk: whatever arrived is shorter than what was promised
		if noResponse || resp.Status >= 400 {
			break
		}
		if eff < 0 && resp.Status == k.Status && (resp.FramingErr != "" || (labelledGzip && decodeErr != nil)) {
			vf.Class("ambiguous-stream-short-body-detectable-abort")
			break
		}
		return fail("resp-cut-chunked-body-success", "backend promised a chunked body of %d bytes and dropped the connection after %d of them (-1: all, terminating chunk missing): client got a well-framed %d with %s (Content-Encoding %q, decodes: %v)", k.Size, k.CutAt, resp.Status, vfxBrief(resp.Body), ce, decodeErr)
	case k.Encoding == "lying":
		if declaredOver {
			vf.Class("ambiguous-declared-over-limit-but-short")
		}
		if noResponse || resp.Status >= 400 {
			break
		}
		if eff < 0 && resp.Status == k.Status && (resp.FramingErr != "" || (labelledGzip && decodeErr != nil)) {
			// streamed: the status line was gone before the backend broke its promise; the
			// client can tell from the framing (or from the unfinished gzip stream) that the body
			// is incomplete
			vf.Class("ambiguous-stream-short-body-detectable-abort")
			break
		}
		return fail("resp-short-declared-body-success", "backend declared %d body bytes, sent %d and closed: client got a well-framed %d with %s (Content-Encoding %q, decodes: %v)", declared, k.Size, resp.Status, vfxBrief(resp.Body), ce, decodeErr)
	case compressed && eff >= 0:
		// the statement does not say whether the limit is meant for the backend's bytes or for the
		// compressed bytes the proxy holds: strict only where both readings agree (with a margin
		// for the exact size of the gzip stream)
		comp := int64(len(vfxGzip(body)))
		lo, hi := int64(k.Size), comp
		if lo > hi {
			lo, hi = hi, lo
		}
		switch {
		case lo > eff+64:
			if !is5xx {
				return fail("resp-over-limit-not-5xx", "backend body of %d bytes (%s, %d compressed) exceeds the effective serverMaxBodySize %d: client got %d, want 5xx", k.Size, k.Encoding, comp, eff, resp.Status)
			}
			if deliveredSome {
				return fail("resp-over-limit-body-delivered", "backend body of %d bytes (%s) exceeds the effective serverMaxBodySize %d but %d of its bytes were delivered", k.Size, k.Encoding, eff, len(got))
			}
		case hi <= eff-64:
			if resp.Status != k.Status {
				return fail("resp-within-limit-not-delivered", "backend body of %d bytes (%s, %d compressed) is within the effective serverMaxBodySize %d: client got %d, backend answered %d", k.Size, k.Encoding, comp, eff, resp.Status, k.Status)
			}
			if !exact {
				return fail("resp-body-altered", "backend body of %d bytes (%s) within the limit %d arrived as %s (framing: %q, Content-Encoding %q, decodes: %v)", k.Size, k.Encoding, eff, vfxBrief(got), resp.FramingErr, ce, decodeErr)
			}
		default:
			vf.Class("ambiguous-limit-on-compressed-or-original-size")
			if !(is5xx && !deliveredSome) && !(resp.Status == k.Status && exact) {
				return fail("resp-neither-withheld-nor-intact", "backend body of %d bytes (%s, %d compressed), effective serverMaxBodySize %d: client got %d with %s (framing: %q, decodes: %v): neither a 5xx without the body nor the intact body", k.Size, k.Encoding, comp, eff, resp.Status, vfxBrief(got), resp.FramingErr, decodeErr)
			}
		}
	case over:
		if !is5xx {
			return fail("resp-over-limit-not-5xx", "backend body of %d bytes (%s) exceeds the effective serverMaxBodySize %d: client got %d, want 5xx", k.Size, k.Encoding, eff, resp.Status)
		}
		if deliveredSome {
			return fail("resp-over-limit-body-delivered", "backend body of %d bytes (%s) exceeds the effective serverMaxBodySize %d but %d of its bytes were delivered", k.Size, k.Encoding, eff, len(resp.Body))
		}
	default:
		if resp.Status != k.Status {
			key := "resp-within-limit-not-delivered"
			if eff < 0 {
				key = "resp-stream-not-delivered"
			}
			return fail(key, "backend body of %d bytes (%s) is within the effective serverMaxBodySize %d: client got %d, backend answered %d", k.Size, k.Encoding, eff, resp.Status, k.Status)
		}
		if !exact {
			return fail("resp-body-altered", "backend body of %d bytes (%s) within the limit %d arrived as %s (framing: %q, Content-Encoding %q, decodes: %v)", k.Size, k.Encoding, eff, vfxBrief(got), resp.FramingErr, ce, decodeErr)
		}
	}
	return true
}
