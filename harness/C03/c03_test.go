//go:build go1.21

package httpserver

import (
	"bytes"
	"fmt"
	"net/http"
	"net/url"
	"os"
	"regexp"
	"strings"
	"testing"

	"pgregory.net/rapid"
)

// ---------------------------------------------------------------------------------------------
// keys of the genuine defects this check rediscovers (see harness/C03/proposed_known.jsonl)

const vfC03Default = 4 * 1024 * 1024

const (
	vfC03KeyPath          = "prepareRequest-decoded-path-with-escaped-reserved-char(%3F|%23|%25)-corrupts-backend-url"
	vfC03KeyCompress      = "proxy-compression-buffered-keeps-ContentLength-of-uncompressed-body"
	vfC03KeyRABody        = "responseadaptor-body-keeps-backend-Content-Length"
	vfC03KeyHead          = "HEAD-buffered-backend-declares-Content-Length-FetchPayload-reads-absent-body-500"
	vfC03KeyTimeoutStream = "pool-timeout-cancels-streamed-response-body-when-handler-returns"
	// a late mirror copy (its context is the one of the front request it belongs to, cancelled when that
	// request ends) that is handed an idle backend connection after its cancellation tears that
	// connection down; the answer to the NEXT request, which had just arrived on it, is lost and the
	// client gets 503 although the backend answered (needs a loaded machine; see proposed_known.jsonl)
	vfC03KeyMirrorCancel = vfxKeyMirrorCancel
	vfC03KeyStreamCut    = "mux-ignores-read-error-of-streamed-response-body-truncated-body-ends-as-complete-response"
	vfC03KeyStreamGz     = "handler-panic runtime error: invalid memory address or nil pointer dereference @ readers.(*CallbackReader).OnAfter"
)

// ---------------------------------------------------------------------------------------------
// case description

type vfC03Req struct {
	Method   string
	RawPath  string
	Query    string // including the leading "?" when present
	Host     string
	E2E      [][2]string // end-to-end headers as sent (original spelling)
	Hop      [][2]string // hop-by-hop headers as sent (Connection lines included)
	Listed   []string    // canonical names listed in Connection
	AcceptEn string      // "", gzip, identity
	BodySeed uint32
	BodyN    int
	BodyKind int
	Gzip     bool
	Framing  string
	Chunks   []int
}

type vfC03Resp struct {
	Status   int
	E2E      [][2]string
	Hop      [][2]string
	BodySeed uint32
	BodyN    int
	BodyKind int
	Gzip     bool
	Framing  string
	Split    int
	// backend fault: Cut = the body is promised in full (Content-Length when CutDeclared, else
	// chunked) but only CutPermille/1000 of it is sent before the connection is dropped
	Cut         bool
	CutDeclared bool
	CutPermille int
	// Pre: the first attempts to reach the backend fail (status code, or 0 = connection dropped
	// after the request was read); only with a retry policy that covers them
	Pre []int
}

var vfC03HopNames = []string{"Connection", "Keep-Alive", "Proxy-Connection", "Proxy-Authenticate", "Proxy-Authorization", "Te", "Trailer", "Transfer-Encoding", "Upgrade"}

var vfC03ReservedEsc = regexp.MustCompile(`(?i)%(3f|23|25)`)

func vfC03Sizes(rt *rapid.T, label string, thorough bool) int {
	c := rapid.IntRange(0, 11).Draw(rt, label+"-sizeclass")
	switch {
	case c <= 1:
		return 0
	case c == 2:
		return 1
	case c <= 5:
		return rapid.IntRange(2, 300).Draw(rt, label+"-small")
	case c <= 8:
		return 1024
	case c <= 10:
		return 70 * 1024
	default:
		if thorough && rapid.IntRange(0, 7).Draw(rt, label+"-huge") == 0 {
			return 5 << 20
		}
		return rapid.IntRange(2000, 9000).Draw(rt, label+"-mid")
	}
}

var vfC03Segs = []string{"a", "api", "v1", "x-y_z.~", "A", "", "a%20b", "%20", "a%2Fb", "%2F", "q%3Fx", "%3F", "%3f", "h%23", "%23", "p%25", "%2541", "%25zz",
	"caf%C3%A9", "%41", "%E4%B8%AD", "a%3Bb", "a+b", "a:b@c", "$&'()*,;="}

var vfC03SegsSafe = []string{"a", "api", "v1", "x-y_z.~", "A", "", "a%20b", "%20", "a%2Fb", "%2F", "caf%C3%A9", "%41", "%E4%B8%AD", "a%3Bb", "a+b", "a:b@c", "$&'()*,;="}

var vfC03QueryParts = []string{"a=1", "a=2", "b=", "c", "d=x+y", "e=%20%26%3D", "k=a/b?c", "m=a;b", "u=%E2%9C%93", "", "=", "f=%zz", "p=%2541", "z=~.-_"}

var vfC03E2EKeys = []string{"X-Vf-A", "X-Vf-B", "X-Vf-C", "x-vf-lower", "X-VF-UPPER", "Accept", "User-Agent", "Cookie", "Authorization", "Content-Type", "X-Request-Id", "Cache-Control", "If-None-Match"}

var vfC03Values = []string{"1", "v", "a, b", "text/plain; charset=utf-8", "\"q\"", "x=1; y=2", "Bearer abc.def", "", "caf\xc3\xa9", "a  b", "*/*", "W/\"e1\""}

func vfC03Case(s string, mode int) string {
	switch mode {
	case 0:
		return strings.ToLower(s)
	case 1:
		return strings.ToUpper(s)
	}
	return s
}

func vfC03GenReq(rt *rapid.T, thorough bool, avoidReserved bool, prefMethods []string) vfC03Req {
	q := vfC03Req{}
	q.Method = rapid.SampledFrom([]string{"GET", "POST", "PUT", "DELETE", "PATCH", "OPTIONS", "HEAD", "POST", "GET"}).Draw(rt, "method")
	if len(prefMethods) > 0 && rapid.IntRange(0, 2).Draw(rt, "cacheable-method") > 0 {
		q.Method = rapid.SampledFrom(prefMethods).Draw(rt, "method-from-cache-spec")
	}
	pool := vfC03Segs
	if avoidReserved {
		pool = vfC03SegsSafe
	}
	nseg := rapid.IntRange(0, 4).Draw(rt, "nseg")
	var segs []string
	for i := 0; i < nseg; i++ {
		segs = append(segs, rapid.SampledFrom(pool).Draw(rt, "seg"))
	}
	q.RawPath = "/" + strings.Join(segs, "/")
	if nseg > 0 && rapid.IntRange(0, 4).Draw(rt, "trailing-slash") == 0 {
		q.RawPath += "/"
	}
	switch rapid.IntRange(0, 5).Draw(rt, "querykind") {
	case 0, 1:
	case 2:
		q.Query = "?"
	default:
		n := rapid.IntRange(1, 4).Draw(rt, "nq")
		var parts []string
		for i := 0; i < n; i++ {
			parts = append(parts, rapid.SampledFrom(vfC03QueryParts).Draw(rt, "qpart"))
		}
		q.Query = "?" + strings.Join(parts, "&")
	}
	q.Host = rapid.SampledFrom([]string{"example.com", "vf.test:8080", "Sub.Example.ORG", "10.1.2.3", "[::1]:81", "a-b.c"}).Draw(rt, "host")

	ne := rapid.IntRange(0, 5).Draw(rt, "ne2e")
	for i := 0; i < ne; i++ {
		k := rapid.SampledFrom(vfC03E2EKeys).Draw(rt, "hkey")
		v := rapid.SampledFrom(vfC03Values).Draw(rt, "hval")
		if http.CanonicalHeaderKey(k) == "User-Agent" {
			// singleton by definition; http.Transport (the hop's own plumbing) writes only one
			dup := false
			for _, kv := range q.E2E {
				dup = dup || kv[0] == k
			}
			if dup {
				k = "X-Vf-A"
			} else if v == "" {
				v = "vf-agent/1.0" // an empty User-Agent means "send none" to http.Transport
			}
		}
		q.E2E = append(q.E2E, [2]string{k, v})
	}
	q.AcceptEn = rapid.SampledFrom([]string{"", "gzip", "identity", "gzip"}).Draw(rt, "accept-encoding")

	// Connection tokens
	if rapid.IntRange(0, 2).Draw(rt, "has-connection") > 0 {
		cands := []string{"keep-alive", "x-vf-ghost", "upgrade", "te"}
		for _, kv := range q.E2E {
			ck := http.CanonicalHeaderKey(kv[0])
			if strings.HasPrefix(ck, "X-Vf-") || ck == "Cookie" || ck == "Authorization" || ck == "X-Request-Id" {
				cands = append(cands, kv[0])
			}
		}
		nt := rapid.IntRange(1, 4).Draw(rt, "ntokens")
		var toks []string
		for i := 0; i < nt; i++ {
			t := rapid.SampledFrom(cands).Draw(rt, "token")
			t = vfC03Case(t, rapid.IntRange(0, 2).Draw(rt, "tokencase"))
			toks = append(toks, t)
		}
		if rapid.IntRange(0, 5).Draw(rt, "conn-close") == 0 {
			toks = append(toks, "close")
		}
		if rapid.IntRange(0, 5).Draw(rt, "empty-token") == 0 {
			toks = append(toks, "")
		}
		sep := rapid.SampledFrom([]string{",", ", ", " , ", ",\t"}).Draw(rt, "sep")
		if len(toks) > 1 && rapid.IntRange(0, 3).Draw(rt, "two-lines") == 0 {
			cut := rapid.IntRange(1, len(toks)-1).Draw(rt, "cut")
			q.Hop = append(q.Hop, [2]string{"Connection", strings.Join(toks[:cut], sep)}, [2]string{vfC03Case("Connection", rapid.IntRange(0, 2).Draw(rt, "conncase")), strings.Join(toks[cut:], sep)})
		} else {
			q.Hop = append(q.Hop, [2]string{"Connection", strings.Join(toks, sep)})
		}
		for _, t := range toks {
			if t != "" {
				q.Listed = append(q.Listed, http.CanonicalHeaderKey(t))
			}
		}
	}
	hop := [][2]string{
		{"Keep-Alive", "timeout=5, max=100"}, {"Proxy-Connection", "keep-alive"}, {"Proxy-Authenticate", "Basic realm=\"x\""},
		{"Proxy-Authorization", "Basic dTpw"}, {"TE", "trailers"}, {"Trailer", "X-Vf-T"}, {"Upgrade", "h2c"}, {"Upgrade", "websocket"}, {"te", "gzip"}, {"upgrade", "vf/1"},
	}
	for _, h := range hop {
		if rapid.IntRange(0, 4).Draw(rt, "hop-"+h[0]) == 0 {
			q.Hop = append(q.Hop, h)
		}
	}

	bodyOdds := 3
	if q.Method == "GET" || q.Method == "HEAD" || q.Method == "OPTIONS" || q.Method == "DELETE" {
		bodyOdds = 1
	}
	if rapid.IntRange(0, 3).Draw(rt, "has-body") < bodyOdds {
		q.BodyN = vfC03Sizes(rt, "req", thorough)
	}
	q.BodySeed = uint32(rapid.IntRange(1, 1<<20).Draw(rt, "req-bodyseed"))
	q.BodyKind = rapid.IntRange(0, 1).Draw(rt, "req-bodykind")
	if q.BodyN > 0 {
		q.Gzip = rapid.IntRange(0, 3).Draw(rt, "req-gzip") == 0
		q.Framing = rapid.SampledFrom([]string{"cl", "chunked"}).Draw(rt, "req-framing")
	} else {
		q.Framing = rapid.SampledFrom([]string{"none", "none", "cl", "chunked"}).Draw(rt, "req-framing0")
	}
	if q.Framing == "chunked" {
		n := rapid.IntRange(0, 3).Draw(rt, "nchunks")
		for i := 0; i < n; i++ {
			q.Chunks = append(q.Chunks, rapid.IntRange(1, 5000).Draw(rt, "chunk"))
		}
	}
	return q
}

func vfC03GenResp(rt *rapid.T, thorough bool, prefCodes []int) vfC03Resp {
	if len(prefCodes) > 0 && rapid.IntRange(0, 2).Draw(rt, "cacheable-status") > 0 {
		return vfC03GenRespFor(rt, thorough, rapid.SampledFrom(prefCodes).Draw(rt, "status-from-cache-spec"))
	}
	return vfC03GenRespFor(rt, thorough, 0)
}

func vfC03GenRespFor(rt *rapid.T, thorough bool, status int) vfC03Resp {
	p := vfC03Resp{}
	switch rapid.IntRange(0, 5).Draw(rt, "statuskind") {
	case 0, 1, 2:
		p.Status = 200
	case 3:
		p.Status = rapid.SampledFrom([]int{201, 202, 204, 206, 299, 301, 302, 304, 307, 400, 401, 403, 404, 409, 418, 429, 500, 502, 503, 504}).Draw(rt, "status")
	default:
		p.Status = rapid.IntRange(200, 599).Draw(rt, "anystatus")
	}
	if status != 0 {
		p.Status = status
	}
	keys := []string{"X-Vf-R-A", "X-Vf-R-B", "Set-Cookie", "Content-Type", "Cache-Control", "Etag", "Content-Language", "X-Powered-By", "Vary", "Www-Authenticate"}
	vals := []string{"1", "a=b; Path=/", "c=d; HttpOnly", "text/plain; charset=utf-8", "application/json", "no-store", "W/\"abc\"", "en", "vf", "Origin", "Basic realm=\"r\"", "a, b", ""}
	n := rapid.IntRange(0, 5).Draw(rt, "nrh")
	for i := 0; i < n; i++ {
		k := rapid.SampledFrom(keys).Draw(rt, "rkey")
		if p.Status == 304 && k == "Content-Type" {
			k = "X-Vf-R-A" // net/http (the backend itself) never puts Content-Type on a 304
		}
		p.E2E = append(p.E2E, [2]string{k, rapid.SampledFrom(vals).Draw(rt, "rval")})
	}
	// realistic media types (some make intermediaries behave differently: event streams, gRPC, multipart)
	if p.Status != 304 && rapid.Bool().Draw(rt, "typed-response") {
		has := false
		for _, kv := range p.E2E {
			has = has || kv[0] == "Content-Type"
		}
		if !has {
			p.E2E = append(p.E2E, [2]string{"Content-Type", rapid.SampledFrom([]string{"text/plain", "application/json", "application/octet-stream", "text/event-stream",
				"text/event-stream; charset=utf-8", "Text/Event-Stream", "text/html", "application/grpc", "multipart/form-data; boundary=vfb"}).Draw(rt, "media-type")})
		}
	}
	if p.Status >= 300 && p.Status < 400 && p.Status != 304 {
		p.E2E = append(p.E2E, [2]string{"Location", rapid.SampledFrom([]string{"/next", "http://elsewhere.test/x?y=1", "../up"}).Draw(rt, "location")})
	}
	for _, h := range [][2]string{{"Keep-Alive", "timeout=7"}, {"Proxy-Authenticate", "Basic realm=\"b\""}, {"Upgrade", "h2c"}} {
		if rapid.IntRange(0, 7).Draw(rt, "rhop-"+h[0]) == 0 {
			p.Hop = append(p.Hop, h)
		}
	}
	if p.Status != 204 && p.Status != 304 {
		if rapid.IntRange(0, 5).Draw(rt, "resp-has-body") > 0 {
			p.BodyN = vfC03Sizes(rt, "resp", thorough)
		}
	}
	p.BodySeed = uint32(rapid.IntRange(1, 1<<20).Draw(rt, "resp-bodyseed"))
	p.BodyKind = rapid.IntRange(0, 1).Draw(rt, "resp-bodykind")
	if p.BodyN > 0 {
		p.Gzip = rapid.IntRange(0, 2).Draw(rt, "resp-gzip") == 0
	}
	p.Framing = rapid.SampledFrom([]string{"cl", "chunked"}).Draw(rt, "resp-framing")
	if p.Framing == "chunked" {
		p.Split = rapid.IntRange(0, 2000).Draw(rt, "split")
	}
	return p
}

func vfC03GenCfg(rt *rapid.T, thorough bool) *vfxCfg {
	c := &vfxCfg{Compression: -1, Paths: []vfxPathCfg{{Prefix: "/"}}, Pools: []vfxPoolCfg{{}}}
	c.ByHostName = rapid.Bool().Draw(rt, "by-hostname")
	c.KeepHost = rapid.IntRange(0, 2).Draw(rt, "keephost") == 0
	c.Compression = rapid.SampledFrom([]int{-1, -1, 0, 100, 10000}).Draw(rt, "compression")
	// body and compress may be configured together: the replacement body is then what gets compressed
	c.ReqAdaptor = rapid.SampledFrom([]string{"", "", "", "body", "compress", "decompress", "body+compress"}).Draw(rt, "reqadaptor")
	c.RespAdaptor = rapid.SampledFrom([]string{"", "", "", "body", "compress", "decompress", "body+compress", "body+compress"}).Draw(rt, "respadaptor")
	bodies := []string{"x", "replaced body", "{\"k\": [1, 2, 3], \"s\": \"v\"}", strings.Repeat("0123456789abcdef", 40)}
	if strings.HasPrefix(c.ReqAdaptor, "body") {
		c.ReqAdaptorBody = rapid.SampledFrom(bodies).Draw(rt, "reqadaptor-body")
	}
	if strings.HasPrefix(c.RespAdaptor, "body") {
		c.RespAdaptorBody = rapid.SampledFrom(bodies).Draw(rt, "respadaptor-body")
	}
	if rapid.IntRange(0, 2).Draw(rt, "req-stream") == 0 {
		if rapid.Bool().Draw(rt, "req-stream-at-path") {
			c.Paths[0].ClientMax = -1
		} else {
			c.ServerClientMax = -1
		}
	}
	if rapid.IntRange(0, 2).Draw(rt, "resp-stream") == 0 {
		if rapid.Bool().Draw(rt, "resp-stream-at-pool") {
			c.Pools[0].ServerMax = -1
		} else {
			c.ProxyServerMax = -1
		}
	}
	// a retry must re-send the whole request
	if a := rapid.SampledFrom([]int{0, 0, 0, 2, 3}).Draw(rt, "retry-attempts"); a > 0 {
		c.RetryAttempts, c.FailureCodes = a, []int{502, 503}
	}
	// failureCodes only change the result the Proxy reports (and what a retry policy re-tries):
	// the answer of the backend must reach the client all the same. With a retry policy 502 and
	// 503 are always listed (the scripted failing attempts use them).
	if c.RetryAttempts > 0 {
		c.FailureCodes = rapid.SampledFrom([][]int{{502, 503}, {502, 503}, {502, 503, 404}, {500, 502, 503, 429}}).Draw(rt, "failure-codes-with-retry")
	} else if rapid.IntRange(0, 2).Draw(rt, "failure-codes-without-retry") == 0 {
		c.FailureCodes = rapid.SampledFrom([][]int{{503}, {502, 503}, {500, 503, 404}, {429, 502, 503, 504}}).Draw(rt, "failure-codes")
	}
	// caches must be transparent: the route cache of the server, the memoryCache of the pool
	c.CacheSize = rapid.SampledFrom([]uint32{0, 0, 3, 1000}).Draw(rt, "route-cacheSize")
	if rapid.IntRange(0, 2).Draw(rt, "memoryCache") == 0 {
		c.MemCache = &vfxMemCache{Expiration: "1h",
			MaxEntryBytes: rapid.SampledFrom([]int{100, 5000, 1 << 20, 1 << 20}).Draw(rt, "maxEntryBytes"),
			Codes:         rapid.SampledFrom([][]int{{200}, {200, 404}, {200, 301, 404, 500}}).Draw(rt, "cache-codes"),
			Methods:       rapid.SampledFrom([][]string{{"GET"}, {"GET", "HEAD"}, {"GET", "HEAD"}, {"GET", "POST"}}).Draw(rt, "cache-methods")}
		// a streamed response is never stored: keep most cache configurations buffered
		if vfC03RespStream(c) && rapid.IntRange(0, 3).Draw(rt, "memoryCache-keeps-stream") != 0 {
			c.Pools[0].ServerMax, c.ProxyServerMax = 0, 0
		}
	}
	if thorough && rapid.IntRange(0, 7).Draw(rt, "pool-timeout") == 0 {
		c.PoolTimeout = "120s" // never reached; see vfC03KeyTimeoutStream
	}
	// a mirrorPool gets copies of the requests that carry the mirror header (recorded apart by the
	// rig): the selected backend must still receive the whole request
	c.Mirror = rapid.IntRange(0, 3).Draw(rt, "mirrorPool") == 0
	return c
}

func vfC03ReqStream(c *vfxCfg) bool {
	return c.Paths[0].ClientMax == -1 || (c.Paths[0].ClientMax == 0 && c.ServerClientMax == -1)
}

func vfC03RespStream(c *vfxCfg) bool {
	return c.Pools[0].ServerMax == -1 || (c.Pools[0].ServerMax == 0 && c.ProxyServerMax == -1)
}

// ---------------------------------------------------------------------------------------------
// building the wire request / backend script

func (q *vfC03Req) plainBody() []byte { return vfxBody(q.BodySeed, q.BodyN, q.BodyKind) }

func (q *vfC03Req) wireBody() []byte {
	b := q.plainBody()
	if q.Gzip {
		return vfxGzip(b)
	}
	return b
}

func (q *vfC03Req) toWire() *vfxRequest {
	w := &vfxRequest{Method: q.Method, Target: q.RawPath + q.Query, Host: q.Host, Framing: q.Framing, Chunks: q.Chunks, Body: q.wireBody()}
	// interleave: end-to-end first half, hop headers, second half (order is irrelevant to HTTP)
	half := len(q.E2E) / 2
	w.Headers = append(w.Headers, q.E2E[:half]...)
	w.Headers = append(w.Headers, q.Hop...)
	w.Headers = append(w.Headers, q.E2E[half:]...)
	if q.AcceptEn != "" {
		w.Headers = append(w.Headers, [2]string{"Accept-Encoding", q.AcceptEn})
	}
	if q.Gzip {
		w.Headers = append(w.Headers, [2]string{"Content-Encoding", "gzip"})
	}
	return w
}

func (p *vfC03Resp) plainBody() []byte { return vfxBody(p.BodySeed, p.BodyN, p.BodyKind) }

func (p *vfC03Resp) toScript() *vfxScript {
	s := &vfxScript{Status: p.Status, Framing: p.Framing, Split: p.Split, Pre: p.Pre}
	s.Headers = append(s.Headers, p.E2E...)
	s.Headers = append(s.Headers, p.Hop...)
	b := p.plainBody()
	if p.Gzip {
		s.Headers = append(s.Headers, [2]string{"Content-Encoding", "gzip"})
		b = vfxGzip(b)
	}
	s.Body = b
	if p.Cut {
		s.Framing, s.CutDeclared = "cut", p.CutDeclared
		s.CutAt = len(b) * p.CutPermille / 1000
		if s.CutAt >= len(b) {
			s.CutAt = len(b) - 1
		}
	}
	return s
}

// ---------------------------------------------------------------------------------------------
// the reference (written from the property statement)

func vfC03HeaderMap(list [][2]string) (map[string][]string, []string) {
	m := map[string][]string{}
	var order []string
	for _, kv := range list {
		k := http.CanonicalHeaderKey(kv[0])
		if _, ok := m[k]; !ok {
			order = append(order, k)
		}
		m[k] = append(m[k], kv[1])
	}
	return m, order
}

func vfC03Eq(a, b []string) bool {
	if len(a) != len(b) {
		return false
	}
	for i := range a {
		if a[i] != b[i] {
			return false
		}
	}
	return true
}

// vfC03Verdict is one disagreement with the statement: a symptom class and a description.
type vfC03Verdict struct {
	Symptom string // req-… : request direction, resp-… : response direction, framing
	Text    string
}

// vfC03CheckRequest compares what the backend received with what the client sent.
func vfC03CheckRequest(c *vfxCfg, q *vfC03Req, rig *vfxRig, seen []*vfxSeen, resp *vfxResponse) *vfC03Verdict {
	if len(seen) == 0 {
		return &vfC03Verdict{"req-not-forwarded", fmt.Sprintf("the backend never saw the request; client got %s", resp)}
	}
	s := seen[len(seen)-1]
	if s.Method != q.Method {
		return &vfC03Verdict{"req-method", fmt.Sprintf("backend saw method %q, client sent %q", s.Method, q.Method)}
	}
	wantPath, err := url.PathUnescape(q.RawPath)
	if err != nil {
		return &vfC03Verdict{"harness", "generator produced an undecodable path " + q.RawPath}
	}
	if s.Path != wantPath {
		return &vfC03Verdict{"req-path", fmt.Sprintf("backend saw path %q (request-target %q), client sent %q (decoded %q)", s.Path, s.RequestURI, q.RawPath, wantPath)}
	}
	wantQuery := strings.TrimPrefix(q.Query, "?")
	if s.RawQuery != wantQuery {
		return &vfC03Verdict{"req-query", fmt.Sprintf("backend saw raw query %q (request-target %q), client sent %q", s.RawQuery, s.RequestURI, wantQuery)}
	}
	if s.BodyErr != nil {
		return &vfC03Verdict{"req-body", fmt.Sprintf("backend could not read the forwarded body: %v", s.BodyErr)}
	}
	// body and Content-Encoding after what the configured RequestAdaptor is specified to do
	plain, wire := q.plainBody(), q.wireBody()
	ce := s.Header.Values("Content-Encoding")
	switch {
	case c.ReqAdaptor == "body":
		if !bytes.Equal(s.Body, []byte(c.ReqAdaptorBody)) {
			return &vfC03Verdict{"req-body", fmt.Sprintf("RequestAdaptor body=%q configured, backend received %s", c.ReqAdaptorBody, vfxBrief(s.Body))}
		}
		if len(ce) != 0 {
			return &vfC03Verdict{"req-body", fmt.Sprintf("RequestAdaptor replaced the body but Content-Encoding %q still reached the backend", ce)}
		}
	case c.ReqAdaptor == "body+compress":
		if !vfC03Eq(ce, []string{"gzip"}) {
			return &vfC03Verdict{"req-body", fmt.Sprintf("RequestAdaptor body=%q compress=gzip: backend saw Content-Encoding %q", c.ReqAdaptorBody, ce)}
		}
		got, err := vfxGunzip(s.Body)
		if err != nil || !bytes.Equal(got, []byte(c.ReqAdaptorBody)) {
			return &vfC03Verdict{"req-body", fmt.Sprintf("RequestAdaptor body=%q compress=gzip: gunzip(backend body) = %s (err %v)", c.ReqAdaptorBody, vfxBrief(got), err)}
		}
	case c.ReqAdaptor == "compress" && !q.Gzip:
		if !vfC03Eq(ce, []string{"gzip"}) {
			return &vfC03Verdict{"req-body", fmt.Sprintf("RequestAdaptor compress=gzip: backend saw Content-Encoding %q", ce)}
		}
		got, err := vfxGunzip(s.Body)
		if err != nil || !bytes.Equal(got, plain) {
			return &vfC03Verdict{"req-body", fmt.Sprintf("RequestAdaptor compress=gzip: gunzip(backend body) = %s (err %v), client sent %s", vfxBrief(got), err, vfxBrief(plain))}
		}
	case c.ReqAdaptor == "decompress" && q.Gzip:
		if len(ce) != 0 {
			return &vfC03Verdict{"req-body", fmt.Sprintf("RequestAdaptor decompress=gzip: Content-Encoding %q still reached the backend", ce)}
		}
		if !bytes.Equal(s.Body, plain) {
			return &vfC03Verdict{"req-body", fmt.Sprintf("RequestAdaptor decompress=gzip: backend received %s, want %s", vfxBrief(s.Body), vfxBrief(plain))}
		}
	default:
		if !bytes.Equal(s.Body, wire) {
			return &vfC03Verdict{"req-body", fmt.Sprintf("backend received body %s, client sent %s", vfxBrief(s.Body), vfxBrief(wire))}
		}
		want := []string(nil)
		if q.Gzip {
			want = []string{"gzip"}
		}
		if !vfC03Eq(ce, want) {
			return &vfC03Verdict{"req-header", fmt.Sprintf("backend saw Content-Encoding %q, client sent %q", ce, want)}
		}
	}
	// hop-by-hop set: the fixed list plus everything Connection names
	hop := map[string]bool{}
	for _, h := range vfC03HopNames {
		hop[h] = true
	}
	for _, l := range q.Listed {
		hop[l] = true
	}
	all := append(append([][2]string{}, q.E2E...), q.Hop...)
	if q.AcceptEn != "" {
		all = append(all, [2]string{"Accept-Encoding", q.AcceptEn})
	}
	sent, order := vfC03HeaderMap(all)
	for _, k := range order {
		if hop[k] {
			if k == "Transfer-Encoding" {
				continue // framing of the next hop, judged through the body
			}
			if v, ok := s.Header[k]; ok {
				why := "is a hop-by-hop header"
				listed := false
				for _, l := range q.Listed {
					listed = listed || l == k
				}
				sym := "req-hop-fixed:" + k
				if listed {
					why = "is named by the client's Connection header"
					sym = "req-hop-listed"
					for _, f := range vfC03HopNames {
						if f == k {
							sym = "req-hop-fixed:" + k
						}
					}
				}
				return &vfC03Verdict{sym, fmt.Sprintf("header %s %s but reached the backend with %q", k, why, v)}
			}
			continue
		}
		if !vfC03Eq(s.Header[k], sent[k]) {
			return &vfC03Verdict{"req-header", fmt.Sprintf("end-to-end header %s: client sent %q, backend saw %q", k, sent[k], s.Header[k])}
		}
	}
	// also nothing of the fixed list may appear out of thin air (except the hop's own framing)
	for _, h := range vfC03HopNames {
		if h == "Transfer-Encoding" {
			continue
		}
		if v, ok := s.Header[h]; ok {
			return &vfC03Verdict{"req-hop-fixed:" + h, fmt.Sprintf("hop-by-hop header %s reached the backend with %q", h, v)}
		}
	}
	wantHost := q.Host
	if c.ByHostName && !c.KeepHost {
		wantHost = rig.backendHost
	}
	if s.Host != wantHost {
		return &vfC03Verdict{"req-host", fmt.Sprintf("backend saw Host %q, want %q (client Host %q, server url http://%s, keepHost=%v)", s.Host, wantHost, q.Host, rig.backendHost, c.KeepHost)}
	}
	return nil
}

// vfC03CheckFraming: the response on the socket must be well-framed, whatever else happened.
func vfC03CheckFraming(resp *vfxResponse) *vfC03Verdict {
	if resp.FramingErr != "" {
		return &vfC03Verdict{"resp-framing", "response is not well-framed: " + resp.FramingErr + " :: " + resp.String()}
	}
	if resp.Extra != 0 {
		return &vfC03Verdict{"resp-framing", fmt.Sprintf("%d bytes followed the complete response before the connection was closed :: %s", resp.Extra, resp)}
	}
	return nil
}

// vfC03CheckResponse compares what the client received with what the backend sent.
func vfC03CheckResponse(c *vfxCfg, q *vfC03Req, p *vfC03Resp, resp *vfxResponse, ambiguous *[]string) *vfC03Verdict {
	if resp.Status != p.Status {
		return &vfC03Verdict{"resp-status", fmt.Sprintf("backend answered %d, client received %d :: %s", p.Status, resp.Status, resp)}
	}
	sent, order := vfC03HeaderMap(p.E2E)
	for _, k := range order {
		got := resp.Get(k)
		if k == "Vary" {
			// the hop may append to Vary
			if len(got) < len(sent[k]) || !vfC03Eq(got[:len(sent[k])], sent[k]) {
				return &vfC03Verdict{"resp-header", fmt.Sprintf("end-to-end header Vary: backend sent %q, client received %q", sent[k], got)}
			}
			continue
		}
		if !vfC03Eq(got, sent[k]) {
			return &vfC03Verdict{"resp-header", fmt.Sprintf("end-to-end header %s: backend sent %q, client received %q", k, sent[k], got)}
		}
	}
	noBody := q.Method == "HEAD" || p.Status == 204 || p.Status == 304
	if noBody {
		if len(resp.Body) != 0 {
			return &vfC03Verdict{"resp-framing", fmt.Sprintf("body bytes on a response that cannot have a body :: %s", resp)}
		}
		return nil
	}
	want := p.plainBody()
	if strings.HasPrefix(c.RespAdaptor, "body") {
		want = []byte(c.RespAdaptorBody)
	}
	got := resp.Body
	ce := resp.Get("Content-Encoding")
	switch {
	case len(ce) == 0 || (len(ce) == 1 && strings.EqualFold(ce[0], "identity")):
	case len(ce) == 1 && strings.EqualFold(ce[0], "gzip"):
		if len(got) == 0 && len(want) == 0 {
			*ambiguous = append(*ambiguous, "ambiguous-empty-body-labelled-gzip")
			break
		}
		dec, err := vfxGunzip(got)
		if err != nil {
			return &vfC03Verdict{"resp-body", fmt.Sprintf("response is labelled Content-Encoding: gzip but its %d body bytes do not decode (%v); backend body was %s :: %s", len(got), err, vfxBrief(want), resp)}
		}
		got = dec
	default:
		return &vfC03Verdict{"resp-body", fmt.Sprintf("response labelled with Content-Encoding %q which nobody produced", ce)}
	}
	if !bytes.Equal(got, want) {
		return &vfC03Verdict{"resp-body", fmt.Sprintf("client received (after undoing Content-Encoding %q) %s, want %s :: %s", ce, vfxBrief(got), vfxBrief(want), resp)}
	}
	return nil
}

// vfC03CheckCut: the backend promised a body and dropped the connection in the middle of it. The
// client must not be given a well-framed response that decodes cleanly to something else than the
// whole body; an error status, a torn connection, an unterminated chunked body or a body that does
// not decode are the honest outcomes.
func vfC03CheckCut(c *vfxCfg, q *vfC03Req, p *vfC03Resp, resp *vfxResponse, vf *vfCollector) *vfC03Verdict {
	if resp.Status == 0 || resp.FramingErr != "" {
		vf.Class("cut:torn-or-unterminated")
		return nil
	}
	if resp.Status != p.Status {
		if resp.Status >= 400 {
			vf.Class("cut:error-status")
			return nil
		}
		return &vfC03Verdict{"resp-status", fmt.Sprintf("backend answered %d and cut its body, client received %d :: %s", p.Status, resp.Status, resp)}
	}
	if resp.Status >= 400 && len(resp.Body) == 0 {
		// the backend's own status was an error status: indistinguishable from the proxy's failure response
		vf.Class("cut:error-status")
		return nil
	}
	want := p.plainBody()
	if strings.HasPrefix(c.RespAdaptor, "body") {
		want = []byte(c.RespAdaptorBody)
	}
	got := resp.Body
	ce := resp.Get("Content-Encoding")
	if len(ce) == 1 && strings.EqualFold(ce[0], "gzip") {
		dec, err := vfxGunzip(got)
		if err != nil {
			vf.Class("cut:undecodable-gzip")
			return nil
		}
		got = dec
	} else if len(ce) != 0 {
		vf.Class("cut:other-content-encoding")
		return nil
	}
	if bytes.Equal(got, want) {
		vf.Class("cut:whole-body-anyway")
		return nil
	}
	return &vfC03Verdict{"resp-cut-body-delivered-as-complete", fmt.Sprintf("backend dropped the connection after %d permille of its body (declared=%v); the client received a well-framed %d whose body (after undoing Content-Encoding %q) is %s instead of %s, with nothing that tells it is incomplete :: %s",
		p.CutPermille, p.CutDeclared, resp.Status, ce, vfxBrief(got), vfxBrief(want), resp)}
}

// ---------------------------------------------------------------------------------------------
// preconditions of the known defects (used to attribute a symptom and to steer away)

func vfC03AcceptGzipPerDocs(q *vfC03Req) bool { return q.AcceptEn == "" || q.AcceptEn == "gzip" }

// transportDecoded: Go's transport asked for gzip on its own and undid it (length unknown afterwards)
func vfC03TransportDecoded(q *vfC03Req, p *vfC03Resp) bool {
	// (http.Transport does not ask for gzip on HEAD)
	return q.AcceptEn == "" && q.Method != "HEAD" && p.Gzip && p.BodyN > 0
}

// vfC03AfterTransport: what Proxy gets from http.Transport: still gzip-labelled? declared length (-1 unknown)
func vfC03AfterTransport(q *vfC03Req, p *vfC03Resp) (gz bool, length int) {
	if p.Status == 204 || p.Status == 304 {
		return false, 0
	}
	if p.Gzip && p.BodyN > 0 {
		if vfC03TransportDecoded(q, p) {
			return false, -1
		}
		if p.Framing != "cl" && !(p.Cut && p.CutDeclared) {
			return true, -1
		}
		return true, len(vfxGzip(p.plainBody()))
	}
	if p.Framing != "cl" && !(p.Cut && p.CutDeclared) {
		return false, -1
	}
	return false, p.BodyN
}

// vfC03CompressApplies: the documented rule of proxy compression (client accepts gzip, not yet gzip, long enough)
func vfC03CompressApplies(c *vfxCfg, q *vfC03Req, p *vfC03Resp) bool {
	gz, n := vfC03AfterTransport(q, p)
	return c.Compression >= 0 && vfC03AcceptGzipPerDocs(q) && !gz && (n == -1 || n >= c.Compression)
}

// vfC03GzipLabelledBehindProxy: the response the Proxy publishes carries Content-Encoding: gzip (the
// backend's own label survived the transport, or proxy compression applied).
func vfC03GzipLabelledBehindProxy(c *vfxCfg, q *vfC03Req, p *vfC03Resp) bool {
	gz, _ := vfC03AfterTransport(q, p)
	return gz || vfC03CompressApplies(c, q, p)
}

// vfC03CompressTrigger: proxy compression applies to a response whose length the backend declared, in buffered mode.
func vfC03CompressTrigger(c *vfxCfg, q *vfC03Req, p *vfC03Resp) bool {
	_, n := vfC03AfterTransport(q, p)
	return vfC03CompressApplies(c, q, p) && !vfC03RespStream(c) && n > 0
}

// vfC03CompressStreamTrigger: proxy compression applies to a streamed response.
func vfC03CompressStreamTrigger(c *vfxCfg, q *vfC03Req, p *vfC03Resp) bool {
	return vfC03CompressApplies(c, q, p) && vfC03RespStream(c)
}

// vfC03RABodyTrigger: ResponseAdaptor replaces a body whose (different) length the backend declared.
func vfC03RABodyTrigger(c *vfxCfg, q *vfC03Req, p *vfC03Resp) bool {
	if !strings.HasPrefix(c.RespAdaptor, "body") || p.Status == 204 || p.Status == 304 || q.Method == "HEAD" {
		return false
	}
	_, n := vfC03AfterTransport(q, p)
	return n >= 0 && !vfC03CompressApplies(c, q, p) && n != len(c.RespAdaptorBody)
}

// vfC03HeadTrigger: HEAD answered with a declared length, buffered mode.
func vfC03HeadTrigger(c *vfxCfg, q *vfC03Req, p *vfC03Resp) bool {
	_, n := vfC03AfterTransport(q, p)
	return q.Method == "HEAD" && !vfC03RespStream(c) && n > 0
}

// ---------------------------------------------------------------------------------------------

func TestVerifC03Forward(t *testing.T) {
	vf := vfBegin(t, "C03")
	defer vf.End()
	thorough := os.Getenv("VERIF_TIER") == "thorough"
	rapid.Check(t, func(rt *rapid.T) {
		cfg := vfC03GenCfg(rt, thorough)
		rig, err := vfxNewRig(cfg)
		if err != nil {
			rt.Fatalf("VF-INCONCLUSIVE cannot build the rig (configuration rejected by the acceptance path, or no listener): %v", err)
		}
		defer rig.Close()
		nreq := rapid.IntRange(1, 5).Draw(rt, "nreq")
		for i := 0; i < nreq; i++ {
			steer := func(key string) bool {
				// exclude by construction once a defect is listed, but keep reproducing it now and then
				if !vf.HasKnown(key) {
					return false
				}
				return rapid.IntRange(0, 7).Draw(rt, "keep-known-trigger") != 0
			}
			var prefMethods []string
			var prefCodes []int
			if cfg.MemCache != nil {
				prefMethods, prefCodes = cfg.MemCache.Methods, cfg.MemCache.Codes
			}
			q := vfC03GenReq(rt, thorough, steer(vfC03KeyPath), prefMethods)
			p := vfC03GenResp(rt, thorough, prefCodes)
			if cfg.MemCache != nil {
				// the memoryCache is keyed by scheme+host+path+method: give every generated request of
				// the case its own key, so that a hit can only come from a repetition of the same request
				q.RawPath = fmt.Sprintf("/i%d", i) + q.RawPath
			}
			mirrored := cfg.Mirror && rapid.IntRange(0, 3).Draw(rt, "mirrored") != 0
			if mirrored {
				q.E2E = append(q.E2E, [2]string{vfxMirrorHeader, "1"})
			}
			// a backend answer whose status is one of the pool's failureCodes: the Proxy reports the
			// result failureCode (the flow ends there: a ResponseAdaptor behind the Proxy does not run,
			// a retry policy re-sends the request) but "does not touch the response itself"
			if len(cfg.FailureCodes) > 0 && p.Status != 204 && p.Status != 304 && rapid.IntRange(0, 3).Draw(rt, "final-answer-is-a-failure-code") == 0 {
				p.Status = rapid.SampledFrom(cfg.FailureCodes).Draw(rt, "failure-code")
				var loc [][2]string
				for _, kv := range p.E2E {
					if kv[0] != "Location" {
						loc = append(loc, kv)
					}
				}
				p.E2E = loc
				for _, h := range [][2]string{{"Retry-After", "30"}, {"X-Request-Id", "vf-7f3a"}} {
					if rapid.Bool().Draw(rt, "failure-header-"+h[0]) {
						p.E2E = append(p.E2E, h)
					}
				}
				if p.BodyN == 0 && rapid.IntRange(0, 3).Draw(rt, "failure-answer-gets-body") > 0 {
					p.BodyN = rapid.SampledFrom([]int{1, 17, 1024}).Draw(rt, "failure-answer-body")
				}
			}
			failFinal := false
			for _, c := range cfg.FailureCodes {
				failFinal = failFinal || c == p.Status
			}
			if cfg.RetryAttempts > 0 {
				if !vfC03ReqStream(cfg) && rapid.Bool().Draw(rt, "failing-attempts") {
					k := rapid.IntRange(1, cfg.RetryAttempts-1).Draw(rt, "nfailing")
					for j := 0; j < k; j++ {
						p.Pre = append(p.Pre, rapid.SampledFrom([]int{503, 502, 0}).Draw(rt, "failure-kind"))
					}
				}
			}
			if q.Method != "HEAD" && p.Status != 204 && p.Status != 304 && p.BodyN >= 2 {
				odds := 9
				if vfC03RespStream(cfg) {
					odds = 3
				}
				if rapid.IntRange(0, odds).Draw(rt, "backend-cuts-body") == 0 {
					p.Cut, p.CutDeclared = true, rapid.Bool().Draw(rt, "cut-declared")
					p.CutPermille = rapid.SampledFrom([]int{0, 1, 300, 500, 900, 999}).Draw(rt, "cut-permille")
					p.Framing = "cut"
				}
			}
			cacheable := false
			if cfg.MemCache != nil {
				for _, m := range cfg.MemCache.Methods {
					cacheable = cacheable || m == q.Method
				}
			}
			reps := rapid.SampledFrom([]int{1, 1, 2}).Draw(rt, "repetitions")
			if cacheable {
				reps = rapid.IntRange(2, 4).Draw(rt, "cacheable-repetitions")
			}
			// HEAD and GET of one URL against a memoryCache that caches both: each method has its own
			// entry (a HEAD entry has the headers of the GET answer, Content-Length included, and no body)
			var repMethods []string
			if cacheable && !p.Cut && (q.Method == "GET" || q.Method == "HEAD") && rapid.IntRange(0, 2).Draw(rt, "alternate-head-get") > 0 {
				both := 0
				for _, m := range cfg.MemCache.Methods {
					if m == "GET" || m == "HEAD" {
						both++
					}
				}
				if both == 2 {
					repMethods = rapid.SampledFrom([][]string{{"HEAD", "GET"}, {"HEAD", "GET", "GET"}, {"GET", "HEAD"}, {"GET", "HEAD", "GET"}, {"HEAD", "GET", "HEAD", "GET"}}).Draw(rt, "method-sequence")
					reps = len(repMethods)
				}
			}
			// bodies above the 4 MiB default limit only where that direction streams
			if q.BodyN > vfC03Default && !vfC03ReqStream(cfg) {
				q.BodyN = 70 * 1024
			}
			if p.BodyN > vfC03Default && !vfC03RespStream(cfg) {
				p.BodyN = 70 * 1024
			}
			if vfC03CompressStreamTrigger(cfg, &q, &p) && steer(vfC03KeyStreamGz) {
				q.AcceptEn = "identity"
				vf.Exclude()
			}
			if p.Framing == "cl" && (vfC03CompressTrigger(cfg, &q, &p) && steer(vfC03KeyCompress) ||
				vfC03RABodyTrigger(cfg, &q, &p) && steer(vfC03KeyRABody) ||
				vfC03HeadTrigger(cfg, &q, &p) && steer(vfC03KeyHead)) {
				p.Framing = "chunked"
				vf.Exclude()
			}
			for rep := 0; rep < reps; rep++ {
				q := q
				prevMethod := ""
				if repMethods != nil {
					q.Method = repMethods[rep]
					if rep > 0 {
						prevMethod = repMethods[rep-1]
					}
				}
				wire := q.toWire()
				resp, seen, frontLog, transient, err := rig.exchange(wire, p.toScript())
				if err != nil {
					if err == errVfxTimeout {
						rt.Fatalf("VF-INCONCLUSIVE no complete response within %v for %s", vfxIOTimeout, wire)
					}
					rt.Fatalf("VF-INCONCLUSIVE client I/O problem: %v", err)
				}
				if transient {
					vf.Class("transient-503-without-backend-contact-retried")
				}
				mirroredEarlier := rig.mirroredBefore // an earlier exchange of this case may have left a mirror copy behind

				// classes
				reserved := vfC03ReservedEsc.MatchString(q.RawPath)
				escaped := strings.Contains(q.RawPath, "%")
				listedPresent := false
				sentKeys, _ := vfC03HeaderMap(append(append([][2]string{}, q.E2E...), q.Hop...))
				for _, l := range q.Listed {
					if _, ok := sentKeys[l]; ok && l != "Connection" {
						listedPresent = true
					}
				}
				recode := cfg.ReqAdaptor != "" || cfg.RespAdaptor != "" || (cfg.Compression >= 0 && vfC03AcceptGzipPerDocs(&q)) || vfC03TransportDecoded(&q, &p)
				stream := vfC03ReqStream(cfg) || vfC03RespStream(cfg)
				hasBody := q.BodyN > 0 || (p.BodyN > 0 && q.Method != "HEAD")
				nontrivial := hasBody && (listedPresent || recode || escaped || stream)
				vf.Class("method="+q.Method, fmt.Sprintf("client-status=%dxx", resp.Status/100), "resp-framing="+resp.Framing,
					"backend-framing="+p.Framing, "req-framing="+q.Framing)
				for n, on := range map[string]bool{"path-escaped": escaped, "path-escaped-reserved": reserved, "connection-lists-present-header": listedPresent,
					"recode-step": recode, "req-stream": vfC03ReqStream(cfg), "resp-stream": vfC03RespStream(cfg), "req-body": q.BodyN > 0, "resp-body": p.BodyN > 0,
					"req-gzip-labelled": q.Gzip, "resp-gzip-labelled": p.Gzip, "server-by-hostname": cfg.ByHostName, "keepHost": cfg.KeepHost,
					"compression-configured": cfg.Compression >= 0, "reqadaptor=" + cfg.ReqAdaptor: cfg.ReqAdaptor != "", "respadaptor=" + cfg.RespAdaptor: cfg.RespAdaptor != "",
					"body>=70KiB": q.BodyN >= 70*1024 || p.BodyN >= 70*1024, "hop-header-sent": len(q.Hop) > 0, "conn-reused": rig.lastReused, "query": q.Query != "", "pool-timeout": cfg.PoolTimeout != "",
					"route-cache-on": cfg.CacheSize > 0, "repeated-request": rep > 0, "repeated-request-route-cache-on": rep > 0 && cfg.CacheSize > 0,
					"retry-policy": cfg.RetryAttempts > 0, "retry-after-failed-attempts": len(p.Pre) > 0, "retry-after-failed-attempts-with-body": len(p.Pre) > 0 && q.BodyN > 0,
					"backend-cuts-body": p.Cut, "backend-cuts-body-stream": p.Cut && vfC03RespStream(cfg), "backend-cuts-body-stream-recoded": p.Cut && vfC03RespStream(cfg) && (cfg.RespAdaptor != "" || vfC03CompressApplies(cfg, &q, &p)),
					"mirrorPool": cfg.Mirror, "mirrored-request": mirrored, "mirrored-request-with-body": mirrored && q.BodyN > 0, "mirrored-stream-request-with-body": mirrored && q.BodyN > 0 && vfC03ReqStream(cfg),
					"mirrored-request:copy-seen-by-mirror-server": mirrored && len(rig.mirrored()) > 0, "mirrored-request:copy-not-seen-within-join-wait": mirrored && len(seen) > 0 && len(rig.mirrored()) == 0,
					"respadaptor-replaces-gzip-labelled-body":           strings.HasPrefix(cfg.RespAdaptor, "body") && !failFinal && q.Method != "HEAD" && p.Status != 204 && p.Status != 304 && vfC03GzipLabelledBehindProxy(cfg, &q, &p),
					"respadaptor-body+compress-over-gzip-labelled-body": cfg.RespAdaptor == "body+compress" && !failFinal && q.Method != "HEAD" && p.Status != 204 && p.Status != 304 && vfC03GzipLabelledBehindProxy(cfg, &q, &p),
					"failureCodes-configured":                           len(cfg.FailureCodes) > 0, "failureCodes-without-retry-policy": len(cfg.FailureCodes) > 0 && cfg.RetryAttempts == 0,
					"failure-code-final-answer": failFinal, "failure-code-final-answer-with-body": failFinal && p.BodyN > 0 && q.Method != "HEAD", "failure-code-final-answer-with-headers": failFinal && len(p.E2E) > 0,
					"failure-code-final-answer-retried": failFinal && len(seen) > 1, "failure-code-final-answer-respadaptor-skipped": failFinal && cfg.RespAdaptor != "",
					"memoryCache-head-and-get-of-one-url": repMethods != nil, "memoryCache-get-after-head-of-same-url": prevMethod == "HEAD" && q.Method == "GET", "memoryCache-head-after-get-of-same-url": prevMethod == "GET" && q.Method == "HEAD",
					"memoryCache-get-after-head-of-same-url(backend-not-contacted)": prevMethod == "HEAD" && q.Method == "GET" && len(seen) == 0,
					"memoryCache": cfg.MemCache != nil, "memoryCache-repeated-cacheable-request": cacheable && rep > 0,
					"memoryCache-hit(backend-not-contacted)":         cacheable && rep > 0 && len(seen) == 0,
					"memoryCache-3rd+-repetition-behind-respadaptor": cacheable && rep >= 2 && cfg.RespAdaptor != ""} {
					if on {
						vf.Class(n)
					}
				}
				desc := fmt.Sprintf("repetition %d of %d\ncfg{%s}\nrequest{%s}\nbackend-script{status=%d hdr=%q hop=%q body=%d/%d gzip=%v framing=%s cut=%v/declared=%v/permille=%d failing-attempts=%v}", rep+1, reps, strings.ReplaceAll(rig.pipeYAML+rig.srvYAML, "\n", "; "), wire, p.Status, p.E2E, p.Hop, p.BodyN, p.BodySeed, p.Gzip, p.Framing, p.Cut, p.CutDeclared, p.CutPermille, p.Pre)
				// distinct-case key: ports vary between runs, keep them out
				mc := ""
				if cfg.MemCache != nil {
					mc = fmt.Sprintf("%+v", *cfg.MemCache)
				}
				dk := fmt.Sprintf("%+v|%s|%+v|%+v|%d", *cfg, mc, q, p, rep)
				vf.Case(nontrivial, dk, func() interface{} {
					var s string
					if len(seen) > 0 {
						s = seen[len(seen)-1].String()
					}
					return map[string]interface{}{"case": desc, "backend_received": s, "client_received": resp.String()}
				})

				// what the response is judged against: the flow ended at the Proxy when it reported
				// failureCode, so a ResponseAdaptor behind it did not run
				cfg := cfg
				if failFinal && cfg.RespAdaptor != "" {
					c2 := *cfg
					c2.RespAdaptor, c2.RespAdaptorBody = "", ""
					cfg = &c2
				}
				fail := func(v *vfC03Verdict) bool {
					key := v.Symptom
					respSide := strings.HasPrefix(v.Symptom, "resp-") || v.Symptom == "req-not-forwarded"
					switch {
					case v.Symptom == "harness":
						rt.Fatalf("VF-INCONCLUSIVE %s", v.Text)
					case v.Symptom == "resp-status" && mirroredEarlier && resp.Status == 503 && p.Status != 503 && len(seen) > 0:
						key = vfC03KeyMirrorCancel
					case vfxPanicSite(frontLog) != "":
						key = "handler-panic " + vfxPanicSite(frontLog)
					case reserved && (v.Symptom == "req-path" || v.Symptom == "req-query" || v.Symptom == "req-not-forwarded"):
						key = vfC03KeyPath
					case v.Symptom == "resp-cut-body-delivered-as-complete" && vfC03RespStream(cfg) && len(resp.Get("Content-Encoding")) == 0:
						// identity-coded and cleanly terminated: the mux swallowed the read error of the stream
						key = vfC03KeyStreamCut
					case v.Symptom == "req-not-forwarded":
					case respSide && cfg.PoolTimeout != "" && vfC03RespStream(cfg) && v.Symptom != "resp-status" && v.Symptom != "resp-header":
						key = vfC03KeyTimeoutStream
					case respSide && vfC03HeadTrigger(cfg, &q, &p) && resp.Status == 500:
						key = vfC03KeyHead
					case respSide && vfC03CompressTrigger(cfg, &q, &p):
						key = vfC03KeyCompress
					case respSide && vfC03RABodyTrigger(cfg, &q, &p) && v.Symptom != "resp-status" && v.Symptom != "resp-header":
						key = vfC03KeyRABody
					}
					if len(frontLog) > 3000 {
						frontLog = frontLog[:3000] + "…"
					}
					return vf.Violation(rt, key, "%s\n%s\nbackend received: %v\nclient received: %s\nfront server log: %s", v.Text, desc, seen, resp, frontLog)
				}

				// 1. framing of whatever was written to the socket (a torn response is what a proxy can
				// honestly do when the backend dropped the connection in the middle of the body)
				if p.Cut {
					// judged below
				} else if v := vfC03CheckFraming(resp); v != nil {
					if fail(v) {
						rig.dropConn()
						continue
					}
				}
				// 2. request direction (a request that never reached the backend is judged there too);
				// a repetition of a cacheable request may legitimately be answered by the memoryCache
				if cacheable && rep > 0 && len(seen) == 0 {
					// nothing to compare
				} else {
					// every attempt that reached the backend must have carried the whole request; the last
					// one produced the response
					var v *vfC03Verdict
					if len(seen) == 0 {
						v = vfC03CheckRequest(cfg, &q, rig, seen, resp)
					}
					for j := range seen {
						if v = vfC03CheckRequest(cfg, &q, rig, seen[j:j+1], resp); v != nil {
							if len(seen) > 1 {
								v.Text = fmt.Sprintf("attempt %d of %d that reached the backend: %s", j+1, len(seen), v.Text)
								if v.Symptom == "req-body" && j > 0 {
									v.Symptom = "req-body-on-retry"
								}
							}
							break
						}
					}
					if v == nil && len(seen) < len(p.Pre)+1 && !p.Cut {
						v = &vfC03Verdict{"harness", fmt.Sprintf("backend scripted %d failing attempts but saw only %d arrivals", len(p.Pre), len(seen))}
					}
					if v != nil {
						if fail(v) {
							rig.dropConn()
							continue
						}
					}
				}
				// 3. response direction
				if p.Cut {
					if v := vfC03CheckCut(cfg, &q, &p, resp, vf); v != nil {
						if fail(v) {
							rig.dropConn()
						}
					}
					continue
				}
				var amb []string
				if v := vfC03CheckResponse(cfg, &q, &p, resp, &amb); v != nil {
					if fail(v) {
						rig.dropConn()
						continue
					}
				}
				vf.Class(amb...)
				if len(p.Hop) > 0 {
					vf.Class("ambiguous-backend-hop-header-not-judged")
				}
			}
		}
	})
}
