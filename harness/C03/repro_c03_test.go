//go:build go1.21

package httpserver

import (
	"bytes"
	"strings"
	"testing"
)

// Minimal standalone reproductions of the genuine defects recorded in proposed_known.jsonl.
// They are not part of the check's run regexp (^TestVerifC03); run one with e.g.
//   build/C03/C03-*.test -test.run '^TestVerifReproC03Head$' -test.v
// Each FAILS on the unchanged tree and must pass once the defect is repaired.

func vfReproRig(t *testing.T, cfg *vfxCfg) *vfxRig {
	if cfg.Paths == nil {
		cfg.Paths = []vfxPathCfg{{Prefix: "/"}}
	}
	if cfg.Pools == nil {
		cfg.Pools = []vfxPoolCfg{{}}
	}
	rig, err := vfxNewRig(cfg)
	if err != nil {
		t.Fatalf("rig: %v", err)
	}
	t.Cleanup(rig.Close)
	return rig
}

// prepareRequest concatenates the decoded path into the backend URL.
func TestVerifReproC03EscapedPath(t *testing.T) {
	rig := vfReproRig(t, &vfxCfg{Compression: -1})
	for _, tc := range []struct{ target, wantPath, wantQuery string }{
		{"/q%3Fx?a=1", "/q?x", "a=1"},
		{"/h%23frag/tail", "/h#frag/tail", ""},
		{"/%2541", "/%41", ""},
		{"/p%25", "/p%", ""},
	} {
		rig.setScript(&vfxScript{Status: 200, Framing: "cl", Body: []byte("ok")})
		resp, err := rig.do(&vfxRequest{Method: "GET", Target: tc.target, Host: "repro.test", Framing: "none"})
		if err != nil {
			t.Fatal(err)
		}
		seen := rig.received()
		if len(seen) == 0 {
			t.Errorf("%s: backend never contacted, client got %d", tc.target, resp.Status)
			continue
		}
		if seen[0].Path != tc.wantPath || seen[0].RawQuery != tc.wantQuery {
			t.Errorf("%s: backend saw path %q query %q (request-target %q), want path %q query %q", tc.target, seen[0].Path, seen[0].RawQuery, seen[0].RequestURI, tc.wantPath, tc.wantQuery)
		}
	}
}

// compression.compress keeps resp.ContentLength: FetchPayload reads the uncompressed length from the gzip stream.
func TestVerifReproC03CompressionBuffered(t *testing.T) {
	rig := vfReproRig(t, &vfxCfg{Compression: 0})
	body := []byte(strings.Repeat("compressible text ", 64))
	rig.setScript(&vfxScript{Status: 200, Framing: "cl", Body: body})
	resp, err := rig.do(&vfxRequest{Method: "GET", Target: "/", Host: "repro.test", Framing: "none", Headers: [][2]string{{"Accept-Encoding", "gzip"}}})
	if err != nil {
		t.Fatal(err)
	}
	if resp.Status != 200 {
		t.Fatalf("backend answered 200 with %d bytes and Content-Length, client got %s", len(body), resp)
	}
	got, err := vfxGunzip(resp.Body)
	if err != nil || !bytes.Equal(got, body) {
		t.Fatalf("body does not decode to the backend's: %v %s", err, resp)
	}
}

// compression + stream mode: collectMetrics dereferences a nil *CallbackReader.
func TestVerifReproC03CompressionStreamPanic(t *testing.T) {
	rig := vfReproRig(t, &vfxCfg{Compression: 0, ProxyServerMax: -1})
	body := []byte(strings.Repeat("compressible text ", 64))
	rig.setScript(&vfxScript{Status: 200, Framing: "cl", Body: body})
	resp, err := rig.do(&vfxRequest{Method: "GET", Target: "/", Host: "repro.test", Framing: "none"})
	if err != nil {
		t.Fatal(err)
	}
	if resp.Status != 200 {
		t.Fatalf("client got %s\nfront server log: %s", resp, rig.hub.frontLog.take())
	}
}

// ResponseAdaptor body keeps the backend's Content-Length.
func TestVerifReproC03ResponseAdaptorBody(t *testing.T) {
	rig := vfReproRig(t, &vfxCfg{Compression: -1, RespAdaptor: "body", RespAdaptorBody: "replaced body"})
	for _, backendBody := range []string{"", strings.Repeat("x", 100)} {
		rig.setScript(&vfxScript{Status: 200, Framing: "cl", Body: []byte(backendBody)})
		resp, err := rig.do(&vfxRequest{Method: "GET", Target: "/", Host: "repro.test", Framing: "none"})
		if err != nil {
			t.Fatal(err)
		}
		if resp.FramingErr != "" || string(resp.Body) != "replaced body" {
			t.Errorf("backend body of %d bytes: client got %s", len(backendBody), resp)
		}
	}
}

// HEAD in buffered mode: FetchPayload reads Content-Length bytes from an absent body.
func TestVerifReproC03Head(t *testing.T) {
	rig := vfReproRig(t, &vfxCfg{Compression: -1})
	rig.setScript(&vfxScript{Status: 200, Framing: "cl", Body: []byte("hello")})
	resp, err := rig.do(&vfxRequest{Method: "HEAD", Target: "/", Host: "repro.test", Framing: "none", Headers: [][2]string{{"Accept-Encoding", "identity"}}})
	if err != nil {
		t.Fatal(err)
	}
	if resp.Status != 200 {
		t.Fatalf("backend answered HEAD with 200 Content-Length: 5, client got %s", resp)
	}
}

// pool timeout + stream mode: the per-attempt context is cancelled when the handler returns,
// i.e. before the mux has copied the streamed body to the client (outside C03's stated quantifier).
func TestVerifReproC03TimeoutStream(t *testing.T) {
	rig := vfReproRig(t, &vfxCfg{Compression: -1, ProxyServerMax: -1, PoolTimeout: "120s"})
	body := vfxBody(7, 5<<20, 1)
	rig.setScript(&vfxScript{Status: 200, Framing: "cl", Body: body})
	resp, err := rig.do(&vfxRequest{Method: "GET", Target: "/", Host: "repro.test", Framing: "none", Headers: [][2]string{{"Accept-Encoding", "identity"}}})
	if err != nil {
		t.Fatal(err)
	}
	if resp.FramingErr != "" || !bytes.Equal(resp.Body, body) {
		t.Fatalf("client got %s", resp)
	}
}

// mux ignores the read error of a streamed response body: a backend that drops the connection in
// the middle of a chunked body yields a cleanly terminated, silently truncated 200.
func TestVerifReproC03StreamCutBody(t *testing.T) {
	rig := vfReproRig(t, &vfxCfg{Compression: -1, ProxyServerMax: -1})
	body := vfxBody(9, 70*1024, 0)
	rig.setScript(&vfxScript{Status: 200, Framing: "cut", Body: body, CutAt: 1000})
	resp, err := rig.do(&vfxRequest{Method: "GET", Target: "/", Host: "repro.test", Framing: "none", Headers: [][2]string{{"Accept-Encoding", "identity"}}})
	if err != nil {
		t.Fatal(err)
	}
	if resp.Status == 200 && resp.FramingErr == "" && !bytes.Equal(resp.Body, body) {
		t.Fatalf("backend sent 1000 of %d bytes and dropped the connection; client got a well-framed complete-looking response: %s", len(body), resp)
	}
}
