//go:build go1.21

// Socket-less leg of C03: the Proxy filter is handed a request parsed by net/http's own request
// parser, fnSendRequest is replaced by a recorder, and the *http.Request the Proxy would give to
// the transport is rendered (Request.Write) and parsed again. This reaches server URL forms the
// loopback rig cannot address (IPv4/IPv6 literals with and without port, host names, https) at
// high volume; the oracle is the statement (Host rule, method/path/query/body unchanged,
// end-to-end headers kept, hop-by-hop headers and everything Connection names removed).
package proxy

import (
	"bufio"
	"bytes"
	"fmt"
	"io"
	"net/http"
	"net/url"
	"strconv"
	"strings"
	"testing"

	"gopkg.in/yaml.v3"
	"pgregory.net/rapid"

	egcontext "github.com/megaease/easegress/pkg/context"
	"github.com/megaease/easegress/pkg/filters"
	"github.com/megaease/easegress/pkg/logger"
	"github.com/megaease/easegress/pkg/protocols/httpprot"
	"github.com/megaease/easegress/pkg/resilience"
	"github.com/megaease/easegress/pkg/tracing"
)

func init() { logger.InitNop() }

type vfR3Server struct {
	Scheme   string
	Host     string // as written in the URL, without port (IPv6 in brackets)
	Port     string // "" or ":n"
	Kind     string // v4 | v6 | name
	KeepHost bool
}

func (s vfR3Server) URL() string { return s.Scheme + "://" + s.Host + s.Port }

// vfR3IsIPLiteral: independent of net.ParseIP. A bracketed host is an IPv6 literal by RFC 3986;
// otherwise four decimal octets make an IPv4 literal.
func vfR3IsIPLiteral(host string) bool {
	if strings.HasPrefix(host, "[") && strings.HasSuffix(host, "]") {
		return true
	}
	parts := strings.Split(host, ".")
	if len(parts) != 4 {
		return false
	}
	for _, p := range parts {
		if p == "" || len(p) > 3 {
			return false
		}
		n := 0
		for _, c := range p {
			if c < '0' || c > '9' {
				return false
			}
			n = n*10 + int(c-'0')
		}
		if n > 255 {
			return false
		}
	}
	return true
}

var (
	vfR3V4    = []string{"10.1.2.3", "127.0.0.1", "192.168.0.10", "8.8.8.8"}
	vfR3V6    = []string{"[::1]", "[2001:db8::1]", "[fe80:cd00:0:cde:1257:0:211e:729c]", "[::ffff:10.0.0.1]", "[2001:DB8::A]"}
	vfR3Names = []string{"backend.internal", "localhost", "svc", "UPPER.Example.COM", "a-b.c1.test", "1e100.net", "v4.10-1-2-3.test"}
	vfR3Segs  = []string{"a", "api", "v1", "x-y_z.~", "", "a%20b", "a%2Fb", "q%3Fx", "%23", "p%25", "%2541", "caf%C3%A9", "a+b", "a:b@c", "$&'()*,;="}
	vfR3Query = []string{"a=1", "a=2", "b=", "c", "d=x+y", "e=%20%26%3D", "k=a/b?c", "m=a;b", "f=%zz", "="}
	vfR3Keys  = []string{"X-Vf-A", "X-Vf-B", "x-vf-lower", "X-VF-UPPER", "Accept", "Cookie", "Authorization", "Content-Type", "X-Request-Id", "Cache-Control"}
	vfR3Vals  = []string{"1", "v", "a, b", "text/plain; charset=utf-8", "\"q\"", "x=1; y=2", "Bearer abc.def", "", "a  b"}
	vfR3Hop   = []string{"Connection", "Keep-Alive", "Proxy-Connection", "Proxy-Authenticate", "Proxy-Authorization", "Te", "Trailer", "Transfer-Encoding", "Upgrade"}
)

func vfR3GenServer(rt *rapid.T) vfR3Server {
	s := vfR3Server{}
	s.Scheme = rapid.SampledFrom([]string{"http", "http", "https"}).Draw(rt, "scheme")
	s.Kind = rapid.SampledFrom([]string{"v4", "v6", "v6", "name", "name"}).Draw(rt, "hostkind")
	switch s.Kind {
	case "v4":
		s.Host = rapid.SampledFrom(vfR3V4).Draw(rt, "v4")
	case "v6":
		s.Host = rapid.SampledFrom(vfR3V6).Draw(rt, "v6")
	default:
		s.Host = rapid.SampledFrom(vfR3Names).Draw(rt, "name")
	}
	s.Port = rapid.SampledFrom([]string{"", "", ":8080", ":80", ":65535"}).Draw(rt, "port")
	s.KeepHost = rapid.IntRange(0, 2).Draw(rt, "keephost") == 0
	return s
}

type vfR3Req struct {
	Method  string
	RawPath string
	Query   string
	Host    string
	E2E     [][2]string
	Hop     [][2]string
	Listed  []string
	Body    []byte
	Chunked bool
	Stream  bool
}

func (q vfR3Req) wire() []byte {
	var b bytes.Buffer
	fmt.Fprintf(&b, "%s %s%s HTTP/1.1\r\nHost: %s\r\n", q.Method, q.RawPath, q.Query, q.Host)
	half := len(q.E2E) / 2
	for _, kv := range q.E2E[:half] {
		fmt.Fprintf(&b, "%s: %s\r\n", kv[0], kv[1])
	}
	for _, kv := range q.Hop {
		fmt.Fprintf(&b, "%s: %s\r\n", kv[0], kv[1])
	}
	for _, kv := range q.E2E[half:] {
		fmt.Fprintf(&b, "%s: %s\r\n", kv[0], kv[1])
	}
	switch {
	case q.Chunked:
		b.WriteString("Transfer-Encoding: chunked\r\n\r\n")
		if len(q.Body) > 0 {
			fmt.Fprintf(&b, "%x\r\n", len(q.Body))
			b.Write(q.Body)
			b.WriteString("\r\n")
		}
		b.WriteString("0\r\n\r\n")
	case len(q.Body) > 0:
		fmt.Fprintf(&b, "Content-Length: %d\r\n\r\n", len(q.Body))
		b.Write(q.Body)
	default:
		b.WriteString("\r\n")
	}
	return b.Bytes()
}

func vfR3GenReq(rt *rapid.T) vfR3Req {
	q := vfR3Req{}
	q.Method = rapid.SampledFrom([]string{"GET", "POST", "PUT", "DELETE", "PATCH", "OPTIONS", "HEAD"}).Draw(rt, "method")
	n := rapid.IntRange(0, 4).Draw(rt, "nseg")
	var segs []string
	for i := 0; i < n; i++ {
		segs = append(segs, rapid.SampledFrom(vfR3Segs).Draw(rt, "seg"))
	}
	q.RawPath = "/" + strings.Join(segs, "/")
	switch rapid.IntRange(0, 4).Draw(rt, "querykind") {
	case 0, 1:
	case 2:
		q.Query = "?"
	default:
		k := rapid.IntRange(1, 3).Draw(rt, "nq")
		var parts []string
		for i := 0; i < k; i++ {
			parts = append(parts, rapid.SampledFrom(vfR3Query).Draw(rt, "qpart"))
		}
		q.Query = "?" + strings.Join(parts, "&")
	}
	q.Host = rapid.SampledFrom([]string{"shop.example.com", "shop.example.com:8443", "10.9.8.7", "[::2]:81", "UPPER.Client.ORG", "c"}).Draw(rt, "clienthost")
	ne := rapid.IntRange(0, 4).Draw(rt, "ne2e")
	for i := 0; i < ne; i++ {
		q.E2E = append(q.E2E, [2]string{rapid.SampledFrom(vfR3Keys).Draw(rt, "hkey"), rapid.SampledFrom(vfR3Vals).Draw(rt, "hval")})
	}
	if rapid.IntRange(0, 2).Draw(rt, "has-connection") > 0 {
		cands := []string{"keep-alive", "x-vf-ghost", "upgrade", "close"}
		for _, kv := range q.E2E {
			ck := http.CanonicalHeaderKey(kv[0])
			if strings.HasPrefix(ck, "X-Vf-") || ck == "Cookie" || ck == "Authorization" || ck == "X-Request-Id" {
				cands = append(cands, kv[0])
			}
		}
		nt := rapid.IntRange(1, 3).Draw(rt, "ntokens")
		var toks []string
		for i := 0; i < nt; i++ {
			t := rapid.SampledFrom(cands).Draw(rt, "token")
			switch rapid.IntRange(0, 2).Draw(rt, "tokencase") {
			case 0:
				t = strings.ToLower(t)
			case 1:
				t = strings.ToUpper(t)
			}
			toks = append(toks, t)
			q.Listed = append(q.Listed, http.CanonicalHeaderKey(t))
		}
		q.Hop = append(q.Hop, [2]string{"Connection", strings.Join(toks, rapid.SampledFrom([]string{",", ", ", " ,"}).Draw(rt, "sep"))})
	}
	for _, h := range [][2]string{{"Keep-Alive", "timeout=5"}, {"Proxy-Connection", "keep-alive"}, {"Proxy-Authenticate", "Basic realm=\"x\""},
		{"Proxy-Authorization", "Basic dTpw"}, {"TE", "trailers"}, {"Trailer", "X-Vf-T"}, {"Upgrade", "websocket"}} {
		if rapid.IntRange(0, 4).Draw(rt, "hop-"+h[0]) == 0 {
			q.Hop = append(q.Hop, h)
		}
	}
	if rapid.IntRange(0, 2).Draw(rt, "has-body") == 0 {
		nb := rapid.SampledFrom([]int{1, 17, 300, 5000}).Draw(rt, "bodysize")
		seed := rapid.IntRange(1, 1<<16).Draw(rt, "bodyseed")
		q.Body = make([]byte, nb)
		x := uint32(seed)*2654435761 + 1
		for i := range q.Body {
			x ^= x << 13
			x ^= x >> 17
			x ^= x << 5
			q.Body[i] = byte(x >> 9)
		}
		q.Chunked = rapid.Bool().Draw(rt, "chunked")
	}
	q.Stream = rapid.IntRange(0, 3).Draw(rt, "stream") == 0
	return q
}

// vfR3Rendered is what the Proxy handed to the transport.
type vfR3Rendered struct {
	URL      *url.URL
	Header   http.Header // as given to the transport
	WireHost string      // Host header line the transport would write
	Method   string
	Target   string // request-target on the wire
	Body     []byte
	Err      string
}

func TestVerifC03Render(t *testing.T) {
	vf := vfBegin(t, "C03")
	defer vf.End()
	saved := fnSendRequest
	defer func() { fnSendRequest = saved }()

	rapid.Check(t, func(rt *rapid.T) {
		srv := vfR3GenServer(rt)
		y := "name: proxy\nkind: Proxy\npools:\n- servers:\n  - url: " + strconv.Quote(srv.URL()) + "\n"
		if srv.KeepHost {
			y += "    keepHost: true\n"
		}
		raw := map[string]interface{}{}
		if err := yaml.Unmarshal([]byte(y), &raw); err != nil {
			rt.Fatalf("VF-INCONCLUSIVE yaml: %v", err)
		}
		spec, err := filters.NewSpec(nil, "", raw)
		if err != nil {
			rt.Fatalf("VF-INCONCLUSIVE generator produced a proxy spec that validation rejects: %v\n%s", err, y)
		}
		px := kind.CreateInstance(spec).(*Proxy)
		px.Init()
		px.InjectResiliencePolicy(map[string]resilience.Policy{})
		defer px.Close()

		isIP := vfR3IsIPLiteral(srv.Host)
		nreq := rapid.IntRange(1, 5).Draw(rt, "nreq")
		for i := 0; i < nreq; i++ {
			q := vfR3GenReq(rt)
			stdr, err := http.ReadRequest(bufio.NewReader(bytes.NewReader(q.wire())))
			if err != nil {
				rt.Fatalf("VF-INCONCLUSIVE generator produced a request net/http rejects: %v\n%q", err, q.wire())
			}
			req, _ := httpprot.NewRequest(stdr)
			limit := int64(0)
			if q.Stream {
				limit = -1
			}
			if err := req.FetchPayload(limit); err != nil {
				rt.Fatalf("VF-INCONCLUSIVE FetchPayload: %v", err)
			}
			ctx := egcontext.New(tracing.NoopSpan)
			ctx.SetRequest(egcontext.DefaultNamespace, req)

			var got *vfR3Rendered
			calls := 0
			fnSendRequest = func(r *http.Request, client *http.Client) (*http.Response, error) {
				calls++
				g := &vfR3Rendered{URL: r.URL, Header: r.Header.Clone(), Method: r.Method}
				var buf bytes.Buffer
				if err := r.Write(&buf); err != nil {
					g.Err = "render: " + err.Error()
				} else if parsed, err := http.ReadRequest(bufio.NewReader(&buf)); err != nil {
					g.Err = "re-parse: " + err.Error()
				} else {
					g.WireHost, g.Target = parsed.Host, parsed.RequestURI
					g.Body, _ = io.ReadAll(parsed.Body)
				}
				got = g
				return &http.Response{StatusCode: 200, Proto: "HTTP/1.1", ProtoMajor: 1, ProtoMinor: 1, Header: http.Header{},
					Body: io.NopCloser(strings.NewReader("ok")), ContentLength: 2, Request: r}, nil
			}
			result := px.Handle(ctx)
			ctx.Finish()

			// classes / non-triviality: an address form other than ip:port / name:port, or keepHost,
			// or a Connection-listed header that is present, or an escaped path
			listedPresent := false
			sent := map[string][]string{}
			var order []string
			for _, kv := range append(append([][2]string{}, q.E2E...), q.Hop...) {
				k := http.CanonicalHeaderKey(kv[0])
				if _, ok := sent[k]; !ok {
					order = append(order, k)
				}
				sent[k] = append(sent[k], kv[1])
			}
			for _, l := range q.Listed {
				if _, ok := sent[l]; ok && l != "Connection" {
					listedPresent = true
				}
			}
			escaped := strings.Contains(q.RawPath, "%")
			form := srv.Kind
			if srv.Port == "" {
				form += "-noport"
			} else {
				form += "-port"
			}
			vf.Class("render:server="+form, "render:scheme="+srv.Scheme)
			if srv.KeepHost {
				vf.Class("render:keepHost")
			}
			if listedPresent {
				vf.Class("render:connection-lists-present-header")
			}
			if escaped {
				vf.Class("render:path-escaped")
			}
			if len(q.Body) > 0 {
				vf.Class("render:body")
			}
			nontrivial := srv.Port == "" || srv.Kind == "v6" || srv.KeepHost || listedPresent || escaped || srv.Scheme == "https"
			desc := fmt.Sprintf("server url %s keepHost=%v\nrequest %q", srv.URL(), srv.KeepHost, q.wire())
			vf.Case(nontrivial, desc, func() interface{} {
				m := map[string]interface{}{"case": desc}
				if got != nil {
					m["rendered"] = fmt.Sprintf("%s %s Host: %s url=%s hdr=%v", got.Method, got.Target, got.WireHost, got.URL, got.Header)
				}
				return m
			})
			bad := func(key, format string, a ...interface{}) bool {
				return vf.Violation(rt, key, "%s\n%s\nproxy result %q, rendered %+v", fmt.Sprintf(format, a...), desc, result, got)
			}

			if got == nil || calls != 1 || result != "" {
				if bad("render:req-not-forwarded", "the Proxy did not hand exactly one request to the transport (calls=%d)", calls) {
					continue
				}
			}
			if got.Err != "" {
				if bad("render:unrenderable", "the request handed to the transport cannot be written/parsed: %s", got.Err) {
					continue
				}
			}
			// Host rule of the statement
			wantHost := q.Host
			rule := "client's Host (server addressed by IP literal or keepHost)"
			if !isIP && !srv.KeepHost {
				wantHost = srv.Host + srv.Port
				rule = "the server's own host (host-name server, keepHost off)"
			}
			if !strings.EqualFold(got.WireHost, wantHost) {
				if bad("render:req-host:"+form, "Host on the wire %q, want %q = %s", got.WireHost, wantHost, rule) {
					continue
				}
			}
			// the request goes to the configured server
			if got.URL.Scheme != srv.Scheme || !strings.EqualFold(got.URL.Host, srv.Host+srv.Port) {
				if bad("render:req-url", "request addressed to %s://%s, server is %s", got.URL.Scheme, got.URL.Host, srv.URL()) {
					continue
				}
			}
			if got.Method != q.Method {
				if bad("render:req-method", "method %q, client sent %q", got.Method, q.Method) {
					continue
				}
			}
			wantPath, _ := url.PathUnescape(q.RawPath)
			tpath, tquery := got.Target, ""
			if j := strings.IndexByte(tpath, '?'); j >= 0 {
				tpath, tquery = tpath[:j], tpath[j+1:]
			}
			gotPath, perr := url.PathUnescape(tpath)
			if perr != nil || gotPath != wantPath {
				if bad("render:req-path", "request-target %q decodes to path %q (%v), client sent %q (decoded %q)", got.Target, gotPath, perr, q.RawPath, wantPath) {
					continue
				}
			}
			if tquery != strings.TrimPrefix(q.Query, "?") {
				if bad("render:req-query", "request-target %q carries raw query %q, client sent %q", got.Target, tquery, strings.TrimPrefix(q.Query, "?")) {
					continue
				}
			}
			if !bytes.Equal(got.Body, q.Body) {
				if bad("render:req-body", "body on the wire %d bytes, client sent %d bytes", len(got.Body), len(q.Body)) {
					continue
				}
			}
			hop := map[string]bool{}
			for _, h := range vfR3Hop {
				hop[h] = true
			}
			for _, l := range q.Listed {
				hop[l] = true
			}
			failed := false
			for _, k := range order {
				if hop[k] {
					continue
				}
				if fmt.Sprint(got.Header[k]) != fmt.Sprint(sent[k]) || len(got.Header[k]) != len(sent[k]) {
					failed = bad("render:req-header", "end-to-end header %s: client sent %q, transport gets %q", k, sent[k], got.Header[k]) || failed
					break
				}
			}
			if failed {
				continue
			}
			hopNames := append(append([]string{}, vfR3Hop...), q.Listed...)
			for _, k := range hopNames {
				if v, ok := got.Header[k]; ok {
					key := "render:req-hop-listed"
					for _, f := range vfR3Hop {
						if f == k {
							key = "render:req-hop-fixed:" + k
						}
					}
					if bad(key, "hop-by-hop header %s handed to the transport with %q", k, v) {
						break
					}
				}
			}
		}
	})
}
