//go:build go1.21

// Socket-less leg of C03: the Proxy filter is handed a request parsed by net/http's own request
// parser, fnSendRequest is replaced by a recorder, and the *http.Request the Proxy would give to
// the transport is rendered (Request.Write) and parsed again. This reaches server URL forms the
// loopback rig cannot address (IPv4/IPv6 literals with and without port, host names, https) at
// high volume; the oracle is the statement (Host rule, method/path/query/body unchanged,
// end-to-end headers kept, hop-by-hop headers and everything Connection names removed).
//
// Where the servers of the pool come from is a dimension of its own: a static list (1-3 servers of
// mixed address forms), or service discovery (serviceName + serverTags): instance lists with host
// name and IP-addressed instances are fed either directly through ServerPool.useService (the call
// the watcher goroutine makes) or through a real ServiceRegistry system controller with a
// scripted registry behind it (first listing in NewServerPool, later lists as registry events).
// The Host rule is judged for the server the request was actually addressed to: a discovered
// instance never has keepHost, the static list (fallback when no instance carries a wanted tag)
// keeps its own keepHost flags.
package proxy

import (
	"bufio"
	"bytes"
	"fmt"
	"io"
	"net/http"
	"net/url"
	"strconv"
	"strings"
	"sync"
	"testing"
	"time"

	"gopkg.in/yaml.v3"
	"pgregory.net/rapid"

	egcontext "github.com/megaease/easegress/pkg/context"
	"github.com/megaease/easegress/pkg/filters"
	"github.com/megaease/easegress/pkg/logger"
	"github.com/megaease/easegress/pkg/object/serviceregistry"
	"github.com/megaease/easegress/pkg/option"
	"github.com/megaease/easegress/pkg/protocols/httpprot"
	"github.com/megaease/easegress/pkg/resilience"
	"github.com/megaease/easegress/pkg/supervisor"
	"github.com/megaease/easegress/pkg/tracing"
)

func init() { logger.InitNop() }

type vfR3Server struct {
	Scheme   string
	Host     string // as written in the URL, without port (IPv6 in brackets)
	Port     string // "" or ":n"
	Kind     string // v4 | v6 | name
	KeepHost bool
	Origin   string // static | discovered
}

func (s vfR3Server) URL() string { return s.Scheme + "://" + s.Host + s.Port }

// vfR3IsIPLiteral: independent of net.ParseIP. A bracketed host is an IPv6 literal by RFC 3986;
// otherwise four decimal octets make an IPv4 literal.
func vfR3IsIPLiteral(host string) bool {
	if strings.HasPrefix(host, "[") && strings.HasSuffix(host, "]") {
		return true
	}
	parts := strings.Split(host, ".")
	if len(parts) != 4 {
		return false
	}
	for _, p := range parts {
		if p == "" || len(p) > 3 {
			return false
		}
		n := 0
		for _, c := range p {
			if c < '0' || c > '9' {
				return false
			}
			n = n*10 + int(c-'0')
		}
		if n > 255 {
			return false
		}
	}
	return true
}

var (
	vfR3V4    = []string{"10.1.2.3", "127.0.0.1", "192.168.0.10", "8.8.8.8"}
	vfR3V6    = []string{"[::1]", "[2001:db8::1]", "[fe80:cd00:0:cde:1257:0:211e:729c]", "[::ffff:10.0.0.1]", "[2001:DB8::A]"}
	vfR3Names = []string{"backend.internal", "localhost", "svc", "UPPER.Example.COM", "a-b.c1.test", "1e100.net", "v4.10-1-2-3.test"}
	vfR3Segs  = []string{"a", "api", "v1", "x-y_z.~", "", "a%20b", "a%2Fb", "q%3Fx", "%23", "p%25", "%2541", "caf%C3%A9", "a+b", "a:b@c", "$&'()*,;="}
	vfR3Query = []string{"a=1", "a=2", "b=", "c", "d=x+y", "e=%20%26%3D", "k=a/b?c", "m=a;b", "f=%zz", "="}
	vfR3Keys  = []string{"X-Vf-A", "X-Vf-B", "x-vf-lower", "X-VF-UPPER", "Accept", "Cookie", "Authorization", "Content-Type", "X-Request-Id", "Cache-Control"}
	vfR3Vals  = []string{"1", "v", "a, b", "text/plain; charset=utf-8", "\"q\"", "x=1; y=2", "Bearer abc.def", "", "a  b"}
	vfR3Hop   = []string{"Connection", "Keep-Alive", "Proxy-Connection", "Proxy-Authenticate", "Proxy-Authorization", "Te", "Trailer", "Transfer-Encoding", "Upgrade"}
)

func vfR3GenServer(rt *rapid.T) vfR3Server {
	s := vfR3Server{}
	s.Scheme = rapid.SampledFrom([]string{"http", "http", "https"}).Draw(rt, "scheme")
	s.Kind = rapid.SampledFrom([]string{"v4", "v6", "v6", "name", "name"}).Draw(rt, "hostkind")
	switch s.Kind {
	case "v4":
		s.Host = rapid.SampledFrom(vfR3V4).Draw(rt, "v4")
	case "v6":
		s.Host = rapid.SampledFrom(vfR3V6).Draw(rt, "v6")
	default:
		s.Host = rapid.SampledFrom(vfR3Names).Draw(rt, "name")
	}
	s.Port = rapid.SampledFrom([]string{"", "", ":8080", ":80", ":65535"}).Draw(rt, "port")
	s.KeepHost = rapid.IntRange(0, 2).Draw(rt, "keephost") == 0
	return s
}

type vfR3Req struct {
	Method  string
	RawPath string
	Query   string
	Host    string
	E2E     [][2]string
	Hop     [][2]string
	Listed  []string
	Body    []byte
	Chunked bool
	Stream  bool
}

func (q vfR3Req) wire() []byte {
	var b bytes.Buffer
	fmt.Fprintf(&b, "%s %s%s HTTP/1.1\r\nHost: %s\r\n", q.Method, q.RawPath, q.Query, q.Host)
	half := len(q.E2E) / 2
	for _, kv := range q.E2E[:half] {
		fmt.Fprintf(&b, "%s: %s\r\n", kv[0], kv[1])
	}
	for _, kv := range q.Hop {
		fmt.Fprintf(&b, "%s: %s\r\n", kv[0], kv[1])
	}
	for _, kv := range q.E2E[half:] {
		fmt.Fprintf(&b, "%s: %s\r\n", kv[0], kv[1])
	}
	switch {
	case q.Chunked:
		b.WriteString("Transfer-Encoding: chunked\r\n\r\n")
		if len(q.Body) > 0 {
			fmt.Fprintf(&b, "%x\r\n", len(q.Body))
			b.Write(q.Body)
			b.WriteString("\r\n")
		}
		b.WriteString("0\r\n\r\n")
	case len(q.Body) > 0:
		fmt.Fprintf(&b, "Content-Length: %d\r\n\r\n", len(q.Body))
		b.Write(q.Body)
	default:
		b.WriteString("\r\n")
	}
	return b.Bytes()
}

func vfR3GenReq(rt *rapid.T) vfR3Req {
	q := vfR3Req{}
	q.Method = rapid.SampledFrom([]string{"GET", "POST", "PUT", "DELETE", "PATCH", "OPTIONS", "HEAD"}).Draw(rt, "method")
	n := rapid.IntRange(0, 4).Draw(rt, "nseg")
	var segs []string
	for i := 0; i < n; i++ {
		segs = append(segs, rapid.SampledFrom(vfR3Segs).Draw(rt, "seg"))
	}
	q.RawPath = "/" + strings.Join(segs, "/")
	switch rapid.IntRange(0, 4).Draw(rt, "querykind") {
	case 0, 1:
	case 2:
		q.Query = "?"
	default:
		k := rapid.IntRange(1, 3).Draw(rt, "nq")
		var parts []string
		for i := 0; i < k; i++ {
			parts = append(parts, rapid.SampledFrom(vfR3Query).Draw(rt, "qpart"))
		}
		q.Query = "?" + strings.Join(parts, "&")
	}
	q.Host = rapid.SampledFrom([]string{"shop.example.com", "shop.example.com:8443", "10.9.8.7", "[::2]:81", "UPPER.Client.ORG", "c"}).Draw(rt, "clienthost")
	ne := rapid.IntRange(0, 4).Draw(rt, "ne2e")
	for i := 0; i < ne; i++ {
		q.E2E = append(q.E2E, [2]string{rapid.SampledFrom(vfR3Keys).Draw(rt, "hkey"), rapid.SampledFrom(vfR3Vals).Draw(rt, "hval")})
	}
	if rapid.IntRange(0, 2).Draw(rt, "has-connection") > 0 {
		cands := []string{"keep-alive", "x-vf-ghost", "upgrade", "close"}
		for _, kv := range q.E2E {
			ck := http.CanonicalHeaderKey(kv[0])
			if strings.HasPrefix(ck, "X-Vf-") || ck == "Cookie" || ck == "Authorization" || ck == "X-Request-Id" {
				cands = append(cands, kv[0])
			}
		}
		nt := rapid.IntRange(1, 3).Draw(rt, "ntokens")
		var toks []string
		for i := 0; i < nt; i++ {
			t := rapid.SampledFrom(cands).Draw(rt, "token")
			switch rapid.IntRange(0, 2).Draw(rt, "tokencase") {
			case 0:
				t = strings.ToLower(t)
			case 1:
				t = strings.ToUpper(t)
			}
			toks = append(toks, t)
			q.Listed = append(q.Listed, http.CanonicalHeaderKey(t))
		}
		q.Hop = append(q.Hop, [2]string{"Connection", strings.Join(toks, rapid.SampledFrom([]string{",", ", ", " ,"}).Draw(rt, "sep"))})
	}
	for _, h := range [][2]string{{"Keep-Alive", "timeout=5"}, {"Proxy-Connection", "keep-alive"}, {"Proxy-Authenticate", "Basic realm=\"x\""},
		{"Proxy-Authorization", "Basic dTpw"}, {"TE", "trailers"}, {"Trailer", "X-Vf-T"}, {"Upgrade", "websocket"}} {
		if rapid.IntRange(0, 4).Draw(rt, "hop-"+h[0]) == 0 {
			q.Hop = append(q.Hop, h)
		}
	}
	if rapid.IntRange(0, 2).Draw(rt, "has-body") == 0 {
		nb := rapid.SampledFrom([]int{1, 17, 300, 5000}).Draw(rt, "bodysize")
		seed := rapid.IntRange(1, 1<<16).Draw(rt, "bodyseed")
		q.Body = make([]byte, nb)
		x := uint32(seed)*2654435761 + 1
		for i := range q.Body {
			x ^= x << 13
			x ^= x >> 17
			x ^= x << 5
			q.Body[i] = byte(x >> 9)
		}
		q.Chunked = rapid.Bool().Draw(rt, "chunked")
	}
	q.Stream = rapid.IntRange(0, 3).Draw(rt, "stream") == 0
	return q
}

// vfR3Rendered is what the Proxy handed to the transport.
type vfR3Rendered struct {
	URL      *url.URL
	Header   http.Header // as given to the transport
	WireHost string      // Host header line the transport would write
	Method   string
	Target   string // request-target on the wire
	Body     []byte
	Err      string
}

// ---------------------------------------------------------------------------------------------
// where the servers of the pool come from

var (
	vfR3InstNames = []string{"inst-a.svc.cluster.local", "node1", "API.Internal.Example", "10-0-0-5.pods.test", "db.example.com", "backend"}
	vfR3InstV4    = []string{"10.2.0.5", "172.16.5.4", "127.0.0.2", "192.168.7.70"}
	vfR3InstV6    = []string{"[fd00::7]", "[::1]"}
	vfR3Tags      = []string{"v1", "v2", "canary"}
)

// vfR3Inst is one instance a service registry reports.
type vfR3Inst struct {
	ID     string
	Scheme string // "" (= http), http, https
	Addr   string
	Kind   string // v4 | v6 | name
	Port   uint16
	Tags   []string
}

func (in vfR3Inst) server() vfR3Server {
	sch := in.Scheme
	if sch == "" {
		sch = "http"
	}
	return vfR3Server{Scheme: sch, Host: in.Addr, Port: ":" + strconv.Itoa(int(in.Port)), Kind: in.Kind, Origin: "discovered"}
}

func (in vfR3Inst) String() string {
	return fmt.Sprintf("%s=%s://%s:%d tags=%v", in.ID, in.Scheme, in.Addr, in.Port, in.Tags)
}

type vfR3Pool struct {
	Source     string // static | discovery
	Feed       string // direct | registry (discovery only)
	Candidate  bool   // the pool under test is a candidate pool selected by a request header
	Static     []vfR3Server
	ServerTags []string
	Policy     string
	Registry   string
	Service    string
}

func vfR3HasTag(want, have []string) bool {
	for _, w := range want {
		for _, h := range have {
			if w == h {
				return true
			}
		}
	}
	return false
}

func vfR3GenPool(rt *rapid.T, registryOK bool) *vfR3Pool {
	p := &vfR3Pool{Source: "static"}
	if rapid.Bool().Draw(rt, "servers-from-discovery") {
		p.Source = "discovery"
		p.Feed = "direct"
		if registryOK && rapid.IntRange(0, 2).Draw(rt, "feed-through-registry") == 0 {
			p.Feed = "registry"
		}
	}
	p.Candidate = rapid.IntRange(0, 3).Draw(rt, "candidate-pool") == 0
	ns := rapid.SampledFrom([]int{1, 1, 1, 2, 3}).Draw(rt, "nstatic")
	seen := map[string]bool{}
	for len(p.Static) < ns {
		s := vfR3GenServer(rt)
		s.Origin = "static"
		if k := strings.ToLower(s.URL()); !seen[k] {
			seen[k] = true
			p.Static = append(p.Static, s)
		}
	}
	if p.Source == "discovery" {
		p.ServerTags = []string{rapid.SampledFrom(vfR3Tags).Draw(rt, "servertag")}
		if rapid.IntRange(0, 2).Draw(rt, "two-servertags") == 0 {
			if t := rapid.SampledFrom(vfR3Tags).Draw(rt, "servertag2"); t != p.ServerTags[0] {
				p.ServerTags = append(p.ServerTags, t)
			}
		}
	}
	p.Policy = rapid.SampledFrom([]string{"", "", "roundRobin", "random"}).Draw(rt, "lb-policy")
	return p
}

// vfR3GenReport draws an instance list: 0-4 instances with distinct ids and URLs; host-name and
// IP-addressed instances are mixed, some instances carry none of the wanted tags.
func vfR3GenReport(rt *rapid.T, p *vfR3Pool) []vfR3Inst {
	n := rapid.SampledFrom([]int{0, 1, 1, 2, 2, 3, 4}).Draw(rt, "ninst")
	var out []vfR3Inst
	ids, urls := map[string]bool{}, map[string]bool{}
	for tries := 0; len(out) < n && tries < 12; tries++ {
		in := vfR3Inst{ID: fmt.Sprintf("i%d", rapid.IntRange(0, 5).Draw(rt, "inst-id"))}
		in.Kind = rapid.SampledFrom([]string{"name", "name", "name", "v4", "v4", "v6"}).Draw(rt, "inst-kind")
		switch in.Kind {
		case "name":
			in.Addr = rapid.SampledFrom(vfR3InstNames).Draw(rt, "inst-name")
		case "v4":
			in.Addr = rapid.SampledFrom(vfR3InstV4).Draw(rt, "inst-v4")
		default:
			in.Addr = rapid.SampledFrom(vfR3InstV6).Draw(rt, "inst-v6")
		}
		in.Scheme = rapid.SampledFrom([]string{"", "http", "https"}).Draw(rt, "inst-scheme")
		in.Port = rapid.SampledFrom([]uint16{8080, 80, 443, 9001, 65535}).Draw(rt, "inst-port")
		switch rapid.IntRange(0, 4).Draw(rt, "inst-tags") {
		case 0: // none of the wanted tags
			for _, t := range vfR3Tags {
				if !vfR3HasTag([]string{t}, p.ServerTags) {
					in.Tags = append(in.Tags, t)
					break
				}
			}
		case 1:
			in.Tags = append([]string{"other"}, p.ServerTags...)
		default:
			in.Tags = []string{p.ServerTags[len(p.ServerTags)-1]}
		}
		u := strings.ToLower(in.server().URL())
		if ids[in.ID] || urls[u] {
			continue
		}
		ids[in.ID], urls[u] = true, true
		out = append(out, in)
	}
	return out
}

func (p *vfR3Pool) specs(report []vfR3Inst) map[string]*serviceregistry.ServiceInstanceSpec {
	m := map[string]*serviceregistry.ServiceInstanceSpec{}
	for _, in := range report {
		sp := &serviceregistry.ServiceInstanceSpec{RegistryName: p.Registry, ServiceName: p.Service, InstanceID: in.ID,
			Address: in.Addr, Port: in.Port, Scheme: in.Scheme, Tags: append([]string(nil), in.Tags...)}
		m[sp.Key()] = sp
	}
	return m
}

func (p *vfR3Pool) yaml() string {
	var b strings.Builder
	b.WriteString("name: proxy\nkind: Proxy\npools:\n")
	if p.Candidate {
		// main pool nobody must be sent to
		b.WriteString("- servers:\n  - url: \"http://192.0.2.9:9\"\n")
	}
	// the pool under test
	b.WriteString("- servers:\n")
	for _, s := range p.Static {
		b.WriteString("  - url: " + strconv.Quote(s.URL()) + "\n")
		if s.KeepHost {
			b.WriteString("    keepHost: true\n")
		}
	}
	if p.Source == "discovery" {
		b.WriteString("  serviceName: " + p.Service + "\n")
		if p.Feed == "registry" {
			b.WriteString("  serviceRegistry: " + p.Registry + "\n")
		}
		b.WriteString("  serverTags: [" + strings.Join(p.ServerTags, ", ") + "]\n")
	}
	if p.Policy != "" {
		b.WriteString("  loadBalance:\n    policy: " + p.Policy + "\n")
	}
	if p.Candidate {
		b.WriteString("  filter:\n    headers:\n      X-Vf-Pool:\n        exact: cand\n")
	}
	return b.String()
}

// vfR3Registry is the scripted registry behind the real ServiceRegistry controller.
type vfR3Registry struct {
	name   string
	mu     sync.Mutex
	insts  map[string]*serviceregistry.ServiceInstanceSpec
	notify chan *serviceregistry.RegistryEvent
}

func (r *vfR3Registry) Name() string                                  { return r.name }
func (r *vfR3Registry) Notify() <-chan *serviceregistry.RegistryEvent { return r.notify }
func (r *vfR3Registry) ApplyServiceInstances(m map[string]*serviceregistry.ServiceInstanceSpec) error {
	return fmt.Errorf("read-only")
}
func (r *vfR3Registry) DeleteServiceInstances(m map[string]*serviceregistry.ServiceInstanceSpec) error {
	return fmt.Errorf("read-only")
}
func (r *vfR3Registry) GetServiceInstance(serviceName, instanceID string) (*serviceregistry.ServiceInstanceSpec, error) {
	r.mu.Lock()
	defer r.mu.Unlock()
	for _, in := range r.insts {
		if in.ServiceName == serviceName && in.InstanceID == instanceID {
			return in.DeepCopy(), nil
		}
	}
	return nil, fmt.Errorf("not found")
}
func (r *vfR3Registry) ListServiceInstances(serviceName string) (map[string]*serviceregistry.ServiceInstanceSpec, error) {
	r.mu.Lock()
	defer r.mu.Unlock()
	out := map[string]*serviceregistry.ServiceInstanceSpec{}
	for k, in := range r.insts {
		if in.ServiceName == serviceName {
			out[k] = in.DeepCopy()
		}
	}
	return out, nil
}
func (r *vfR3Registry) ListAllServiceInstances() (map[string]*serviceregistry.ServiceInstanceSpec, error) {
	r.mu.Lock()
	defer r.mu.Unlock()
	out := map[string]*serviceregistry.ServiceInstanceSpec{}
	for k, in := range r.insts {
		out[k] = in.DeepCopy()
	}
	return out, nil
}

func (r *vfR3Registry) set(m map[string]*serviceregistry.ServiceInstanceSpec) (old map[string]*serviceregistry.ServiceInstanceSpec) {
	r.mu.Lock()
	defer r.mu.Unlock()
	old, r.insts = r.insts, m
	return old
}

var (
	vfR3SuperOnce sync.Once
	vfR3Super     *supervisor.Supervisor
	vfR3SvcReg    *serviceregistry.ServiceRegistry
	vfR3SuperErr  error
	vfR3Counter   int
)

// vfR3GetSuper builds (once per process) a supervisor whose only system controller is a real,
// initialised ServiceRegistry: what ServerPool.watchServers asks the supervisor for.
func vfR3GetSuper() (*supervisor.Supervisor, *serviceregistry.ServiceRegistry, error) {
	vfR3SuperOnce.Do(func() {
		defer func() {
			if p := recover(); p != nil {
				vfR3SuperErr = fmt.Errorf("panic: %v", p)
			}
		}()
		entity, err := supervisor.NewDefaultMock().NewObjectEntityFromConfig("kind: ServiceRegistry\nname: ServiceRegistry\nsyncInterval: 10s\n")
		if err != nil {
			vfR3SuperErr = err
			return
		}
		entity.InitWithRecovery(nil)
		sr, ok := entity.Instance().(*serviceregistry.ServiceRegistry)
		if !ok {
			vfR3SuperErr = fmt.Errorf("entity instance is %T", entity.Instance())
			return
		}
		var sys sync.Map
		sys.Store(serviceregistry.Kind, entity)
		vfR3Super = supervisor.NewMock(option.New(), nil, sync.Map{}, sys, nil, nil, false, nil, nil)
		if _, ok := vfR3Super.GetSystemController(serviceregistry.Kind); !ok {
			vfR3SuperErr = fmt.Errorf("the mocked supervisor does not return the ServiceRegistry controller")
			return
		}
		vfR3SvcReg = sr
	})
	return vfR3Super, vfR3SvcReg, vfR3SuperErr
}

const vfR3SyncWait = 60 * time.Second // expiry is inconclusive, never a verdict

// vfR3WaitFor polls cond (the pool's watcher goroutine applies registry events asynchronously).
func vfR3WaitFor(cond func() bool) bool {
	deadline := time.Now().Add(vfR3SyncWait)
	for i := 0; ; i++ {
		if cond() {
			return true
		}
		if time.Now().After(deadline) {
			return false
		}
		if i < 200 {
			time.Sleep(50 * time.Microsecond)
		} else {
			time.Sleep(2 * time.Millisecond)
		}
	}
}

func TestVerifC03Render(t *testing.T) {
	vf := vfBegin(t, "C03")
	defer vf.End()
	saved := fnSendRequest
	defer func() { fnSendRequest = saved }()
	super, svcReg, superErr := vfR3GetSuper()
	if superErr != nil {
		vf.Note("no ServiceRegistry controller available, discovery is only fed through useService: " + superErr.Error())
	}

	rapid.Check(t, func(rt *rapid.T) {
		pool := vfR3GenPool(rt, superErr == nil)
		vfR3Counter++
		pool.Service = fmt.Sprintf("vfsvc-%d", vfR3Counter)
		pool.Registry = fmt.Sprintf("vfreg-%d", vfR3Counter)

		// discovery: the instance lists of this case (the first one is what a registry-fed pool
		// finds at its first listing; a directly fed pool starts on its static list)
		var reports [][]vfR3Inst
		if pool.Source == "discovery" {
			nrep := rapid.IntRange(1, 3).Draw(rt, "nreports")
			for i := 0; i < nrep; i++ {
				reports = append(reports, vfR3GenReport(rt, pool))
			}
		}

		var fake *vfR3Registry
		if pool.Feed == "registry" {
			fake = &vfR3Registry{name: pool.Registry, notify: make(chan *serviceregistry.RegistryEvent, 4)}
			fake.set(pool.specs(reports[0]))
			if err := svcReg.RegisterRegistry(fake); err != nil {
				rt.Fatalf("VF-INCONCLUSIVE RegisterRegistry: %v", err)
			}
			defer func() { _ = svcReg.DeregisterRegistry(fake.name) }()
		}

		y := pool.yaml()
		raw := map[string]interface{}{}
		if err := yaml.Unmarshal([]byte(y), &raw); err != nil {
			rt.Fatalf("VF-INCONCLUSIVE yaml: %v", err)
		}
		spec, err := filters.NewSpec(super, "", raw)
		if err != nil {
			rt.Fatalf("VF-INCONCLUSIVE generator produced a proxy spec that validation rejects: %v\n%s", err, y)
		}
		// the per-case service / registry names stay out of the case description (distinct-case hash)
		yDesc := strings.ReplaceAll(strings.ReplaceAll(y, pool.Service, "vfsvc"), pool.Registry, "vfreg")
		px := kind.CreateInstance(spec).(*Proxy)
		px.Init()
		px.InjectResiliencePolicy(map[string]resilience.Policy{})
		defer px.Close()
		sp := px.mainPool
		if pool.Candidate {
			if len(px.candidatePools) != 1 {
				rt.Fatalf("VF-INCONCLUSIVE expected one candidate pool, got %d\n%s", len(px.candidatePools), y)
			}
			sp = px.candidatePools[0]
		}

		// phases: the state of the pool's server list while a batch of requests is sent
		type phase struct {
			name   string
			report []vfR3Inst // nil: static list
			have   bool
		}
		var phases []phase
		switch {
		case pool.Source == "static":
			phases = []phase{{name: "static"}}
		case pool.Feed == "direct":
			if rapid.Bool().Draw(rt, "requests-before-first-report") {
				phases = append(phases, phase{name: "before-first-report"})
			}
			for _, r := range reports {
				phases = append(phases, phase{name: "report", report: r, have: true})
			}
		default:
			phases = append(phases, phase{name: "first-listing", report: reports[0], have: true})
			for _, r := range reports[1:] {
				phases = append(phases, phase{name: "registry-event", report: r, have: true})
			}
		}

		history := ""
		synced := false
		for pi, ph := range phases {
			// bring the pool into the phase
			switch ph.name {
			case "report":
				sp.useService(pool.specs(ph.report))
			case "registry-event":
				probe, _ := httpprot.NewRequest(nil)
				if !synced {
					// the watcher delivers the list it found at creation as its first event; make sure
					// that one is behind us: a sentinel list is applied and awaited by content
					sent := vfR3Inst{ID: "sentinel", Addr: fmt.Sprintf("sentinel-%d.vf.test", vfR3Counter), Kind: "name", Port: 1, Tags: pool.ServerTags}
					fake.set(pool.specs([]vfR3Inst{sent}))
					fake.notify <- &serviceregistry.RegistryEvent{SourceRegistryName: fake.name, UseReplace: true, Replace: pool.specs([]vfR3Inst{sent})}
					want := sent.server().URL()
					if !vfR3WaitFor(func() bool { s := sp.LoadBalancer().ChooseServer(probe); return s != nil && s.URL == want }) {
						rt.Fatalf("VF-INCONCLUSIVE the pool did not take over the sentinel instance list within %v", vfR3SyncWait)
					}
					synced = true
				}
				prev := sp.LoadBalancer()
				next := pool.specs(ph.report)
				old := fake.set(next)
				ev := &serviceregistry.RegistryEvent{SourceRegistryName: fake.name, UseReplace: true, Replace: next}
				if rapid.Bool().Draw(rt, "event-as-diff") {
					if d := serviceregistry.NewRegistryEventFromDiff(fake.name, old, next); !d.Empty() {
						ev = d
						vf.Class("render:registry-event=apply/delete")
					}
				}
				fake.notify <- ev
				if !vfR3WaitFor(func() bool { return sp.LoadBalancer() != prev }) {
					rt.Fatalf("VF-INCONCLUSIVE the pool did not rebuild its load balancer within %v after a registry event", vfR3SyncWait)
				}
			}
			// the servers a request may be addressed to now, by URL
			var live []vfR3Server
			matching, names, ips := 0, 0, 0
			if ph.have {
				for _, in := range ph.report {
					if vfR3HasTag(pool.ServerTags, in.Tags) {
						matching++
						live = append(live, in.server())
						if vfR3IsIPLiteral(in.Addr) {
							ips++
						} else {
							names++
						}
					}
				}
			}
			if matching == 0 {
				live = append(live, pool.Static...)
			}
			history += fmt.Sprintf("\nphase %d %s", pi, ph.name)
			if ph.have {
				history += fmt.Sprintf(" instances=%v", ph.report)
			}
			if pool.Source == "discovery" {
				switch {
				case !ph.have:
					vf.Class("render:discovery-phase=static-list-before-first-report")
				case len(ph.report) == 0:
					vf.Class("render:discovery-phase=empty-list(static-fallback)")
				case matching == 0:
					vf.Class("render:discovery-phase=no-instance-with-wanted-tag(static-fallback)")
				case names > 0 && ips > 0:
					vf.Class("render:discovery-phase=host-name-and-ip-instances")
				case names > 0:
					vf.Class("render:discovery-phase=host-name-instances-only")
				default:
					vf.Class("render:discovery-phase=ip-instances-only")
				}
				if ph.have && matching > 0 && matching < len(ph.report) {
					vf.Class("render:discovery-phase=some-instances-without-wanted-tag")
				}
				if pi > 0 && phases[pi-1].have && len(phases[pi-1].report) > 0 && matching == 0 {
					vf.Class("render:discovery-phase=back-to-static-after-instances")
				}
			}

			nreq := rapid.IntRange(1, 5).Draw(rt, "nreq")
			if pool.Source == "discovery" {
				// enough requests for a round-robin pool to reach every live server now and then
				nreq = rapid.IntRange(1, len(live)+1).Draw(rt, "nreq-phase")
			}
			for i := 0; i < nreq; i++ {
				vfR3One(rt, vf, px, pool, ph.name, live, history, yDesc)
			}
		}
	})
}

// vfR3One sends one generated request through the Proxy and judges what was handed to the transport.
func vfR3One(rt *rapid.T, vf *vfCollector, px *Proxy, pool *vfR3Pool, phase string, live []vfR3Server, history, y string) {
	for once := true; once; once = false { // "continue" = this request is done (a listed known finding was hit)
		q := vfR3GenReq(rt)
		if pool.Candidate {
			q.E2E = append(q.E2E, [2]string{"X-Vf-Pool", "cand"})
		}
		stdr, err := http.ReadRequest(bufio.NewReader(bytes.NewReader(q.wire())))
		if err != nil {
			rt.Fatalf("VF-INCONCLUSIVE generator produced a request net/http rejects: %v\n%q", err, q.wire())
		}
		req, _ := httpprot.NewRequest(stdr)
		limit := int64(0)
		if q.Stream {
			limit = -1
		}
		if err := req.FetchPayload(limit); err != nil {
			rt.Fatalf("VF-INCONCLUSIVE FetchPayload: %v", err)
		}
		ctx := egcontext.New(tracing.NoopSpan)
		ctx.SetRequest(egcontext.DefaultNamespace, req)

		var got *vfR3Rendered
		calls := 0
		fnSendRequest = func(r *http.Request, client *http.Client) (*http.Response, error) {
			calls++
			g := &vfR3Rendered{URL: r.URL, Header: r.Header.Clone(), Method: r.Method}
			var buf bytes.Buffer
			if err := r.Write(&buf); err != nil {
				g.Err = "render: " + err.Error()
			} else if parsed, err := http.ReadRequest(bufio.NewReader(&buf)); err != nil {
				g.Err = "re-parse: " + err.Error()
			} else {
				g.WireHost, g.Target = parsed.Host, parsed.RequestURI
				g.Body, _ = io.ReadAll(parsed.Body)
			}
			got = g
			return &http.Response{StatusCode: 200, Proto: "HTTP/1.1", ProtoMajor: 1, ProtoMinor: 1, Header: http.Header{},
				Body: io.NopCloser(strings.NewReader("ok")), ContentLength: 2, Request: r}, nil
		}
		result := px.Handle(ctx)
		ctx.Finish()

		// the server the request was addressed to, among those the pool may use now
		var srv *vfR3Server
		if got != nil && got.URL != nil {
			for j := range live {
				if got.URL.Scheme == live[j].Scheme && strings.EqualFold(got.URL.Host, live[j].Host+live[j].Port) {
					srv = &live[j]
					break
				}
			}
		}

		// classes / non-triviality: an address form other than ip:port / name:port, or keepHost,
		// or a discovered server, or a Connection-listed header that is present, or an escaped path
		listedPresent := false
		sent := map[string][]string{}
		var order []string
		for _, kv := range append(append([][2]string{}, q.E2E...), q.Hop...) {
			k := http.CanonicalHeaderKey(kv[0])
			if _, ok := sent[k]; !ok {
				order = append(order, k)
			}
			sent[k] = append(sent[k], kv[1])
		}
		for _, l := range q.Listed {
			if _, ok := sent[l]; ok && l != "Connection" {
				listedPresent = true
			}
		}
		escaped := strings.Contains(q.RawPath, "%")
		source := pool.Source
		if pool.Feed != "" {
			source += "-" + pool.Feed
		}
		vf.Class("render:pool-servers-from="+source, "render:phase="+phase)
		if pool.Candidate {
			vf.Class("render:candidate-pool")
		}
		if len(live) > 1 {
			vf.Class("render:several-live-servers")
		}
		form := "unknown"
		nontrivial := listedPresent || escaped
		if srv != nil {
			form = srv.Kind
			if srv.Port == "" {
				form += "-noport"
			} else {
				form += "-port"
			}
			vf.Class("render:server="+form, "render:scheme="+srv.Scheme)
			switch {
			case srv.Origin == "discovered":
				form = "discovered-" + srv.Kind
				vf.Class("render:served-by=discovered-" + srv.Kind + "-instance")
			case pool.Source == "discovery":
				vf.Class("render:served-by=static-server-of-discovery-pool:" + form)
				if srv.KeepHost {
					vf.Class("render:served-by=static-server-of-discovery-pool:keepHost")
				}
				form = "fallback-" + form
			}
			if srv.KeepHost {
				vf.Class("render:keepHost")
			}
			nontrivial = nontrivial || srv.Port == "" || srv.Kind == "v6" || srv.KeepHost || srv.Scheme == "https" || srv.Origin == "discovered"
		}
		if listedPresent {
			vf.Class("render:connection-lists-present-header")
		}
		if escaped {
			vf.Class("render:path-escaped")
		}
		if len(q.Body) > 0 {
			vf.Class("render:body")
		}
		desc := fmt.Sprintf("proxy{%s}%s\nservers the pool may use now: %+v\nrequest %q", strings.ReplaceAll(y, "\n", "; "), history, live, q.wire())
		vf.Case(nontrivial, desc, func() interface{} {
			m := map[string]interface{}{"case": desc}
			if got != nil {
				m["rendered"] = fmt.Sprintf("%s %s Host: %s url=%s hdr=%v", got.Method, got.Target, got.WireHost, got.URL, got.Header)
			}
			return m
		})
		bad := func(key, format string, a ...interface{}) bool {
			return vf.Violation(rt, key, "%s\n%s\nproxy result %q, rendered %+v", fmt.Sprintf(format, a...), desc, result, got)
		}

		if got == nil || calls != 1 || result != "" {
			if bad("render:req-not-forwarded", "the Proxy did not hand exactly one request to the transport (calls=%d)", calls) {
				continue
			}
		}
		if got.Err != "" {
			if bad("render:unrenderable", "the request handed to the transport cannot be written/parsed: %s", got.Err) {
				continue
			}
		}
		// the request goes to a server of the pool
		if srv == nil {
			if bad("render:req-url", "request addressed to %s://%s, which is none of the servers the pool may use", got.URL.Scheme, got.URL.Host) {
				continue
			}
		}
		// Host rule of the statement, for the server the request is addressed to
		isIP := vfR3IsIPLiteral(srv.Host)
		wantHost := q.Host
		rule := "client's Host (server addressed by IP literal or keepHost)"
		if !isIP && !srv.KeepHost {
			wantHost = srv.Host + srv.Port
			rule = "the server's own host (host-name server, keepHost off)"
		}
		if !strings.EqualFold(got.WireHost, wantHost) {
			if bad("render:req-host:"+form, "Host on the wire %q, want %q = %s; server %s (%s)", got.WireHost, wantHost, rule, srv.URL(), srv.Origin) {
				continue
			}
		}
		if got.Method != q.Method {
			if bad("render:req-method", "method %q, client sent %q", got.Method, q.Method) {
				continue
			}
		}
		wantPath, _ := url.PathUnescape(q.RawPath)
		tpath, tquery := got.Target, ""
		if j := strings.IndexByte(tpath, '?'); j >= 0 {
			tpath, tquery = tpath[:j], tpath[j+1:]
		}
		gotPath, perr := url.PathUnescape(tpath)
		if perr != nil || gotPath != wantPath {
			if bad("render:req-path", "request-target %q decodes to path %q (%v), client sent %q (decoded %q)", got.Target, gotPath, perr, q.RawPath, wantPath) {
				continue
			}
		}
		if tquery != strings.TrimPrefix(q.Query, "?") {
			if bad("render:req-query", "request-target %q carries raw query %q, client sent %q", got.Target, tquery, strings.TrimPrefix(q.Query, "?")) {
				continue
			}
		}
		if !bytes.Equal(got.Body, q.Body) {
			if bad("render:req-body", "body on the wire %d bytes, client sent %d bytes", len(got.Body), len(q.Body)) {
				continue
			}
		}
		hop := map[string]bool{}
		for _, h := range vfR3Hop {
			hop[h] = true
		}
		for _, l := range q.Listed {
			hop[l] = true
		}
		failed := false
		for _, k := range order {
			if hop[k] {
				continue
			}
			if fmt.Sprint(got.Header[k]) != fmt.Sprint(sent[k]) || len(got.Header[k]) != len(sent[k]) {
				failed = bad("render:req-header", "end-to-end header %s: client sent %q, transport gets %q", k, sent[k], got.Header[k]) || failed
				break
			}
		}
		if failed {
			continue
		}
		hopNames := append(append([]string{}, vfR3Hop...), q.Listed...)
		for _, k := range hopNames {
			if v, ok := got.Header[k]; ok {
				key := "render:req-hop-listed"
				for _, f := range vfR3Hop {
					if f == k {
						key = "render:req-hop-fixed:" + k
					}
				}
				if bad(key, "hop-by-hop header %s handed to the transport with %q", k, v) {
					break
				}
			}
		}
	}
}
