//go:build go1.21

// C06 harness, part 3: the checks. One rapid.Check per test function; each rapid case is
// (configuration, base request, several single mutations of it); every request goes through
// the production wrapping into the real Validator.Handle and is compared with the oracle.
package validator

import (
	"encoding/json"
	"fmt"
	"os"
	"sort"
	"strings"
	"testing"
	"time"

	"github.com/fsnotify/fsnotify"
	"github.com/golang-jwt/jwt"
	"pgregory.net/rapid"
)

// vfRunVariants: bookkeeping + comparison shared by all checks. hard: the case exercises one of
// the features the non-triviality rule names.
func vfRunVariants(vf *vfCollector, rt *rapid.T, v *Validator, scope string, vars []vfVariant, hard bool, limit int64, descr func() string) (abandon bool) {
	base := &vars[0]
	covered := 0
	for i := range vars {
		x := &vars[i]
		vf.Class(x.Label, scope+":oracle-"+x.want().String())
		if x.Covered {
			covered++
		}
		if x.want() == vfEither {
			vf.Class("ambiguous-" + scope)
		}
	}
	nontrivial := base.want() == vfAccept && hard && covered >= 1
	if base.want() == vfAccept {
		vf.Class(scope + ":base-accepted")
	}
	if hard {
		vf.Class(scope + ":hard-feature")
	}
	var key strings.Builder
	key.WriteString(descr())
	for i := range vars {
		key.WriteString("||" + vars[i].Label + "|" + vars[i].Req.String())
	}
	vf.Case(nontrivial, key.String(), func() interface{} {
		s := map[string]interface{}{"check": scope, "config": descr(), "base": base.Req.String(), "base_oracle": base.want().String()}
		var ms []string
		for i := 1; i < len(vars) && i < 5; i++ {
			ms = append(ms, fmt.Sprintf("%s -> %s", vars[i].Label, vars[i].want()))
		}
		s["mutations"] = ms
		return s
	})
	for i := range vars {
		vfDrawPre(vf, rt, &vars[i])
		if vfCompare(vf, rt, v, &vars[i], limit, descr) {
			return true
		}
	}
	return false
}

// vfDrawPre: for about a third of the requests an earlier filter of the pipeline has already put
// a response into the context (Proxy, ResponseBuilder, RemoteFilter ... in front of the Validator);
// a rejection must still answer 401/400.
func vfDrawPre(vf *vfCollector, rt *rapid.T, x *vfVariant) {
	if !vfOneIn(rt, 3, "earlierResponse") {
		return
	}
	x.Pre = rapid.SampledFrom([]int{200, 200, 204, 302, 404, 500, 503}).Draw(rt, "earlierStatus")
	vf.Class("earlier-response-in-context")
	if x.want() == vfReject {
		vf.Class("earlier-response-in-context+oracle-reject")
	}
}

// ---------------------------------------------------------------- JWT (and oauth2 self-encoded JWT)

// vfClockProbe makes sure the virtual clock (jwt.TimeFunc) is what the code under test consults.
func vfClockProbe(t *testing.T) {
	const now = 1_000_000_000 // 2001: a token valid then is long expired on the wall clock
	jwt.TimeFunc = func() time.Time { return time.Unix(now, 0) }
	c := vfJWTCfg{Alg: "HS256", Secret: []byte("k")}
	v, _, err := vfC06NewValidator(c.spec())
	if err != nil {
		t.Fatalf("VF-INCONCLUSIVE clock probe: %v", err)
	}
	defer v.Close()
	tok := vfTok{HdrAlg: "HS256", SignAlg: "HS256", Secret: c.Secret, Claims: map[string]interface{}{"exp": now + 10, "nbf": now - 10}}
	r := vfC06Req{Method: "GET", Host: "example.com", Path: "/"}
	r.set("Authorization", "Bearer "+tok.String())
	if out := vfC06Serve(v, &r, 0); out.Result != "" {
		t.Fatalf("VF-INCONCLUSIVE the validator does not consult jwt.TimeFunc (virtual clock ineffective): %s", out)
	}
}

func vfJWTMutations(rt *rapid.T, c vfJWTCfg, now int64, base vfC06Req, tok vfTok, inCookie bool, n int) []vfVariant {
	kinds := []string{"flip-header", "flip-payload", "flip-sig", "trunc-sig", "resign-other-alg", "alg-none", "header-alg-swap",
		"other-secret", "expired", "expired", "nbf-future", "nbf-future", "scheme", "source-conflict", "uncovered", "exp-boundary",
		"exp-subsecond", "nbf-subsecond", "odd-claim"}
	var out []vfVariant
	for i := 0; i < n; i++ {
		kind := rapid.SampledFrom(kinds).Draw(rt, "jwtMut")
		m := base.clone()
		t2 := tok.clone()
		// a share of the mutations starts from the same token issued with iat in the future (alone
		// that is left open; together with any other defect the token must be refused)
		futureIat := vfOneIn(rt, 3, "futureIat")
		if futureIat {
			t2.Claims["iat"] = vfTimeLit(rt, now+rapid.SampledFrom([]int64{1, 2, 60, 86400}).Draw(rt, "iatIn"), "any", "iat")
		}
		s := t2.String()
		place := func(s string) { vfPlaceToken(rt, &m, c, s, inCookie) }
		switch kind {
		case "flip-header":
			place(vfFlipSeg(rt, s, 0))
		case "flip-payload":
			place(vfFlipSeg(rt, s, 1))
		case "flip-sig":
			place(vfFlipSeg(rt, s, 2))
		case "trunc-sig":
			cut := rapid.IntRange(1, 6).Draw(rt, "cut")
			if rapid.IntRange(0, 3).Draw(rt, "cutAll") == 0 {
				cut = len(s)
			}
			p := strings.Split(s, ".")
			if len(p) == 3 {
				if cut > len(p[2]) {
					cut = len(p[2])
				}
				p[2] = p[2][:len(p[2])-cut]
				s = strings.Join(p, ".")
			}
			place(s)
		case "resign-other-alg":
			t2.HdrAlg = vfOtherAlg(rt, c.Alg)
			t2.SignAlg = t2.HdrAlg
			place(t2.String())
		case "alg-none":
			t2.HdrAlg = rapid.SampledFrom([]string{"none", "None", "NONE"}).Draw(rt, "none")
			if rapid.Bool().Draw(rt, "noneKeepsSig") {
				p := strings.Split(s, ".")
				q := strings.Split(t2.String(), ".")
				place(q[0] + "." + q[1] + "." + p[len(p)-1])
			} else {
				t2.SignAlg = "none"
				place(t2.String())
			}
		case "header-alg-swap":
			// header says another algorithm, signature computed with the configured one
			t2.HdrAlg = rapid.SampledFrom([]string{vfOtherAlg(rt, c.Alg), "RS256", "ES256", strings.ToLower(c.Alg)}).Draw(rt, "swapTo")
			place(t2.String())
		case "other-secret":
			t2.Secret = vfOtherSecret(rt, c.Secret)
			place(t2.String())
		case "expired":
			// at or before now-1 in every spelling: now-1 exactly, or now-d (+ fraction) with d >= 2
			if by := rapid.SampledFrom([]int64{1, 2, 60, 86400, 200000000}).Draw(rt, "expiredBy"); by == 1 {
				t2.Claims["exp"] = vfTimeLit(rt, now-1, "whole", "exp")
			} else {
				t2.Claims["exp"] = vfTimeLit(rt, now-by, "any", "exp")
			}
			place(t2.String())
		case "exp-boundary":
			t2.Claims["exp"] = vfTimeLit(rt, now, "whole", "exp")
			place(t2.String())
		case "exp-subsecond":
			t2.Claims["exp"] = vfTimeLit(rt, now-1, "frac", "exp") // expired by less than a second: open
			place(t2.String())
		case "nbf-subsecond":
			t2.Claims["nbf"] = vfTimeLit(rt, now, "frac", "nbf") // valid in less than a second: open
			place(t2.String())
		case "odd-claim":
			t2.Claims[rapid.SampledFrom([]string{"exp", "nbf", "iat"}).Draw(rt, "oddWhich")] = vfOddClaim(rt, now)
			place(t2.String())
		case "nbf-future":
			t2.Claims["nbf"] = vfTimeLit(rt, now+rapid.SampledFrom([]int64{1, 2, 60, 86400}).Draw(rt, "nbfIn"), "any", "nbf")
			place(t2.String())
		case "scheme":
			if inCookie {
				m.set("Cookie", "sid=1")
				m.del("Authorization")
			} else {
				m.set("Authorization", rapid.SampledFrom([]string{"", "Basic ", "Bearer", "Token ", "bearer "}).Draw(rt, "schemeTo")+s)
			}
		case "source-conflict":
			if c.Cookie == "" {
				m.add("Cookie", "auth="+vfFlipSeg(rt, s, 2)) // a cookie nobody asked for: not covered
			} else if inCookie {
				m.set("Authorization", "Bearer "+vfFlipSeg(rt, s, 2)) // header is not consulted
			} else {
				m.set("Cookie", c.Cookie+"="+vfFlipSeg(rt, s, 2)) // the cookie wins and is invalid
			}
		case "uncovered":
			switch rapid.IntRange(0, 3).Draw(rt, "uncoveredKind") {
			case 0:
				m.Method = rapid.SampledFrom(vfMethods).Draw(rt, "m2")
			case 1:
				m.Path = m.Path + "/x"
			case 2:
				m.Body = append(append([]byte(nil), m.Body...), 'x')
			default:
				m.add("X-Other", "1")
			}
		}
		x := vfVariant{Label: "jwt:" + kind, Req: m, Hdr: vfAccept}
		x.Cred = vfJWTVerdict(&m, c.Alg, c.Secret, c.Cookie, now)
		if futureIat {
			x.Label = "jwt:future-iat+" + kind
		}
		out = append(out, x)
	}
	return out
}

func TestVerifC06JWT(t *testing.T) {
	vf := vfBegin(t, "C06")
	defer vf.End()
	old := jwt.TimeFunc
	defer func() { jwt.TimeFunc = old }()
	vfClockProbe(t)
	rapid.Check(t, func(rt *rapid.T) {
		c := vfGenJWTCfg(rt, true)
		now := int64(1_700_000_000) + int64(rapid.IntRange(0, 10_000_000).Draw(rt, "now"))
		jwt.TimeFunc = func() time.Time { return time.Unix(now, 0) }
		v, y, err := vfC06NewValidator(c.spec())
		if err != nil {
			rt.Fatalf("VF-INCONCLUSIVE generated spec rejected: %v\n%s", err, y)
		}
		defer v.Close()
		descr := func() string { return fmt.Sprintf("spec:\n%ssecret=%x now=%d", y, c.Secret, now) }

		base := vfGenCarrier(rt, vfCarrierOpts{MaxBody: 4096})
		tok := vfGenValidTok(rt, c, now)
		inCookie := c.Cookie != "" && rapid.IntRange(0, 2).Draw(rt, "tokenInCookie") > 0
		baseKind := "valid"
		if rapid.IntRange(0, 9).Draw(rt, "baseInvalid") < 3 {
			baseKind = rapid.SampledFrom([]string{"expired", "nbf-future", "other-alg", "none", "other-secret", "garbage"}).Draw(rt, "baseKind")
			switch baseKind {
			case "expired":
				tok.Claims["exp"] = vfTimeLit(rt, now-rapid.SampledFrom([]int64{2, 60, 86400, 200000000}).Draw(rt, "baseExpiredBy"), "any", "exp")
			case "nbf-future":
				tok.Claims["nbf"] = vfTimeLit(rt, now+rapid.SampledFrom([]int64{1, 60, 86400}).Draw(rt, "baseNbfIn"), "any", "nbf")
			case "other-alg":
				tok.HdrAlg = vfOtherAlg(rt, c.Alg)
				tok.SignAlg = tok.HdrAlg
			case "none":
				tok.HdrAlg, tok.SignAlg = "none", "none"
			case "other-secret":
				tok.Secret = vfOtherSecret(rt, c.Secret)
			}
		}
		if baseKind != "valid" && baseKind != "garbage" && vfOneIn(rt, 3, "baseFutureIat") {
			tok.Claims["iat"] = vfTimeLit(rt, now+rapid.SampledFrom([]int64{1, 60, 86400}).Draw(rt, "baseIatIn"), "any", "iat")
			baseKind += "+future-iat"
		}
		s := tok.String()
		if baseKind == "garbage" {
			s = rapid.SampledFrom([]string{"", "abc", "a.b.c", "..", "eyJhbGciOiJIUzI1NiJ9.e30.", "e30.e30.e30"}).Draw(rt, "garbage")
		}
		vfPlaceToken(rt, &base, c, s, inCookie)
		b := vfVariant{Label: "jwt:base-" + baseKind, Req: base, Hdr: vfAccept}
		b.Cred = vfJWTVerdict(&base, c.Alg, c.Secret, c.Cookie, now)
		if baseKind == "valid" && b.Cred != vfAccept {
			rt.Fatalf("VF-INCONCLUSIVE harness: own verifier rejects own valid token %q", s)
		}
		vars := []vfVariant{b}
		if baseKind != "garbage" {
			vars = append(vars, vfJWTMutations(rt, c, now, base, tok, inCookie, rapid.IntRange(2, 6).Draw(rt, "nmut"))...)
		}
		for i := 1; i < len(vars); i++ {
			vars[i].Covered = b.Cred == vfAccept && vars[i].Cred == vfReject
			if strings.HasPrefix(vars[i].Label, "jwt:future-iat+") && vars[i].Cred == vfReject {
				vf.Class("jwt:future-iat-with-another-defect(must-reject)")
			}
		}
		for _, k := range []string{"exp", "nbf", "iat"} {
			switch c := tok.Claims[k].(type) {
			case int64:
				vf.Class("jwt:time-claim-integer")
			case json.RawMessage:
				if strings.ContainsAny(string(c), "eE") {
					vf.Class("jwt:time-claim-exponent-form")
				} else {
					vf.Class("jwt:time-claim-fractional")
				}
			}
		}
		_, hasExp := tok.Claims["exp"]
		_, hasNbf := tok.Claims["nbf"]
		hard := hasExp || hasNbf || inCookie
		if inCookie {
			vf.Class("jwt:token-in-cookie")
		}
		if c.OAuth2 {
			vf.Class("jwt:oauth2-self-encoded")
		}
		if vfRunVariants(vf, rt, v, "jwt", vars, hard, vfDrawLimit(rt), descr) {
			return
		}
		if !vfOneIn(rt, 2, "clockHistory") {
			return
		}

		// ---- the same validator over time: tokens with a finite lifetime are presented again and
		// again (byte-identical requests) while the clock moves; "currently valid" is decided at
		// the moment of each request.
		t0 := now
		var hist []string
		descr2 := func() string { return descr() + "\nclock history (t0=" + fmt.Sprint(t0) + "):\n" + strings.Join(hist, "\n") }
		type timed struct {
			name     string
			req      vfC06Req
			accepted bool // oracle accepted it at an earlier step
			refused  bool // oracle refused it at an earlier step
		}
		var toks []*timed
		for _, name := range []string{"A", "B"} {
			tk := vfGenValidTok(rt, c, t0)
			tk.Claims["exp"] = vfTimeLit(rt, t0+rapid.SampledFrom([]int64{1, 2, 60, 3600}).Draw(rt, "life"), "any", "exp")
			delete(tk.Claims, "nbf")
			delete(tk.Claims, "iat")
			if st := rapid.SampledFrom([]int64{-1, 0, 5, 5, 120}).Draw(rt, "validFrom"); st >= 0 {
				tk.Claims["nbf"] = vfTimeLit(rt, t0+st, "whole", "nbf")
			}
			tk.Claims["jti"] = name
			r := vfGenCarrier(rt, vfCarrierOpts{MaxBody: 256})
			vfPlaceToken(rt, &r, c, tk.String(), inCookie)
			toks = append(toks, &timed{name: name, req: r})
		}
		steps := rapid.IntRange(3, 7).Draw(rt, "clockSteps")
		for i := 0; i < steps; i++ {
			now += rapid.SampledFrom([]int64{0, 0, 1, 2, 6, 61, 121, 3601, 86400}).Draw(rt, "clockAdvance")
			tk := toks[rapid.SampledFrom([]int{0, 0, 0, 1}).Draw(rt, "whichToken")]
			want := vfJWTVerdict(&tk.req, c.Alg, c.Secret, c.Cookie, now)
			label := "jwt:clock:" + want.String()
			switch {
			case want == vfReject && tk.accepted:
				label = "jwt:clock:presented-again-after-expiry"
			case want == vfAccept && tk.refused:
				label = "jwt:clock:presented-again-once-nbf-has-passed"
			case want == vfAccept && tk.accepted:
				label = "jwt:clock:presented-again-still-valid"
			}
			hist = append(hist, fmt.Sprintf("t0+%d: token %s presented, oracle %s", now-t0, tk.name, want))
			x := vfVariant{Label: label, Req: tk.req, Hdr: vfAccept, Cred: want}
			vf.Class(label)
			vfDrawPre(vf, rt, &x)
			if vfCompare(vf, rt, v, &x, 0, descr2) {
				return
			}
			if want == vfAccept {
				tk.accepted = true
			}
			if want == vfReject {
				tk.refused = true
			}
		}
	})
}


// ---------------------------------------------------------------- Basic

const (
	vfKnownBasicColonRejected = "basic:colon-pw/valid-rejected"
	vfKnownBasicColonAccepted = "basic:colon-pw/invalid-accepted"
)

// vfBasicLabel names the class of a Basic variant. Every request whose password contains ':'
// gets the one label "basic:colon-pw" so that the defect around it has exactly two keys.
func vfBasicLabel(kind string, sentPass string, sent bool) string {
	if sent && strings.Contains(sentPass, ":") {
		return "basic:colon-pw"
	}
	return "basic:" + kind
}

func vfBasicMutations(rt *rapid.T, users []vfUser, base vfC06Req, u vfUser, n int, allowColon bool) []vfVariant {
	kinds := []string{"pw-flip", "pw-append", "pw-colon-suffix", "pw-before-colon", "pw-truncate", "pw-empty", "other-user-pw",
		"user-case", "user-suffix", "bad-b64", "no-padding", "scheme", "uncovered", "pw-after-colon"}
	var out []vfVariant
	for i := 0; i < n; i++ {
		kind := rapid.SampledFrom(kinds).Draw(rt, "basicMut")
		m := base.clone()
		user, pass, sent := u.Name, u.Pass, true
		hdr := ""
		switch kind {
		case "pw-flip":
			if pass == "" {
				pass = "x"
			} else {
				b := []byte(pass)
				j := rapid.IntRange(0, len(b)-1).Draw(rt, "pwPos")
				c := b[j] ^ byte(rapid.IntRange(1, 127).Draw(rt, "pwXor"))
				if c == ':' || c == b[j] {
					c = b[j] ^ 0x40
				}
				b[j] = c
				pass = string(b)
			}
		case "pw-append":
			pass += rapid.SampledFrom([]string{"x", " ", "0", "é"}).Draw(rt, "pwTail")
		case "pw-colon-suffix":
			pass += ":" + rapid.SampledFrom([]string{"", "x", "anything", "a:b"}).Draw(rt, "colonTail")
		case "pw-before-colon":
			if j := strings.IndexByte(pass, ':'); j >= 0 {
				pass = pass[:j]
			} else {
				pass += "y"
			}
		case "pw-after-colon":
			if j := strings.IndexByte(pass, ':'); j >= 0 {
				pass = pass[j+1:]
			} else {
				pass = "y" + pass
			}
		case "pw-truncate":
			if pass == "" {
				pass = "x"
			} else {
				pass = pass[:len(pass)-1]
			}
		case "pw-empty":
			if pass == "" {
				pass = "x"
			} else {
				pass = ""
			}
		case "other-user-pw":
			o := users[rapid.IntRange(0, len(users)-1).Draw(rt, "otherUser")]
			pass = o.Pass
			if o.Name == u.Name {
				pass += "z"
			}
		case "user-case":
			user = strings.ToUpper(user)
			if user == u.Name {
				user = strings.ToLower(user)
			}
			if user == u.Name {
				user += "x"
			}
		case "user-suffix":
			user += rapid.SampledFrom([]string{"x", " ", "0"}).Draw(rt, "userTail")
		case "bad-b64":
			h := vfBasicHeader(user, pass)
			j := rapid.IntRange(6, len(h)).Draw(rt, "b64Pos")
			hdr = h[:j] + rapid.SampledFrom([]string{"!", "*", " ", "="}).Draw(rt, "b64Junk") + h[j:]
		case "no-padding":
			hdr = strings.TrimRight(vfBasicHeader(user, pass), "=")
		case "scheme":
			hdr = rapid.SampledFrom([]string{"", "Bearer ", "Basic", "basic ", "BASIC "}).Draw(rt, "basicScheme") + vfBasicHeader(user, pass)[6:]
		case "uncovered":
			switch rapid.IntRange(0, 3).Draw(rt, "uncoveredKind") {
			case 0:
				m.Method = rapid.SampledFrom(vfMethods).Draw(rt, "m2")
			case 1:
				m.RawQuery = "x=1"
			case 2:
				m.Body = append(append([]byte(nil), m.Body...), 'x')
			default:
				m.add("X-Other", "1")
			}
		}
		if !allowColon && strings.Contains(pass, ":") {
			continue
		}
		if hdr == "" && kind != "scheme" {
			hdr = vfBasicHeader(user, pass)
		}
		m.set("Authorization", hdr)
		x := vfVariant{Label: vfBasicLabel(kind, pass, sent), Req: m, Hdr: vfAccept, Cred: vfBasicVerdict(&m, users)}
		out = append(out, x)
	}
	return out
}

// vfBasicSetup writes the htpasswd file and creates the validator; cleanup must be called.
func vfBasicSetup(rt *rapid.T, users []vfUser, extra map[string]interface{}) (*Validator, string, func()) {
	salt := rapid.SliceOfN(rapid.Byte(), 0, 8).Draw(rt, "salt")
	file, err := vfWriteHtpasswd(users, salt)
	if err != nil {
		rt.Fatalf("VF-INCONCLUSIVE cannot write htpasswd file: %v", err)
	}
	spec := map[string]interface{}{"basicAuth": map[string]interface{}{"mode": "FILE", "userFile": file}}
	for k, v := range extra {
		spec[k] = v
	}
	v, y, err := vfC06NewValidator(spec)
	if err != nil {
		os.Remove(file)
		rt.Fatalf("VF-INCONCLUSIVE generated spec rejected: %v\n%s", err, y)
	}
	return v, y, func() { v.Close(); os.Remove(file) }
}

func vfUsersString(us []vfUser) string {
	var b strings.Builder
	for _, u := range us {
		fmt.Fprintf(&b, "[%q:%q %s]", u.Name, u.Pass, u.Scheme)
	}
	return b.String()
}

func TestVerifC06Basic(t *testing.T) {
	vf := vfBegin(t, "C06")
	defer vf.End()
	rapid.Check(t, func(rt *rapid.T) {
		// steer away from ':' in passwords once the defect around it is a listed known finding
		// (a small share is kept so that the finding stays observed; everything comes back when
		// the entries are removed)
		colonOneIn, allowColonMut := 3, true
		if vf.HasKnown(vfKnownBasicColonRejected) {
			colonOneIn = 16
			vf.Exclude()
		}
		if vf.HasKnown(vfKnownBasicColonAccepted) && !vfOneIn(rt, 4, "keepColonMut") {
			allowColonMut = false
			vf.Exclude()
		}
		users := vfGenUsers(rt, colonOneIn)
		// the configured users live in an htpasswd file (mode FILE) or in the cluster's custom data
		// (mode ETCD: entries with key and/or username; the user name is `username`, `key` only when
		// there is no username)
		var v *Validator
		var y, store string
		etcdKeyOf := map[string]string{} // user name -> storage key of a key+username entry
		var etcdCh chan map[string]string
		var etcdEntries []vfEtcdEntry
		var etcdPrefix string
		var etcdSalt []byte
		if vfOneIn(rt, 3, "modeETCD") {
			prefix := rapid.SampledFrom([]string{"credentials/", "tenants/a/", "c/"}).Draw(rt, "etcdPrefix")
			var entries []vfEtcdEntry
			for i, u := range users {
				e := vfEtcdEntry{User: u}
				switch rapid.SampledFrom([]string{"key+username", "key+username", "key-only", "username-only"}).Draw(rt, "entryKind") {
				case "key+username":
					e.Key = fmt.Sprintf("cred-%04d", i+1)
					e.Username, e.StoreKey = u.Name, e.Key
					etcdKeyOf[u.Name] = e.Key
				case "key-only":
					e.Key, e.StoreKey = u.Name, fmt.Sprintf("k%d", i)
				default:
					e.Username, e.StoreKey = u.Name, fmt.Sprintf("entry-%d", i)
				}
				vf.Class("basic:etcd-entry-" + e.kind())
				entries = append(entries, e)
			}
			etcdSalt = rapid.SliceOfN(rapid.Byte(), 0, 8).Draw(rt, "salt")
			etcdPrefix, etcdEntries = prefix, entries
			super, dump, ch, err := vfEtcdSupervisor(prefix, entries, etcdSalt)
			etcdCh = ch
			if err != nil {
				rt.Fatalf("VF-INCONCLUSIVE cannot build etcd entries: %v", err)
			}
			v, y, err = vfC06NewValidatorSuper(map[string]interface{}{"basicAuth": map[string]interface{}{"mode": "ETCD", "etcdPrefix": prefix}}, super)
			if err != nil {
				rt.Fatalf("VF-INCONCLUSIVE generated spec rejected: %v\n%s", err, y)
			}
			defer v.Close()
			store = "etcd:\n" + dump
			vf.Class("basic:mode-ETCD")
		} else {
			var cleanup func()
			v, y, cleanup = vfBasicSetup(rt, users, nil)
			defer cleanup()
			vf.Class("basic:mode-FILE")
		}
		descr := func() string { return "spec:\n" + y + store + "users=" + vfUsersString(users) }

		// stale credentials (pairs that were configured earlier in the history): always refused
		var stales []vfUser
		round := func() bool {
			base := vfGenCarrier(rt, vfCarrierOpts{MaxBody: 4096})
			var vars []vfVariant
			var u vfUser
			if len(users) > 0 {
				u = users[rapid.IntRange(0, len(users)-1).Draw(rt, "user")]
				kind := "valid"
				user, pass := u.Name, u.Pass
				if rapid.IntRange(0, 9).Draw(rt, "baseInvalid") < 3 {
					kind = rapid.SampledFrom([]string{"wrong-pw", "unknown-user", "no-header", "bearer"}).Draw(rt, "baseKind")
				}
				switch kind {
				case "wrong-pw":
					pass += "!"
				case "unknown-user":
					user += "_"
				}
				switch kind {
				case "no-header":
				case "bearer":
					base.set("Authorization", "Bearer "+vfBasicHeader(user, pass)[6:])
				default:
					base.set("Authorization", vfBasicHeader(user, pass))
				}
				b := vfVariant{Label: vfBasicLabel("base-"+kind, pass, kind != "no-header"), Req: base, Hdr: vfAccept, Cred: vfBasicVerdict(&base, users)}
				if kind == "valid" && b.Cred != vfAccept {
					rt.Fatalf("VF-INCONCLUSIVE harness: own oracle rejects the configured credentials")
				}
				vars = append([]vfVariant{b}, vfBasicMutations(rt, users, base, u, rapid.IntRange(2, 6).Draw(rt, "nmut"), allowColonMut)...)
				if k, ok := etcdKeyOf[u.Name]; ok {
					// the storage key of a key+username entry is not a user name
					m := base.clone()
					m.set("Authorization", vfBasicHeader(k, u.Pass))
					vars = append(vars, vfVariant{Label: vfBasicLabel("etcd-key-as-user", u.Pass, true), Req: m, Hdr: vfAccept, Cred: vfBasicVerdict(&m, users)})
				}
			} else {
				// nobody is configured (every credential was deleted): whatever is sent is refused
				base.set("Authorization", vfBasicHeader("anyone", "anything"))
				vars = []vfVariant{{Label: "basic:base-nobody-configured", Req: base, Hdr: vfAccept, Cred: vfBasicVerdict(&base, users)}}
			}
			for _, st := range stales {
				m := base.clone()
				m.set("Authorization", vfBasicHeader(st.Name, st.Pass))
				vars = append(vars, vfVariant{Label: vfBasicLabel("stale-credentials", st.Pass, true), Req: m, Hdr: vfAccept, Cred: vfBasicVerdict(&m, users)})
			}
			for i := 1; i < len(vars); i++ {
				vars[i].Covered = vars[0].Cred == vfAccept && vars[i].Cred == vfReject
			}
			hard := strings.Contains(u.Pass, ":") || vfNonASCII(u.Pass) || vfNonASCII(u.Name)
			if strings.Contains(u.Pass, ":") {
				vf.Class("basic:password-with-colon")
			}
			if vfNonASCII(u.Pass) || vfNonASCII(u.Name) {
				vf.Class("basic:non-ascii-credential")
			}
			if len(users) > 0 {
				vf.Class("basic:scheme-" + u.Scheme)
			}
			return vfRunVariants(vf, rt, v, "basic", vars, hard, vfDrawLimit(rt), descr)
		}
		// several rounds per validator: creating/closing one costs ~10 ms (fsnotify)
		rounds := rapid.IntRange(1, 3).Draw(rt, "rounds")
		for r := 0; r < rounds; r++ {
			if round() {
				return
			}
		}
		if etcdCh == nil || !vfOneIn(rt, 2, "etcdUpdates") {
			return
		}

		// ---- mode ETCD: the credentials change while the filter runs. The syncer delivers the full
		// state of the prefix after every change; the watcher applies it. The oracle is the pair set
		// after the latest update.
		nupd := rapid.IntRange(1, 4).Draw(rt, "etcdNUpdates")
		for up := 0; up < nupd; up++ {
			op := rapid.SampledFrom([]string{"add", "change-password", "remove", "remove-all", "remove-all"}).Draw(rt, "etcdOp")
			if len(etcdEntries) == 0 {
				op = "re-add"
			}
			before := append([]vfUser(nil), users...)
			mkEntry := func(u vfUser, n int) vfEtcdEntry {
				e := vfEtcdEntry{User: u}
				switch rapid.SampledFrom([]string{"key+username", "key-only", "username-only"}).Draw(rt, "entryKind") {
				case "key+username":
					e.Key = fmt.Sprintf("cred-u%d-%d", up, n)
					e.Username, e.StoreKey = u.Name, e.Key
					etcdKeyOf[u.Name] = e.Key
				case "key-only":
					e.Key, e.StoreKey = u.Name, fmt.Sprintf("k-u%d-%d", up, n)
				default:
					e.Username, e.StoreKey = u.Name, fmt.Sprintf("entry-u%d-%d", up, n)
				}
				return e
			}
			switch op {
			case "add", "re-add":
				n := 1
				if op == "re-add" {
					n = rapid.IntRange(1, 2).Draw(rt, "reAddN")
				}
				for i := 0; i < n; i++ {
					u := vfUser{Name: fmt.Sprintf("new%d%d-%s", up, i, rapid.StringOfN(rapid.RuneFrom(vfUserAlpha), 1, 4, -1).Draw(rt, "newUser")),
						Pass: vfDrawPass(rt, false), Scheme: rapid.SampledFrom([]string{"sha", "ssha", "bcrypt"}).Draw(rt, "newScheme")}
					if op == "re-add" && i == 0 && len(stales) > 0 && rapid.Bool().Draw(rt, "reAddOldUser") {
						u.Name = stales[0].Name // an earlier user comes back with another password
						u.Pass += "#"
					}
					etcdEntries = append(etcdEntries, mkEntry(u, i))
				}
			case "change-password":
				i := rapid.IntRange(0, len(etcdEntries)-1).Draw(rt, "etcdIdx")
				etcdEntries[i].User.Pass += rapid.SampledFrom([]string{"2", "é", " x"}).Draw(rt, "etcdPwTail")
				if etcdEntries[i].User.Scheme == "plain" && !vfPlainOK(etcdEntries[i].User.Pass) {
					etcdEntries[i].User.Scheme = "sha"
				}
			case "remove":
				i := rapid.IntRange(0, len(etcdEntries)-1).Draw(rt, "etcdIdx")
				delete(etcdKeyOf, etcdEntries[i].User.Name)
				etcdEntries = append(etcdEntries[:i:i], etcdEntries[i+1:]...)
			default: // remove-all: the last credential goes too
				etcdEntries = nil
				etcdKeyOf = map[string]string{}
			}
			users = users[:0:0]
			for _, e := range etcdEntries {
				users = append(users, e.User)
			}
			for _, o := range before {
				still := false
				for _, n := range users {
					if n.Name == o.Name && n.Pass == o.Pass {
						still = true
					}
				}
				if !still {
					stales = append(stales, o)
				}
			}
			// a pair that is configured again is not stale any more
			kept := stales[:0:0]
			for _, st := range stales {
				again := false
				for _, n := range users {
					if n.Name == st.Name && n.Pass == st.Pass {
						again = true
					}
				}
				if !again {
					kept = append(kept, st)
				}
			}
			stales = kept
			kvs, dump, err := vfEtcdKVs(etcdPrefix, etcdEntries, etcdSalt)
			if err != nil {
				rt.Fatalf("VF-INCONCLUSIVE cannot build etcd entries: %v", err)
			}
			store += fmt.Sprintf("update %d (%s), state of the prefix delivered by the syncer:\n%s", up+1, op, dump)
			vf.Class("basic:etcd-update-" + op)
			if len(users) == 0 {
				vf.Class("basic:etcd-all-credentials-removed")
			}
			// Deliver the state twice: the watcher takes one state at a time, so once the second
			// send has been taken the first has been applied. Not taken in time: the watcher is
			// not running here -> inconclusive.
			for k := 0; k < 2; k++ {
				select {
				case etcdCh <- kvs:
				case <-time.After(10 * time.Second):
					rt.Fatalf("VF-INCONCLUSIVE the credential watcher did not take update %d within 10 s\n%s", up+1, descr())
				}
			}
			// delivered; the answers must follow (a little patience for an implementation that
			// applies the state after taking it)
			var why string
			consistent := func() bool {
				check := func(u vfUser, want bool) bool {
					r := vfC06Req{Method: "GET", Host: "example.com", Path: "/"}
					r.set("Authorization", vfBasicHeader(u.Name, u.Pass))
					out := vfC06Serve(v, &r, 0)
					if out.Panic || out.Err != "" || (out.Result == "") != want {
						why = fmt.Sprintf("user %q password %q: want accepted=%v, got %s", u.Name, u.Pass, want, out)
						return false
					}
					return true
				}
				for _, u := range users {
					if !check(u, true) {
						return false
					}
				}
				for _, st := range stales {
					if !check(st, false) {
						return false
					}
				}
				return true
			}
			ok := consistent()
			for deadline := time.Now().Add(5 * time.Second); !ok && time.Now().Before(deadline); {
				time.Sleep(20 * time.Millisecond)
				ok = consistent()
			}
			if !ok {
				if vf.Violation(rt, "basic:etcd-update-"+op+"/not-applied", "the syncer delivered update %d (%s) and the watcher took it, but 5 s later the validator still answers from an earlier state: %s\n%s", up+1, op, why, descr()) {
					return
				}
			}
			if round() {
				return
			}
		}
	})
}

// ---------------------------------------------------------------- Signature

const (
	vfKnownSigBodyRejected = "sig:signed-body/valid-rejected"
	vfKnownSigBodyAccepted = "sig:signed-body/invalid-accepted"
)

// vfSetQueryParam rewrites the value of the first query parameter whose decoded name is name.
func vfSetQueryParam(raw, name string, f func(old string) string) string {
	ps := strings.Split(raw, "&")
	for i, p := range ps {
		k, v := p, ""
		if j := strings.IndexByte(p, '='); j >= 0 {
			k, v = p[:j], p[j+1:]
		}
		if vfPctDecode(k) == name {
			ps[i] = k + "=" + vfURIEncode(f(vfPctDecode(v)), false)
			break
		}
	}
	return strings.Join(ps, "&")
}

// vfAuthPart rewrites one "Name=value" part of the Authorization header of a signed request.
func vfAuthPart(auth, name string, f func(old string) string) string {
	i := strings.Index(auth, name+"=")
	if i < 0 {
		return auth
	}
	j := i + len(name) + 1
	k := strings.IndexByte(auth[j:], ',')
	if k < 0 {
		k = len(auth) - j
	}
	return auth[:j] + f(auth[j:j+k]) + auth[j+k:]
}

func vfFlipHex(rt *rapid.T, s string) string {
	if s == "" {
		return "0"
	}
	b := []byte(s)
	i := rapid.IntRange(0, len(b)-1).Draw(rt, "hexPos")
	c := "0123456789abcdef"[rapid.IntRange(0, 15).Draw(rt, "hexChar")]
	if c == b[i] {
		c = "123456789abcdef0"[strings.IndexByte("0123456789abcdef", c)]
	}
	b[i] = c
	return string(b)
}

func vfShiftTime(ts string, d time.Duration) string {
	t, err := time.Parse("20060102T150405Z", ts)
	if err != nil {
		return ts + "1"
	}
	return t.Add(d).Format("20060102T150405Z")
}

// vfSigTamper applies one single mutation to a signed request. The verdict always comes from the
// covered-part diff, so a mutation that happens to be a no-op is judged correctly.
func vfSigTamper(rt *rapid.T, s *vfSigned, kinds []string) (vfC06Req, string) {
	lit := s.Cfg.Lit.lit()
	kind := rapid.SampledFrom(kinds).Draw(rt, "sigMut")
	m := s.Req.clone()
	// credential material lives in the Authorization header or, presigned, in the query
	cred := func(part string, f func(string) string) {
		if s.Plan.Presign {
			name := map[string]string{"Credential": lit.Credential, "SignedHeaders": lit.SignedHeaders, "Signature": lit.Signature}[part]
			m.RawQuery = vfSetQueryParam(m.RawQuery, name, f)
			return
		}
		a, _ := m.get("Authorization")
		m.set("Authorization", vfAuthPart(a, part, f))
	}
	switch kind {
	case "method":
		o := rapid.SampledFrom(vfMethods).Draw(rt, "m2")
		if o == m.Method {
			o = "POST"
			if m.Method == "POST" {
				o = "GET"
			}
		}
		m.Method = o
	case "path":
		if m.Path == "" {
			m.Path = "/"
		}
		switch rapid.IntRange(0, 3).Draw(rt, "pathMut") {
		case 0:
			m.Path += "x"
		case 1:
			m.Path += "/extra"
		case 2:
			if m.Path == "" {
				m.Path = "/"
			}
			m.Path = "/admin" + m.Path
		default:
			if strings.Contains(m.Path, "a") {
				m.Path = strings.Replace(m.Path, "a", "A", 1)
			} else {
				m.Path += "%20"
			}
		}
	case "query-value":
		ps := strings.Split(m.RawQuery, "&")
		var idx []int
		for i, p := range ps {
			k := p
			if j := strings.IndexByte(p, '='); j >= 0 {
				k = p[:j]
			}
			if p != "" && !strings.HasPrefix(vfPctDecode(k), "X-") {
				idx = append(idx, i)
			}
		}
		if len(idx) == 0 {
			m.RawQuery = strings.TrimPrefix(m.RawQuery+"&added=1", "&")
		} else {
			i := rapid.SampledFrom(idx).Draw(rt, "qIdx")
			if strings.Contains(ps[i], "=") {
				ps[i] += "x"
			} else {
				ps[i] += "=x"
			}
			m.RawQuery = strings.Join(ps, "&")
		}
	case "query-add":
		m.RawQuery = strings.TrimPrefix(m.RawQuery+"&"+rapid.SampledFrom([]string{"a=1", "admin=true", "Foo=zz", "%E4%B8%AD=1"}).Draw(rt, "qAdd"), "&")
	case "query-remove":
		ps := strings.Split(m.RawQuery, "&")
		var keep []string
		dropped := false
		for _, p := range ps {
			if !dropped && p != "" && !strings.HasPrefix(vfPctDecode(p), "X-") {
				dropped = true
				continue
			}
			keep = append(keep, p)
		}
		m.RawQuery = strings.Join(keep, "&")
	case "signed-header-value", "signed-header-extra-value", "drop-signed-header":
		var cands []string
		for _, n := range s.Names {
			if n != "host" && n != strings.ToLower(lit.Date) && len(m.all(n)) > 0 {
				cands = append(cands, n)
			}
		}
		if len(cands) == 0 {
			m.Host = "evil." + m.Host
			kind = "host"
			break
		}
		n := rapid.SampledFrom(cands).Draw(rt, "signedHdr")
		switch kind {
		case "signed-header-value":
			for i := range m.Hdr {
				if strings.ToLower(m.Hdr[i].K) == n {
					m.Hdr[i].V = strings.TrimRight(m.Hdr[i].V, " ") + rapid.SampledFrom([]string{"x", ";q=1", "0"}).Draw(rt, "hdrTail")
					break
				}
			}
		case "signed-header-extra-value":
			m.add(vfCanon(n), "injected")
		default:
			// downgrade: take the header out of the signed list and drop it
			m.del(n)
			cred("SignedHeaders", func(old string) string {
				var keep []string
				for _, x := range strings.Split(old, ";") {
					if x != n {
						keep = append(keep, x)
					}
				}
				return strings.Join(keep, ";")
			})
		}
	case "host":
		m.Host = rapid.SampledFrom([]string{"evil.example.com", m.Host + ".evil", "localhost:1"}).Draw(rt, "host2")
	case "date-shift":
		d := rapid.SampledFrom([]time.Duration{time.Second, -time.Second, time.Minute}).Draw(rt, "dateShift")
		if s.Plan.Presign {
			m.RawQuery = vfSetQueryParam(m.RawQuery, lit.Date, func(old string) string { return vfShiftTime(old, d) })
		} else {
			old, _ := m.get(lit.Date)
			m.set(lit.Date, vfShiftTime(old, d))
		}
	case "body":
		switch rapid.IntRange(0, 3).Draw(rt, "bodyMut") {
		case 0:
			m.Body = append(m.Body, 'x')
		case 1:
			if len(m.Body) > 0 {
				m.Body[rapid.IntRange(0, len(m.Body)-1).Draw(rt, "bodyPos")] ^= 0x01
			} else {
				m.Body = []byte("{\"admin\":true}")
			}
		case 2:
			if len(m.Body) > 0 {
				m.Body = m.Body[:len(m.Body)-1]
			} else {
				m.Body = []byte{0}
			}
		default:
			if len(m.Body) > 0 {
				m.Body = nil
			} else {
				m.Body = []byte("a=1")
			}
		}
	case "signature-flip":
		cred("Signature", func(old string) string { return vfFlipHex(rt, old) })
	case "signature-truncate":
		cred("Signature", func(old string) string {
			n := rapid.SampledFrom([]int{0, 1, 8, 32, 63}).Draw(rt, "sigKeep")
			if n > len(old) {
				n = 0
			}
			return old[:n]
		})
	case "keyid-unknown":
		cred("Credential", func(old string) string { return "nobody" + old[strings.IndexByte(old, '/'):] })
	case "keyid-other":
		other := s.Plan.KeyID
		for _, k := range s.Cfg.Keys {
			if k.ID != s.Plan.KeyID {
				other = k.ID
			}
		}
		if other == s.Plan.KeyID {
			other = "nobody"
		}
		cred("Credential", func(old string) string { return other + old[strings.IndexByte(old, '/'):] })
	case "scope":
		cred("Credential", func(old string) string {
			p := strings.Split(old, "/")
			// id / date / scopes... / suffix: insert, replace or drop a scope part
			switch {
			case len(p) > 3 && rapid.Bool().Draw(rt, "scopeDrop"):
				p = append(p[:2], p[3:]...)
			case len(p) > 3:
				p[2] += "x"
			default:
				p = append(p[:2], append([]string{"other"}, p[2:]...)...)
			}
			return strings.Join(p, "/")
		})
	case "expires-bump":
		if s.Plan.Presign {
			m.RawQuery = vfSetQueryParam(m.RawQuery, lit.Expires, func(old string) string { return old + "0" })
		} else {
			m.RawQuery = strings.TrimPrefix(m.RawQuery+"&zz=1", "&")
		}
	// ---- parts the signature does not cover: the request must stay accepted
	case "unsigned-header":
		m.add(rapid.SampledFrom([]string{"X-Unsigned", "User-Agent", "X-Forwarded-For", "Accept-Encoding"}).Draw(rt, "unsignedName"), "curl/8.0")
	case "ignored-header-value":
		done := false
		for i := range m.Hdr {
			signed := false
			for _, n := range s.Names {
				if strings.ToLower(m.Hdr[i].K) == n {
					signed = true
				}
			}
			if !signed && vfCanon(m.Hdr[i].K) != "Authorization" {
				m.Hdr[i].V += "changed"
				done = true
				break
			}
		}
		if !done {
			m.add("X-Unsigned", "1")
		}
	case "framing":
		if m.Chunk > 0 {
			m.Chunk = 0
		} else {
			m.Chunk = rapid.SampledFrom([]int{1, 16, 4096}).Draw(rt, "chunk2")
		}
	case "header-order":
		for i, j := 0, len(m.Hdr)-1; i < j; i, j = i+1, j-1 {
			m.Hdr[i], m.Hdr[j] = m.Hdr[j], m.Hdr[i]
		}
	case "query-order":
		ps := strings.Split(m.RawQuery, "&")
		for i, j := 0, len(ps)-1; i < j; i, j = i+1, j-1 {
			ps[i], ps[j] = ps[j], ps[i]
		}
		m.RawQuery = strings.Join(ps, "&")
	}
	return m, kind
}

var (
	vfSigCoveredKinds = []string{"method", "path", "query-value", "query-add", "query-remove", "signed-header-value",
		"signed-header-extra-value", "drop-signed-header", "host", "date-shift", "body", "body", "signature-flip",
		"signature-truncate", "keyid-unknown", "keyid-other", "scope", "expires-bump"}
	vfSigUncoveredKinds = []string{"unsigned-header", "ignored-header-value", "framing", "header-order", "query-order"}
)

// vfSigLabel names the class of a signature variant. A valid request with a non-empty signed body
// and a pure body tampering share the one label "sig:signed-body", so that the defect around the
// drained body has exactly two keys; every other variant keeps its own label.
func vfSigLabel(kind string, cfg vfSigCfg, r *vfC06Req) string {
	if !cfg.ExcludeBody && len(r.Body) > 0 && (kind == "base-valid" || kind == "resign-valid" || kind == "body") {
		return "sig:signed-body"
	}
	return "sig:" + kind
}

func vfPlanString(p vfSigPlan) string {
	return fmt.Sprintf("client: key=%q secret=%q scopes=%v age=%s presign=%v expire=%s ignored=%v", p.KeyID, p.Secret, p.Scopes, p.Age, p.Presign, p.Expire, p.Ignored)
}

func TestVerifC06Signature(t *testing.T) {
	vf := vfBegin(t, "C06")
	defer vf.End()
	rapid.Check(t, func(rt *rapid.T) {
		c := vfGenSigCfg(rt)
		v, y, err := vfC06NewValidator(map[string]interface{}{"signature": c.spec()})
		if err != nil {
			rt.Fatalf("VF-INCONCLUSIVE generated spec rejected: %v\n%s", err, y)
		}
		defer v.Close()

		// Known finding: a non-empty signed body is never verified correctly. While it is listed,
		// most cases are steered to empty bodies (or excludeBody) so that everything else is explored.
		noBody := false
		if !c.ExcludeBody && vf.HasKnown(vfKnownSigBodyRejected) && !vfOneIn(rt, 6, "keepSignedBody") {
			noBody = true
			vf.Exclude()
		}
		kinds := append(append([]string(nil), vfSigCoveredKinds...), vfSigUncoveredKinds...)
		if !c.ExcludeBody && vf.HasKnown(vfKnownSigBodyAccepted) && !vfOneIn(rt, 4, "keepBodyTamper") {
			var k2 []string
			for _, k := range kinds {
				if k != "body" {
					k2 = append(k2, k)
				}
			}
			kinds = k2
			vf.Exclude()
		}

		carrier := vfGenCarrier(rt, vfCarrierOpts{NoBody: noBody})
		kind := "valid"
		if rapid.IntRange(0, 9).Draw(rt, "baseInvalid") < 3 {
			kind = rapid.SampledFrom([]string{"unknown-key", "empty-key-id", "wrong-secret", "stale", "future", "future-beyond-ttl", "future-beyond-ttl"}).Draw(rt, "baseKind")
		}
		presign := rapid.IntRange(0, 2).Draw(rt, "presign") == 0
		plan, kind := vfGenSigPlan(rt, c, kind, presign)
		now := time.Now()
		s, err := vfSignWithRepo(c, plan, carrier, now)
		if err != nil {
			rt.Fatalf("VF-INCONCLUSIVE client-side signing failed: %v\n%s", err, carrier.String())
		}
		s.Verdict = vfPlanVerdict(c, plan)
		descr := func() string { return "spec:\n" + y + vfPlanString(plan) + "\nsigned headers: " + strings.Join(s.Names, ";") }

		b := vfVariant{Label: vfSigLabel("base-"+kind, c, &s.Req), Req: s.Req, Hdr: vfAccept, Cred: s.Verdict}
		vars := []vfVariant{b}
		n := rapid.IntRange(2, 7).Draw(rt, "nmut")
		for i := 0; i < n; i++ {
			m, k := vfSigTamper(rt, s, kinds)
			cv, why := s.vfSigVerdict(&m)
			x := vfVariant{Label: vfSigLabel(k, c, &m), Req: m, Hdr: vfAccept, Cred: cv}
			x.Covered = s.Verdict == vfAccept && cv == vfReject
			if cv == vfReject {
				vf.Class("sig:diff-" + strings.SplitN(why, " ", 2)[0])
			}
			vars = append(vars, x)
		}
		// a second, freshly signed request under a changed plan (wrong secret, unknown key, stale)
		if rapid.IntRange(0, 2).Draw(rt, "resign") == 0 {
			k2 := rapid.SampledFrom([]string{"unknown-key", "empty-key-id", "wrong-secret", "stale", "valid", "future-beyond-ttl"}).Draw(rt, "resignKind")
			p2, k2 := vfGenSigPlan(rt, c, k2, presign)
			if s2, err := vfSignWithRepo(c, p2, carrier, now); err == nil {
				x := vfVariant{Label: vfSigLabel("resign-"+k2, c, &s2.Req), Req: s2.Req, Hdr: vfAccept, Cred: vfPlanVerdict(c, p2)}
				x.Covered = s.Verdict == vfAccept && x.Cred == vfReject
				vars = append(vars, x)
			}
		}

		multiHdr := false
		for _, nme := range s.Names {
			vs := s.Req.all(nme)
			if len(vs) > 1 {
				multiHdr = true
			}
			for _, x := range vs {
				if strings.Contains(x, "  ") {
					multiHdr = true
				}
			}
		}
		feat := map[string]bool{
			"sig:nonempty-body":          len(s.Req.Body) > 0,
			"sig:path-needs-escaping":    vfPathNeedsEscaping(s.Req.Path),
			"sig:multi-valued-query":     vfQueryMultiValued(carrier.RawQuery),
			"sig:multi-or-padded-header": multiHdr,
		}
		hard := false
		for k, on := range feat {
			if on {
				vf.Class(k)
				hard = true
			}
		}
		if presign {
			vf.Class("sig:presigned")
		}
		if c.ExcludeBody {
			vf.Class("sig:exclude-body")
		}
		vf.Class("sig:literal-"+c.Lit.Name, "sig:ttl-"+c.TTL.String())
		if len(s.Req.Body) > 4096 {
			vf.Class("sig:body>4KiB")
		}
		vfRunVariants(vf, rt, v, "sig", vars, hard, vfDrawLimit(rt), descr)
	})
}

// ---------------------------------------------------------------- several methods together + header rules

type vfComboCfg struct {
	Rules   []vfHdrRule
	JWT     *vfJWTCfg
	OAuth2  *vfJWTCfg
	Sig     *vfSigCfg
	Presign bool
	Users   []vfUser
}

func (c *vfComboCfg) methods() int {
	n := 0
	for _, on := range []bool{len(c.Rules) > 0, c.JWT != nil, c.OAuth2 != nil, c.Sig != nil, len(c.Users) > 0} {
		if on {
			n++
		}
	}
	return n
}

// vfComboVerdicts evaluates every configured method's oracle on one request.
func vfComboVerdicts(c *vfComboCfg, s *vfSigned, m *vfC06Req, now int64) (hdr, cred vfVerdict) {
	hdr = vfHeaderVerdict(m, c.Rules)
	var vs []vfVerdict
	if c.JWT != nil {
		vs = append(vs, vfJWTVerdict(m, c.JWT.Alg, c.JWT.Secret, c.JWT.Cookie, now))
	}
	if c.OAuth2 != nil {
		vs = append(vs, vfJWTVerdict(m, c.OAuth2.Alg, c.OAuth2.Secret, "", now))
	}
	if c.Sig != nil {
		v, _ := s.vfSigVerdict(m)
		vs = append(vs, v)
	}
	if len(c.Users) > 0 {
		vs = append(vs, vfBasicVerdict(m, c.Users))
	}
	return hdr, vfAnd(vs...)
}

func TestVerifC06Combined(t *testing.T) {
	vf := vfBegin(t, "C06")
	defer vf.End()
	old := jwt.TimeFunc
	defer func() { jwt.TimeFunc = old }()
	vfClockProbe(t)
	rapid.Check(t, func(rt *rapid.T) {
		now := int64(1_700_000_000) + int64(rapid.IntRange(0, 10_000_000).Draw(rt, "now"))
		jwt.TimeFunc = func() time.Time { return time.Unix(now, 0) }

		// ---- which methods
		var c vfComboCfg
		if rapid.IntRange(0, 9).Draw(rt, "useRules") < 6 {
			c.Rules = vfGenRules(rt)
		}
		jwtMode := rapid.SampledFrom([]string{"none", "header", "cookie", "cookie", "oauth2", "both"}).Draw(rt, "jwtMode")
		sigMode := rapid.SampledFrom([]string{"none", "header", "presign", "presign"}).Draw(rt, "sigMode")
		useBasic := rapid.Bool().Draw(rt, "useBasic")
		// the Authorization header can carry one credential only; keep conflicts to a small share
		if !vfOneIn(rt, 10, "allowAuthConflict") {
			// (a presigned URL does not use the header, but the signer takes any Authorization
			// header for its own, as AWS does: counted as a conflict too)
			if useBasic && sigMode != "none" {
				if rapid.Bool().Draw(rt, "basicOverSig") {
					sigMode = "none"
				} else {
					useBasic = false
				}
			}
			if (useBasic || sigMode != "none") && (jwtMode == "header" || jwtMode == "oauth2" || jwtMode == "both") {
				jwtMode = "cookie"
			}
		} else {
			vf.Class("combo:authorization-conflict-allowed")
		}
		if jwtMode != "none" {
			j := vfGenJWTCfg(rt, false)
			switch jwtMode {
			case "header":
				j.Cookie = ""
				c.JWT = &j
			case "cookie":
				if j.Cookie == "" {
					j.Cookie = "auth"
				}
				c.JWT = &j
			case "oauth2":
				j.Cookie = ""
				c.OAuth2 = &j
			case "both":
				j.Cookie = ""
				c.JWT = &j
				o := j
				if !rapid.Bool().Draw(rt, "oauth2SameKey") {
					o = vfGenJWTCfg(rt, false)
					o.Cookie = ""
				}
				c.OAuth2 = &o
			}
		}
		if sigMode != "none" {
			sc := vfGenSigCfg(rt)
			c.Sig = &sc
			c.Presign = sigMode == "presign"
		}
		knownBody := vf.HasKnown(vfKnownSigBodyRejected) || vf.HasKnown(vfKnownSigBodyAccepted)
		knownColon := vf.HasKnown(vfKnownBasicColonRejected) || vf.HasKnown(vfKnownBasicColonAccepted)
		if useBasic {
			colonOneIn := 4
			if knownColon {
				colonOneIn = 0 // never: the single-method check keeps observing the finding
				vf.Exclude()
			}
			c.Users = vfGenUsers(rt, colonOneIn)
			if knownColon {
				for i := range c.Users {
					c.Users[i].Pass = strings.ReplaceAll(c.Users[i].Pass, ":", "")
					if c.Users[i].Scheme == "plain" && !vfPlainOK(c.Users[i].Pass) {
						c.Users[i].Scheme = "sha"
					}
				}
			}
		}
		if c.methods() < 2 && len(c.Rules) == 0 {
			c.Rules = vfGenRules(rt)
		}

		// ---- spec
		spec := map[string]interface{}{}
		if len(c.Rules) > 0 {
			spec["headers"] = vfRulesSpec(c.Rules)
		}
		if c.JWT != nil {
			spec["jwt"] = c.JWT.spec()["jwt"]
		}
		if c.OAuth2 != nil {
			o := *c.OAuth2
			o.OAuth2 = true
			spec["oauth2"] = o.spec()["oauth2"]
		}
		if c.Sig != nil {
			spec["signature"] = c.Sig.spec()
		}
		var v *Validator
		var y string
		if len(c.Users) > 0 {
			var cleanup func()
			v, y, cleanup = vfBasicSetup(rt, c.Users, spec)
			defer cleanup()
		} else {
			var err error
			v, y, err = vfC06NewValidator(spec)
			if err != nil {
				rt.Fatalf("VF-INCONCLUSIVE generated spec rejected: %v\n%s", err, y)
			}
			defer v.Close()
		}

		// ---- base request: satisfy each method in turn, sign last
		noBody := c.Sig != nil && !c.Sig.ExcludeBody && knownBody
		if noBody {
			vf.Exclude()
		}
		req := vfGenCarrier(rt, vfCarrierOpts{NoBody: noBody, MaxBody: 4096})
		if len(c.Rules) > 0 && !vfOneIn(rt, 6, "leaveRulesUnsatisfied") {
			vfSatisfyRules(rt, &req, c.Rules)
		}
		var tok vfTok
		var jc *vfJWTCfg
		if c.JWT != nil {
			jc = c.JWT
		} else if c.OAuth2 != nil {
			jc = c.OAuth2
		}
		if jc != nil {
			tok = vfGenValidTok(rt, *jc, now)
			if vfOneIn(rt, 8, "comboTokInvalid") {
				tok.Claims["exp"] = vfTimeLit(rt, now-2, "any", "exp")
			}
			vfPlaceToken(rt, &req, *jc, tok.String(), jc.Cookie != "")
		}
		var bu vfUser
		if len(c.Users) > 0 {
			bu = c.Users[rapid.IntRange(0, len(c.Users)-1).Draw(rt, "user")]
			p := bu.Pass
			if vfOneIn(rt, 8, "comboPwWrong") {
				p += "!"
			}
			if _, taken := req.get("Authorization"); !taken || rapid.Bool().Draw(rt, "basicOverrides") {
				req.set("Authorization", vfBasicHeader(bu.Name, p))
			}
		}
		var s *vfSigned
		planStr := ""
		if c.Sig != nil {
			kind := "valid"
			if vfOneIn(rt, 8, "comboSigInvalid") {
				kind = rapid.SampledFrom([]string{"unknown-key", "empty-key-id", "wrong-secret", "stale", "future-beyond-ttl"}).Draw(rt, "sigKind")
			}
			plan, _ := vfGenSigPlan(rt, *c.Sig, kind, c.Presign)
			var err error
			s, err = vfSignWithRepo(*c.Sig, plan, req, time.Now())
			if err != nil {
				rt.Fatalf("VF-INCONCLUSIVE client-side signing failed: %v", err)
			}
			s.Verdict = vfPlanVerdict(*c.Sig, plan)
			req = s.Req
			planStr = "\n" + vfPlanString(plan) + "\nsigned headers: " + strings.Join(s.Names, ";")
		}
		descr := func() string {
			d := "spec:\n" + y + fmt.Sprintf("now=%d", now)
			if jc != nil {
				d += fmt.Sprintf(" jwt-secret=%x", jc.Secret)
			}
			if len(c.Users) > 0 {
				d += " users=" + vfUsersString(c.Users)
			}
			return d + planStr
		}

		mk := func(label string, m vfC06Req) vfVariant {
			h, cr := vfComboVerdicts(&c, s, &m, now)
			return vfVariant{Label: "combo:" + label, Req: m, Hdr: h, Cred: cr}
		}
		b := mk("base", req)
		vars := []vfVariant{b}

		// ---- single mutations, drawn from every configured method's repertoire
		var kinds []string
		if len(c.Rules) > 0 {
			kinds = append(kinds, "hdr-break", "hdr-drop", "hdr-second-value")
		}
		if jc != nil {
			kinds = append(kinds, "jwt-flip-sig", "jwt-expired", "jwt-other-secret", "jwt-other-alg")
		}
		if len(c.Users) > 0 {
			kinds = append(kinds, "basic-pw", "basic-user", "basic-other-user-pw")
		}
		sigKinds := append(append([]string(nil), vfSigCoveredKinds...), vfSigUncoveredKinds...)
		if noBody || (c.Sig != nil && !c.Sig.ExcludeBody && knownBody) {
			var k2 []string
			for _, k := range sigKinds {
				if k != "body" {
					k2 = append(k2, k)
				}
			}
			sigKinds = k2
		}
		if c.Sig != nil {
			kinds = append(kinds, "sig", "sig", "sig")
		}
		kinds = append(kinds, "drop-authorization", "uncovered-header")
		n := rapid.IntRange(3, 7).Draw(rt, "nmut")
		for i := 0; i < n; i++ {
			kind := rapid.SampledFrom(kinds).Draw(rt, "comboMut")
			m := req.clone()
			switch kind {
			case "hdr-break", "hdr-drop", "hdr-second-value":
				rule := c.Rules[rapid.IntRange(0, len(c.Rules)-1).Draw(rt, "rule")]
				switch kind {
				case "hdr-break":
					m.set(rule.Name, rapid.SampledFrom(vfRuleSent).Draw(rt, "ruleSent"))
				case "hdr-drop":
					m.del(rule.Name)
				default:
					m.add(rule.Name, rapid.SampledFrom(vfRuleSent).Draw(rt, "ruleSent2"))
				}
			case "jwt-flip-sig", "jwt-expired", "jwt-other-secret", "jwt-other-alg":
				t2 := tok.clone()
				if vfOneIn(rt, 3, "comboFutureIat") {
					t2.Claims["iat"] = vfTimeLit(rt, now+rapid.SampledFrom([]int64{1, 60, 86400}).Draw(rt, "comboIatIn"), "any", "iat")
					vf.Class("combo:jwt-mutation-with-future-iat")
				}
				str := ""
				switch kind {
				case "jwt-flip-sig":
					str = vfFlipSeg(rt, t2.String(), 2)
				case "jwt-expired":
					t2.Claims["exp"] = vfTimeLit(rt, now-rapid.SampledFrom([]int64{2, 3600}).Draw(rt, "comboExpiredBy"), "any", "exp")
				case "jwt-other-secret":
					t2.Secret = vfOtherSecret(rt, jc.Secret)
				default:
					t2.HdrAlg = vfOtherAlg(rt, jc.Alg)
					t2.SignAlg = t2.HdrAlg
				}
				if str == "" {
					str = t2.String()
				}
				vfPlaceToken(rt, &m, *jc, str, jc.Cookie != "")
			case "basic-pw":
				m.set("Authorization", vfBasicHeader(bu.Name, bu.Pass+"x"))
			case "basic-user":
				m.set("Authorization", vfBasicHeader(bu.Name+"x", bu.Pass))
			case "basic-other-user-pw":
				o := c.Users[rapid.IntRange(0, len(c.Users)-1).Draw(rt, "otherUser")]
				p := o.Pass
				if o.Name == bu.Name {
					p += "z"
				}
				m.set("Authorization", vfBasicHeader(bu.Name, p))
			case "sig":
				var k string
				m, k = vfSigTamper(rt, s, sigKinds)
				kind = "sig-" + k
			case "drop-authorization":
				m.del("Authorization")
			case "uncovered-header":
				m.add("X-Unsigned", "1")
			}
			x := mk(kind, m)
			x.Covered = b.want() == vfAccept && x.want() == vfReject
			vars = append(vars, x)
		}
		vf.Class(fmt.Sprintf("combo:methods=%d", c.methods()))
		for name, on := range map[string]bool{"combo:with-headers": len(c.Rules) > 0, "combo:with-jwt": c.JWT != nil, "combo:with-oauth2jwt": c.OAuth2 != nil,
			"combo:with-signature": c.Sig != nil, "combo:with-basic": len(c.Users) > 0} {
			if on {
				vf.Class(name)
			}
		}
		if b.Hdr == vfReject && b.Cred == vfAccept {
			vf.Class("combo:base-fails-headers-only")
		}
		if b.Hdr == vfAccept && b.Cred == vfReject {
			vf.Class("combo:base-fails-credentials-only")
		}
		vfRunVariants(vf, rt, v, "combo", vars, c.methods() >= 2, vfDrawLimit(rt), descr)
	})
}

// ---------------------------------------------------------------- malformed credentials (stands in for the native fuzz leg)

var vfJunkPieces = []string{"Bearer ", "Basic ", "bearer ", "Bearer", " ", "  ", ",", ", ", "/", "//", ";", "=", ".", "..", "Credential=", "Credential=AKID",
	"Credential=AKID/", "Credential=AKID/20260101", "Credential=AKID/20260101/", "Credential=AKID//megaease_request", "SignedHeaders=", "SignedHeaders=host",
	"SignedHeaders=host;x-me-date", "SignedHeaders=;", "Signature=", "Signature=00", "ME-HMAC-SHA256", "ME-HMAC-SHA256 ", "AWS4-HMAC-SHA256 ", "eyJhbGciOiJIUzI1NiJ9", "e30",
	"eyJhbGciOiJub25lIn0", "Og==", "dTpw", "dTo=", "OnA=", "Zm9v", "====", "%", "é", "0", "nobody", "AKID"}

func vfDrawJunk(rt *rapid.T) string {
	n := rapid.IntRange(0, 8).Draw(rt, "njunk")
	var b strings.Builder
	for i := 0; i < n; i++ {
		if vfOneIn(rt, 5, "junkFree") {
			b.WriteString(rapid.StringOfN(rapid.RuneFrom([]rune("abcXYZ019 =,;/.:-_+é")), 0, 6, -1).Draw(rt, "junkText"))
		} else {
			b.WriteString(rapid.SampledFrom(vfJunkPieces).Draw(rt, "junkPiece"))
		}
	}
	return b.String()
}

func TestVerifC06Malformed(t *testing.T) {
	vf := vfBegin(t, "C06")
	defer vf.End()
	old := jwt.TimeFunc
	defer func() { jwt.TimeFunc = old }()
	rapid.Check(t, func(rt *rapid.T) {
		now := int64(1_700_000_000)
		jwt.TimeFunc = func() time.Time { return time.Unix(now, 0) }
		method := rapid.SampledFrom([]string{"jwt", "oauth2", "signature", "basic"}).Draw(rt, "method")
		var c vfComboCfg
		spec := map[string]interface{}{}
		switch method {
		case "jwt", "oauth2":
			j := vfGenJWTCfg(rt, false)
			if method == "oauth2" {
				j.Cookie = ""
				j.OAuth2 = true
				c.OAuth2 = &j
				spec = j.spec()
			} else {
				c.JWT = &j
				spec = j.spec()
			}
		case "signature":
			sc := vfGenSigCfg(rt)
			c.Sig = &sc
			spec["signature"] = sc.spec()
		}
		var v *Validator
		var y string
		if method == "basic" {
			c.Users = []vfUser{{Name: "u", Pass: "p", Scheme: "sha"}, {Name: "", Pass: "p", Scheme: "sha"}, {Name: "foo", Pass: "", Scheme: "sha"}}
			var cleanup func()
			v, y, cleanup = vfBasicSetup(rt, c.Users, nil)
			defer cleanup()
		} else {
			var err error
			v, y, err = vfC06NewValidator(spec)
			if err != nil {
				rt.Fatalf("VF-INCONCLUSIVE generated spec rejected: %v\n%s", err, y)
			}
			defer v.Close()
		}
		descr := func() string { return "spec:\n" + y }
		n := rapid.IntRange(1, 6).Draw(rt, "nreq")
		var vars []vfVariant
		for i := 0; i < n; i++ {
			r := vfGenCarrier(rt, vfCarrierOpts{MaxBody: 256})
			where := "authorization"
			if method == "signature" && vfOneIn(rt, 2, "junkInQuery") {
				where = "query"
				lit := c.Sig.Lit.lit()
				var ps []string
				for _, name := range []string{lit.AlgorithmName, lit.Credential, lit.Date, lit.Expires, lit.SignedHeaders, lit.Signature} {
					if vfOneIn(rt, 4, "junkSkipParam") {
						continue
					}
					val := vfDrawJunk(rt)
					if name == lit.AlgorithmName && rapid.Bool().Draw(rt, "junkAlgOK") {
						val = lit.AlgorithmValue
					}
					if name == lit.Date && rapid.Bool().Draw(rt, "junkDateOK") {
						val = "20260101T000000Z"
					}
					if name == lit.Expires && rapid.Bool().Draw(rt, "junkExpOK") {
						val = rapid.SampledFrom([]string{"0", "60", "18446744073709551615", "-1", "0x10"}).Draw(rt, "junkExp")
					}
					ps = append(ps, name+"="+vfURIEncode(val, false))
				}
				r.RawQuery = strings.Join(ps, "&")
			} else {
				junk := vfDrawJunk(rt)
				if method == "signature" && rapid.Bool().Draw(rt, "junkAlgPrefix") {
					junk = c.Sig.Lit.lit().AlgorithmValue + " " + junk
				}
				if strings.Trim(junk, " \t") == "" && vfOneIn(rt, 2, "junkNoHeader") {
					where = "absent"
				} else {
					r.set("Authorization", junk)
				}
				if method == "signature" && rapid.Bool().Draw(rt, "junkDateHdr") {
					r.set(c.Sig.Lit.lit().Date, rapid.SampledFrom([]string{"20260101T000000Z", "2026", "", "x"}).Draw(rt, "junkDate"))
				}
				if method == "jwt" && c.JWT.Cookie != "" && vfOneIn(rt, 3, "junkCookie") {
					r.set("Cookie", c.JWT.Cookie+"="+strings.Map(func(x rune) rune {
						if x == ' ' || x == ';' || x == ',' || x > 126 {
							return -1
						}
						return x
					}, junk))
					where = "cookie"
				}
			}
			x := vfVariant{Label: "malformed:" + method + "-" + where, Req: r, Hdr: vfAccept}
			switch method {
			case "jwt":
				x.Cred = vfJWTVerdict(&r, c.JWT.Alg, c.JWT.Secret, c.JWT.Cookie, now)
			case "oauth2":
				x.Cred = vfJWTVerdict(&r, c.OAuth2.Alg, c.OAuth2.Secret, "", now)
			case "basic":
				x.Cred = vfBasicVerdict(&r, c.Users)
			default:
				x.Cred = vfReject // nothing here was produced with a configured secret
			}
			vars = append(vars, x)
		}
		for i := range vars {
			x := &vars[i]
			vf.Class(x.Label, "malformed:oracle-"+x.want().String())
			// not part of the non-triviality rule (no accepted base): counted as evaluated only
			vf.Case(false, y+"||"+x.Req.String(), func() interface{} {
				return map[string]interface{}{"check": "malformed", "config": y, "request": x.Req.String(), "oracle": x.want().String()}
			})
			vfDrawPre(vf, rt, x)
			if vfCompare(vf, rt, v, x, 0, descr) {
				return
			}
		}
	})
}

// ---------------------------------------------------------------- own SigV4-style client against the real verifier

func TestVerifC06SigV4Cross(t *testing.T) {
	vf := vfBegin(t, "C06")
	defer vf.End()
	rapid.Check(t, func(rt *rapid.T) {
		c := vfGenSigCfg(rt)
		v, y, err := vfC06NewValidator(map[string]interface{}{"signature": c.spec()})
		if err != nil {
			rt.Fatalf("VF-INCONCLUSIVE generated spec rejected: %v\n%s", err, y)
		}
		defer v.Close()
		lit := c.Lit.lit()
		// bodies only where the server does not hash them (the signed-body defect has its own check)
		carrier := vfGenCarrier(rt, vfCarrierOpts{NoBody: !c.ExcludeBody, MaxBody: 4096})
		// most cases: keep the query inside the part where the AWS documents and the repo's signer
		// agree (no space); the rest stays in as the "ambiguous" class
		if !vfOneIn(rt, 5, "keepSpaceInQuery") {
			var keep []string
			for _, p := range strings.Split(carrier.RawQuery, "&") {
				if p != "" && !strings.ContainsAny(vfPctDecode(p), " ") {
					keep = append(keep, p)
				}
			}
			carrier.RawQuery = strings.Join(keep, "&")
		}
		key := c.Keys[rapid.IntRange(0, len(c.Keys)-1).Draw(rt, "keyIdx")]
		plan, _ := vfGenSigPlan(rt, c, "valid", false)
		plan.KeyID, plan.Secret = key.ID, key.Secret
		var extra []string
		seen := map[string]bool{}
		for _, h := range carrier.Hdr {
			n := strings.ToLower(h.K)
			if !seen[n] && rapid.Bool().Draw(rt, "sign-"+n) {
				extra = append(extra, n)
			}
			seen[n] = true
		}
		payload := vfSha256Hex(nil)
		if c.ExcludeBody {
			payload = "UNSIGNED-PAYLOAD"
		}
		signedReq := vfSigV4Sign(lit, key, time.Now().Add(-plan.Age), plan.Scopes, carrier, extra, payload)
		names := append([]string{"host", strings.ToLower(lit.Date)}, extra...)
		s := &vfSigned{Cfg: c, Plan: plan, Req: signedReq, Names: names, Verdict: vfPlanVerdict(c, plan)}
		space := false
		for _, p := range vfParseQuery(carrier.RawQuery) {
			if strings.Contains(p.K, " ") || strings.Contains(p.V, " ") {
				space = true
			}
		}
		// AWS sorts the canonical query after encoding, the repo's signer before: where the two
		// orders differ (names outside ASCII next to ASCII ones) the outcome is left open as well
		{
			ps := vfParseQuery(carrier.RawQuery)
			var enc, dec []string
			for _, p := range ps {
				enc = append(enc, vfURIEncode(p.K, false)+"="+vfURIEncode(p.V, false))
			}
			sort.SliceStable(ps, func(i, j int) bool {
				if ps[i].K != ps[j].K {
					return ps[i].K < ps[j].K
				}
				return ps[i].V < ps[j].V
			})
			for _, p := range ps {
				dec = append(dec, vfURIEncode(p.K, false)+"="+vfURIEncode(p.V, false))
			}
			sort.Strings(enc)
			if strings.Join(enc, "&") != strings.Join(dec, "&") {
				space = true
				vf.Class("sigx:query-sort-order-differs(ambiguous)")
			}
		}
		if space {
			// AWS encodes a space in the canonical query as %20, the repo's signer as '+': a client
			// written from the AWS documents is refused. The docs only say "compatible": left open.
			s.Verdict = vfEither
			vf.Class("sigx:space-in-query(ambiguous)")
		}
		descr := func() string {
			return "spec:\n" + y + vfPlanString(plan) + "\nsigned by the harness's own SigV4 implementation; signed headers: " + strings.Join(names, ";")
		}
		b := vfVariant{Label: "sigx:own-sigv4-client", Req: signedReq, Hdr: vfAccept, Cred: s.Verdict}
		vars := []vfVariant{b}
		kinds := append(append([]string(nil), vfSigCoveredKinds...), vfSigUncoveredKinds...)
		if !c.ExcludeBody && vf.HasKnown(vfKnownSigBodyAccepted) {
			var k2 []string
			for _, k := range kinds {
				if k != "body" {
					k2 = append(k2, k)
				}
			}
			kinds = k2
			vf.Exclude()
		}
		n := rapid.IntRange(1, 4).Draw(rt, "nmut")
		for i := 0; i < n; i++ {
			m, k := vfSigTamper(rt, s, kinds)
			cv, _ := s.vfSigVerdict(&m)
			lab := "sigx:" + k
			if !c.ExcludeBody && len(m.Body) > 0 && k == "body" {
				lab = "sig:signed-body" // the one class of the signed-body defect
			}
			x := vfVariant{Label: lab, Req: m, Hdr: vfAccept, Cred: cv}
			x.Covered = s.Verdict == vfAccept && cv == vfReject
			vars = append(vars, x)
		}
		hard := vfPathNeedsEscaping(signedReq.Path) || vfQueryMultiValued(carrier.RawQuery) || len(extra) > 0
		vf.Class("sigx:literal-" + c.Lit.Name)
		if len(extra) > 0 {
			vf.Class("sigx:extra-signed-headers")
		}
		vfRunVariants(vf, rt, v, "sigx", vars, hard, vfDrawLimit(rt), descr)
	})
}

// ---------------------------------------------------------------- update histories (Inherit + Close of the previous generation)

// vfInhCfg is the configuration of one generation.
type vfInhCfg struct {
	Users []vfUser // nil: no basicAuth section
	File  string
	JWT   *vfJWTCfg
	Sig   *vfSigCfg
	Rules []vfHdrRule
}

func (c *vfInhCfg) spec() map[string]interface{} {
	m := map[string]interface{}{}
	if c.Users != nil {
		m["basicAuth"] = map[string]interface{}{"mode": "FILE", "userFile": c.File}
	}
	if c.JWT != nil {
		m["jwt"] = c.JWT.spec()["jwt"]
	}
	if c.Sig != nil {
		m["signature"] = c.Sig.spec()
	}
	if len(c.Rules) > 0 {
		m["headers"] = vfRulesSpec(c.Rules)
	}
	return m
}

// vfInotifyAvailable: can this process still get an inotify instance?
func vfInotifyAvailable() bool {
	w, err := fsnotify.NewWatcher()
	if err != nil {
		return false
	}
	w.Close()
	return true
}

// vfInhPickupWait bounds the wait for a changed user file to be noticed (the watcher is event
// driven, normally a few milliseconds; generous for a busy machine).
const vfInhPickupWait = 8 * time.Second

type vfInhProbe struct {
	User, Pass string
	Want       bool
}

func TestVerifC06Inherit(t *testing.T) {
	vf := vfBegin(t, "C06")
	defer vf.End()
	old := jwt.TimeFunc
	defer func() { jwt.TimeFunc = old }()
	vfClockProbe(t)
	fileCases, fileSkipped := 0, 0
	defer func() {
		// cases that could not be run because no inotify instance was left must stay the exception
		if fileCases >= 20 && fileSkipped*2 > fileCases && !t.Failed() {
			t.Fatalf("VF-INCONCLUSIVE %d of %d update histories with a user file could not be checked: no inotify instance left on this machine (fs.inotify.max_user_instances)", fileSkipped, fileCases)
		}
	}()
	rapid.Check(t, func(rt *rapid.T) {
		now := int64(1_700_000_000) + int64(rapid.IntRange(0, 10_000_000).Draw(rt, "now"))
		jwt.TimeFunc = func() time.Time { return time.Unix(now, 0) }
		salt := []byte("vf")
		var files []string
		var live []*Validator
		defer func() {
			for _, v := range live {
				v.Close()
			}
			for _, f := range files {
				os.Remove(f)
			}
		}()
		newFile := func(us []vfUser) string {
			f, err := vfWriteHtpasswd(us, salt)
			if err != nil {
				rt.Fatalf("VF-INCONCLUSIVE cannot write htpasswd file: %v", err)
			}
			files = append(files, f)
			return f
		}

		// ---- generation 1. Basic and signature both want the Authorization header: one of them.
		scenario := rapid.SampledFrom([]string{"basic", "basic", "basic+jwt", "jwt", "signature"}).Draw(rt, "scenario")
		var c vfInhCfg
		if strings.HasPrefix(scenario, "basic") {
			c.Users = vfGenUsers(rt, 4)
			c.File = newFile(c.Users)
		}
		if strings.Contains(scenario, "jwt") {
			j := vfGenJWTCfg(rt, false)
			if c.Users != nil && j.Cookie == "" {
				j.Cookie = "auth"
			}
			c.JWT = &j
		}
		if scenario == "signature" {
			s := vfGenSigCfg(rt)
			c.Sig = &s
		}
		v, y, err := vfC06NewValidator(c.spec())
		if err != nil {
			rt.Fatalf("VF-INCONCLUSIVE generated spec rejected: %v\n%s", err, y)
		}
		live = []*Validator{v}
		var hist []string
		hist = append(hist, "generation 1 (Init):\n"+y)
		descr := func() string {
			d := strings.Join(hist, "\n") + fmt.Sprintf("\nnow=%d", now)
			if c.Users != nil {
				d += " users(now in " + c.File + ")=" + vfUsersString(c.Users)
			}
			if c.JWT != nil {
				d += fmt.Sprintf(" jwt-secret=%x", c.JWT.Secret)
			}
			return d
		}

		// stale credentials collected along the history: each must be rejected from then on
		type stale struct {
			label string
			user  vfUser    // basic: a pair that is no longer configured
			jwt   *vfJWTCfg // a JWT configuration that was replaced
			key   *vfKey    // an access key that was removed or whose secret was rotated
		}
		var stales []stale
		changed, inherited := false, 0

		// traffic: a request with the current credentials, the stale ones, and a few plain mutations
		traffic := func(phase string) bool {
			build := func(u *vfUser, j *vfJWTCfg, k *vfKey) (vfC06Req, *vfSigned) {
				r := vfGenCarrier(rt, vfCarrierOpts{MaxBody: 512})
				r.del("Authorization")
				if len(c.Rules) > 0 {
					vfSatisfyRules(rt, &r, c.Rules)
				}
				if j != nil {
					tok := vfGenValidTok(rt, *j, now)
					vfPlaceToken(rt, &r, *j, tok.String(), j.Cookie != "")
				}
				if u != nil {
					r.set("Authorization", vfBasicHeader(u.Name, u.Pass))
				}
				if k != nil {
					plan, _ := vfGenSigPlan(rt, *c.Sig, "valid", rapid.Bool().Draw(rt, "presign"))
					plan.KeyID, plan.Secret = k.ID, k.Secret
					s, err := vfSignWithRepo(*c.Sig, plan, r, time.Now())
					if err != nil {
						rt.Fatalf("VF-INCONCLUSIVE client-side signing failed: %v", err)
					}
					s.Verdict = vfPlanVerdict(*c.Sig, plan)
					return s.Req, s
				}
				return r, nil
			}
			verdict := func(r *vfC06Req, s *vfSigned) (vfVerdict, vfVerdict) {
				cc := vfComboCfg{Rules: c.Rules, JWT: c.JWT, Sig: c.Sig, Users: c.Users}
				return vfComboVerdicts(&cc, s, r, now)
			}
			var cu *vfUser
			var ck *vfKey
			if c.Users != nil {
				u := c.Users[rapid.IntRange(0, len(c.Users)-1).Draw(rt, "user")]
				cu = &u
			}
			if c.Sig != nil {
				k := c.Sig.Keys[rapid.IntRange(0, len(c.Sig.Keys)-1).Draw(rt, "key")]
				ck = &k
			}
			base, bs := build(cu, c.JWT, ck)
			mk := func(label string, r vfC06Req, s *vfSigned) vfVariant {
				h, cr := verdict(&r, s)
				return vfVariant{Label: "inherit:" + label, Req: r, Hdr: h, Cred: cr}
			}
			vars := []vfVariant{mk(phase+"-current-credentials", base, bs)}
			for _, st := range stales {
				var r vfC06Req
				var s *vfSigned
				switch {
				case st.jwt != nil:
					r, s = build(cu, st.jwt, ck)
				case st.key != nil:
					// signed with a key the current configuration does not have (any more)
					r2 := vfGenCarrier(rt, vfCarrierOpts{MaxBody: 512})
					if len(c.Rules) > 0 {
						vfSatisfyRules(rt, &r2, c.Rules)
					}
					plan, _ := vfGenSigPlan(rt, *c.Sig, "valid", false)
					plan.KeyID, plan.Secret = st.key.ID, st.key.Secret
					ss, err := vfSignWithRepo(*c.Sig, plan, r2, time.Now())
					if err != nil {
						rt.Fatalf("VF-INCONCLUSIVE client-side signing failed: %v", err)
					}
					ss.Verdict = vfPlanVerdict(*c.Sig, plan)
					r, s = ss.Req, ss
				default:
					u := st.user
					r, s = build(&u, c.JWT, ck)
				}
				x := mk(st.label, r, s)
				x.Covered = x.want() == vfReject
				vars = append(vars, x)
			}
			if cu != nil {
				m := base.clone()
				m.set("Authorization", vfBasicHeader(cu.Name, cu.Pass+"x"))
				x := mk("wrong-password", m, bs)
				x.Covered = x.want() == vfReject
				vars = append(vars, x)
			}
			for i := range vars {
				x := &vars[i]
				vf.Class(x.Label, "inherit:oracle-"+x.want().String())
				vfDrawPre(vf, rt, x)
				if vfCompare(vf, rt, live[0], x, 0, descr) {
					return true
				}
			}
			return false
		}

		if rapid.Bool().Draw(rt, "trafficBeforeUpdate") {
			if traffic("gen1") {
				return
			}
		}

		// ---- pipeline updates
		nup := rapid.IntRange(1, 3).Draw(rt, "updates")
		var twin *Validator
		watchOK := true
		_ = watchOK
		for g := 0; g < nup; g++ {
			n := c
			what := []string{}
			// "any change" of the pipeline: here, header rules come and go
			if rapid.Bool().Draw(rt, "toggleRules") {
				if len(n.Rules) > 0 {
					n.Rules = nil
				} else {
					n.Rules = vfGenRules(rt)
				}
				what = append(what, "header rules toggled")
			}
			if c.Users != nil && vfOneIn(rt, 5, "otherFile") {
				us := vfGenUsers(rt, 4)
				n.Users, n.File = us, newFile(us)
				for _, u := range c.Users {
					keep := false
					for _, w := range us {
						if w == u || (w.Name == u.Name && w.Pass == u.Pass) {
							keep = true
						}
					}
					if !keep {
						stales = append(stales, stale{label: "basic-user-of-previous-file", user: u})
					}
				}
				changed = true
				what = append(what, "basicAuth points to another user file")
			}
			if c.JWT != nil && rapid.Bool().Draw(rt, "rotateJWT") {
				j := vfGenJWTCfg(rt, false)
				j.Cookie = c.JWT.Cookie
				if string(j.Secret) != string(c.JWT.Secret) || j.Alg != c.JWT.Alg {
					o := *c.JWT
					stales = append(stales, stale{label: "jwt-of-previous-generation", jwt: &o})
					changed = true
				}
				n.JWT = &j
				what = append(what, "jwt secret/algorithm replaced")
			}
			if c.Sig != nil && rapid.Bool().Draw(rt, "rotateKeys") {
				s := *c.Sig
				s.Keys = append([]vfKey(nil), c.Sig.Keys...)
				i := rapid.IntRange(0, len(s.Keys)-1).Draw(rt, "rotIdx")
				o := s.Keys[i]
				if len(s.Keys) > 1 && rapid.Bool().Draw(rt, "removeKey") {
					s.Keys = append(s.Keys[:i], s.Keys[i+1:]...)
					what = append(what, "access key "+o.ID+" removed")
				} else {
					s.Keys[i].Secret = o.Secret + "-rotated"
					what = append(what, "secret of access key "+o.ID+" rotated")
				}
				stales = append(stales, stale{label: "signature-key-of-previous-generation", key: &o})
				changed = true
				n.Sig = &s
			}
			nv, ny, err := vfC06NextGeneration(n.spec(), live[0])
			if err != nil {
				rt.Fatalf("VF-INCONCLUSIVE generated spec rejected: %v\n%s", err, ny)
			}
			live[0] = nv
			c = n
			inherited++
			hist = append(hist, fmt.Sprintf("generation %d := Inherit(generation %d), previous closed; %s:\n%s", g+2, g+1, strings.Join(what, ", "), ny))
			if rapid.Bool().Draw(rt, "trafficAfterUpdate") || g == nup-1 {
				if traffic(fmt.Sprintf("gen%d", g+2)) {
					return
				}
			}
		}
		// a fresh twin of the last generation, built at the same moment: only consulted when the
		// inherited generation does not notice a file change in time
		if c.Users != nil {
			var err error
			twin, _, err = vfC06NewValidator(c.spec())
			if err != nil {
				rt.Fatalf("VF-INCONCLUSIVE twin spec rejected: %v", err)
			}
			live = append(live, twin)
			// inotify instances are a per-user resource (128 here) shared with everything else
			// running on this machine; a validator created while none is left watches nothing.
			// That is the environment, not the property: such a case ends here.
			fileCases++
			watchOK = vfInotifyAvailable()
			if !watchOK {
				fileSkipped++
				vf.Class("inherit:no-inotify-instance-left(file-edits-skipped)")
				return
			}
		}

		// ---- the user file changes after the update(s)
		if c.Users != nil {
			nedit := rapid.IntRange(1, 2).Draw(rt, "fileEdits")
			for e := 0; e < nedit; e++ {
				before := append([]vfUser(nil), c.Users...)
				after := append([]vfUser(nil), c.Users...)
				edit := rapid.SampledFrom([]string{"remove-user", "change-password", "add-user"}).Draw(rt, "edit")
				i := rapid.IntRange(0, len(after)-1).Draw(rt, "editIdx")
				switch {
				case edit == "remove-user" && len(after) > 1:
					stales = append(stales, stale{label: "basic-revoked-user", user: after[i]})
					after = append(after[:i], after[i+1:]...)
				case edit == "add-user":
					after = append(after, vfUser{Name: fmt.Sprintf("new%d-%s", e, after[i].Name), Pass: vfDrawPass(rt, false), Scheme: "sha"})
				default:
					edit = "change-password"
					stales = append(stales, stale{label: "basic-old-password", user: after[i]})
					after[i].Pass = after[i].Pass + rapid.SampledFrom([]string{"2", ":new", "é"}).Draw(rt, "newPwTail")
					if after[i].Scheme == "plain" && !vfPlainOK(after[i].Pass) {
						after[i].Scheme = "sha"
					}
				}
				if err := vfRewriteHtpasswd(c.File, after, salt); err != nil {
					rt.Fatalf("VF-INCONCLUSIVE cannot rewrite htpasswd file: %v", err)
				}
				c.Users = after
				changed = true
				hist = append(hist, fmt.Sprintf("user file %s rewritten in place (%s): %s -> %s", c.File, edit, vfUsersString(before), vfUsersString(after)))
				vf.Class("inherit:file-" + edit)

				// wait until the validator answers according to the file
				var probes []vfInhProbe
				for _, u := range after {
					probes = append(probes, vfInhProbe{u.Name, u.Pass, true})
				}
				for _, u := range before {
					still := false
					for _, w := range after {
						if w.Name == u.Name && w.Pass == u.Pass {
							still = true
						}
					}
					if !still {
						probes = append(probes, vfInhProbe{u.Name, u.Pass, false})
					}
				}
				consistent := func(v *Validator) (bool, string) {
					for _, p := range probes {
						r := vfC06Req{Method: "GET", Host: "example.com", Path: "/"}
						if c.JWT != nil {
							tok := vfTok{HdrAlg: c.JWT.Alg, SignAlg: c.JWT.Alg, Secret: c.JWT.Secret, Claims: map[string]interface{}{"sub": "probe"}}
							r.set("Cookie", c.JWT.Cookie+"="+tok.String())
						}
						r.set("Authorization", vfBasicHeader(p.User, p.Pass))
						if len(c.Rules) > 0 {
							// deterministic choice: the first sendable value that satisfies each rule
							for _, rule := range c.Rules {
								for _, s := range vfRuleSent {
									probe := vfC06Req{Hdr: []vfH{{rule.Name, s}}}
									if vfHeaderVerdict(&probe, []vfHdrRule{rule}) == vfAccept {
										r.add(rule.Name, s)
										break
									}
								}
							}
							if vfHeaderVerdict(&r, c.Rules) != vfAccept {
								continue // rule cannot be satisfied from the alphabet: this probe says nothing
							}
						}
						out := vfC06Serve(v, &r, 0)
						if out.Panic || out.Err != "" || (out.Result == "") != p.Want {
							return false, fmt.Sprintf("user %q password %q: want accepted=%v, got %s", p.User, p.Pass, p.Want, out)
						}
					}
					return true, ""
				}
				deadline := time.Now().Add(vfInhPickupWait)
				ok, why := consistent(live[0])
				for pause := time.Millisecond; !ok && time.Now().Before(deadline); {
					time.Sleep(pause)
					if pause < 100*time.Millisecond {
						pause *= 2
					}
					ok, why = consistent(live[0])
				}
				if !ok {
					// did a fresh validator of the same spec, created at the same moment, notice?
					tok2, twhy := consistent(twin)
					for !tok2 && time.Now().Before(deadline.Add(2*time.Second)) {
						time.Sleep(50 * time.Millisecond)
						tok2, twhy = consistent(twin)
					}
					if !tok2 && !vfInotifyAvailable() {
						fileSkipped++
						vf.Class("inherit:no-inotify-instance-left(file-edits-skipped)")
						return
					}
					if !tok2 {
						rt.Fatalf("VF-INCONCLUSIVE neither the inherited generation nor a fresh twin noticed the changed user file within %s (file watching not working here?): %s / twin: %s\n%s", vfInhPickupWait, why, twhy, descr())
					}
					if vf.Violation(rt, "inherit:basic-file-change-not-noticed-after-update", "after %d update(s) the validator still answers from the old user file %s after %s, a fresh validator of the same spec created at the same time follows the file: %s\n%s", inherited, c.File, vfInhPickupWait, why, descr()) {
						return
					}
				}
				if traffic(fmt.Sprintf("after-edit%d", e+1)) {
					return
				}
			}
		}
		vf.Class("inherit:scenario-"+scenario, fmt.Sprintf("inherit:updates=%d", inherited))
		if changed {
			vf.Class("inherit:credentials-changed-after-or-at-update")
		}
		vf.Case(inherited >= 1 && changed && len(stales) > 0, strings.Join(hist, "|")+fmt.Sprint(now), func() interface{} {
			return map[string]interface{}{"check": "inherit", "history": hist, "stale_credentials_checked": len(stales)}
		})
	})
}
