//go:build go1.21

// Minimal standalone reproductions of the C06 known findings. Not part of any target's run
// regexp; run by hand, e.g.
//
//	cd /verif && bin/check C06 --build-only && cd build/C06 && mkdir -p r && cd r && \
//	  $(ls -t ../C06-*.test | head -1) -test.run 'TestVerifReproC06' -test.v
//
// Each test FAILS on the pinned tree and passes once the corresponding proposed fix
// (harness/C06/proposed_fixes/*.diff) is applied.
package validator

import (
	"os"
	"testing"
	"time"
)

// basic:colon-pw/valid-rejected and basic:colon-pw/invalid-accepted
func TestVerifReproC06BasicColon(t *testing.T) {
	users := []vfUser{{Name: "alice", Pass: "a:b", Scheme: "sha"}, {Name: "bob", Pass: "a", Scheme: "sha"}}
	file, err := vfWriteHtpasswd(users, nil)
	if err != nil {
		t.Fatal(err)
	}
	defer os.Remove(file)
	v, _, err := vfC06NewValidator(map[string]interface{}{"basicAuth": map[string]interface{}{"mode": "FILE", "userFile": file}})
	if err != nil {
		t.Fatal(err)
	}
	defer v.Close()
	r := vfC06Req{Method: "GET", Host: "example.com", Path: "/"}
	r.set("Authorization", vfBasicHeader("alice", "a:b"))
	if out := vfC06Serve(v, &r, 0); out.Result != "" {
		t.Errorf("alice with her configured password 'a:b' is rejected: %s", out)
	}
	r.set("Authorization", vfBasicHeader("bob", "a:anything"))
	if out := vfC06Serve(v, &r, 0); out.Result == "" {
		t.Errorf("bob (password 'a') is let in with the password 'a:anything'")
	}
}

// sig:signed-body/valid-rejected and sig:signed-body/invalid-accepted
func TestVerifReproC06SignedBody(t *testing.T) {
	c := vfSigCfg{Keys: []vfKey{{"AKID", "SECRET"}}, Lit: vfLitSets[0]}
	v, _, err := vfC06NewValidator(map[string]interface{}{"signature": c.spec()})
	if err != nil {
		t.Fatal(err)
	}
	defer v.Close()
	plan := vfSigPlan{KeyID: "AKID", Secret: "SECRET"}
	withBody := vfC06Req{Method: "POST", Host: "example.com", Path: "/orders", Body: []byte(`{"amount":1}`)}
	s, err := vfSignWithRepo(c, plan, withBody, time.Now())
	if err != nil {
		t.Fatal(err)
	}
	if out := vfC06Serve(v, &s.Req, 0); out.Result != "" {
		t.Errorf("a request signed by signer.Sign with a body is rejected when it arrives through the server: %s", out)
	}
	noBody := vfC06Req{Method: "POST", Host: "example.com", Path: "/orders"}
	s, err = vfSignWithRepo(c, plan, noBody, time.Now())
	if err != nil {
		t.Fatal(err)
	}
	tampered := s.Req.clone()
	tampered.Body = []byte(`{"amount":1000000}`)
	if out := vfC06Serve(v, &tampered, 0); out.Result == "" {
		t.Errorf("a request signed with an empty body is accepted after a body was added; forwarded payload %q", out.Payload)
	}
}
