//go:build go1.21

// C06 harness, part 2: generators (every choice is a rapid draw).
package validator

import (
	"encoding/hex"
	"encoding/json"
	"fmt"
	"strconv"
	"strings"
	"time"

	"pgregory.net/rapid"
)

var (
	vfMethods = []string{"GET", "HEAD", "POST", "PUT", "PATCH", "DELETE", "OPTIONS"}
	vfHosts   = []string{"example.com", "api.example.com:8080", "127.0.0.1", "127.0.0.1:10080", "[::1]:8443", "xn--bcher-kva.example"}
	vfSegs    = []string{"a", "api", "v1", "users", "%20", "a%20b", "%E4%B8%AD%E6%96%87", "~user", "a+b", "k=v", "x;y", "a,b",
		"%2F", "%25", "q%3Fz", "sp%C3%A9cial", "!$&'()*", "a:b@c", "UPPER", "%7Euser", "%e4%b8%ad", "bucket", "key-._~"}
	vfQKeys = []string{"a", "b", "Foo", "k%20ey", "q", "list", "%E4%B8%AD", "z-1", "A"}
	vfQVals = []string{"", "1", "2", "z", "o", "m", "a", "hello%20world", "a+b", "%2B", "%26%3D", "x%2Fy", "~t", "%E2%9C%93", "A", "Z", "10"}
	vfHNames = []string{"Content-Type", "Accept", "X-Request-Id", "X-Vf-A", "X-Vf-B", "X-Amz-Meta-K", "User-Agent", "X-Trace"}
	vfHVals  = []string{"application/json", "text/plain; charset=utf-8", "*/*", "abc", "a  b", "  padded  ", "x,y", "été", "",
		"some-value=!@#$%^&* (+)", "1", "a   b    c", " lead", "trail "}
)

type vfCarrierOpts struct {
	NoBody   bool
	MaxBody  int // 0: default
	NoHeader map[string]bool
}

func vfDrawBody(rt *rapid.T, max int) []byte {
	if max <= 0 {
		max = 65536
	}
	switch c := rapid.IntRange(0, 9).Draw(rt, "bodyClass"); {
	case c <= 3:
		return nil
	case c <= 6:
		return rapid.SliceOfN(rapid.Byte(), 1, 64).Draw(rt, "body")
	default:
		seed := rapid.SliceOfN(rapid.Byte(), 1, 24).Draw(rt, "bodySeed")
		hi := 4096
		if c == 9 {
			hi = 65536
		}
		if hi > max {
			hi = max
		}
		n := rapid.IntRange(65, hi).Draw(rt, "bodyLen")
		b := make([]byte, n)
		for i := range b {
			b[i] = seed[i%len(seed)] + byte(i/len(seed))
		}
		return b
	}
}

func vfDrawPath(rt *rapid.T) string {
	n := rapid.IntRange(0, 4).Draw(rt, "nseg")
	if n == 0 {
		if rapid.Bool().Draw(rt, "emptyPath") {
			return ""
		}
		return "/"
	}
	var b strings.Builder
	for i := 0; i < n; i++ {
		b.WriteString("/" + rapid.SampledFrom(vfSegs).Draw(rt, "seg"))
	}
	if rapid.IntRange(0, 5).Draw(rt, "trailingSlash") == 0 {
		b.WriteString("/")
	}
	return b.String()
}

func vfDrawQuery(rt *rapid.T) string {
	n := rapid.IntRange(0, 5).Draw(rt, "nq")
	var ps []string
	for i := 0; i < n; i++ {
		k := rapid.SampledFrom(vfQKeys).Draw(rt, "qk")
		v := rapid.SampledFrom(vfQVals).Draw(rt, "qv")
		if v == "" && rapid.Bool().Draw(rt, "bareKey") {
			ps = append(ps, k)
		} else {
			ps = append(ps, k+"="+v)
		}
	}
	return strings.Join(ps, "&")
}

// vfGenCarrier draws a plain request (no credentials yet).
func vfGenCarrier(rt *rapid.T, o vfCarrierOpts) vfC06Req {
	r := vfC06Req{
		Method: rapid.SampledFrom(vfMethods).Draw(rt, "method"),
		Host:   rapid.SampledFrom(vfHosts).Draw(rt, "host"),
		Path:   vfDrawPath(rt),
	}
	r.RawQuery = vfDrawQuery(rt)
	nh := rapid.IntRange(0, 5).Draw(rt, "nh")
	for i := 0; i < nh; i++ {
		k := rapid.SampledFrom(vfHNames).Draw(rt, "hk")
		if o.NoHeader[k] {
			continue
		}
		r.add(k, rapid.SampledFrom(vfHVals).Draw(rt, "hv"))
	}
	if !o.NoBody {
		r.Body = vfDrawBody(rt, o.MaxBody)
	}
	if rapid.IntRange(0, 3).Draw(rt, "chunked") == 0 {
		r.Chunk = rapid.SampledFrom([]int{1, 7, 64, 1000, 70000}).Draw(rt, "chunk")
	}
	r.CL0 = rapid.Bool().Draw(rt, "cl0")
	return r
}

func vfPathNeedsEscaping(p string) bool {
	for i := 0; i < len(p); i++ {
		c := p[i]
		if !(c >= 'A' && c <= 'Z' || c >= 'a' && c <= 'z' || c >= '0' && c <= '9' || c == '/' || c == '-' || c == '_' || c == '.' || c == '~') {
			return true
		}
	}
	return false
}

func vfQueryMultiValued(raw string) bool {
	seen := map[string]bool{}
	for _, p := range vfParseQuery(raw) {
		if seen[p.K] {
			return true
		}
		seen[p.K] = true
	}
	return false
}

// vfDrawLimit: the body limit handed to FetchPayload (0 = server default 4 MiB, or a positive one
// above every generated body); negative (stream mode) is outside the statement's quantifier.
func vfDrawLimit(rt *rapid.T) int64 {
	return rapid.SampledFrom([]int64{0, 0, 1 << 20, 70000}).Draw(rt, "limit")
}

// ---------------------------------------------------------------- JWT

type vfJWTCfg struct {
	Alg    string
	Secret []byte
	HexUp  bool
	Cookie string
	OAuth2 bool // configure the token under oauth2.jwt instead of jwt
}

func (c vfJWTCfg) hexSecret() string {
	s := hex.EncodeToString(c.Secret)
	if c.HexUp {
		s = strings.ToUpper(s)
	}
	return s
}

func (c vfJWTCfg) spec() map[string]interface{} {
	if c.OAuth2 {
		return map[string]interface{}{"oauth2": map[string]interface{}{"jwt": map[string]interface{}{"algorithm": c.Alg, "secret": c.hexSecret()}}}
	}
	m := map[string]interface{}{"algorithm": c.Alg, "secret": c.hexSecret()}
	if c.Cookie != "" {
		m["cookieName"] = c.Cookie
	}
	return map[string]interface{}{"jwt": m}
}

var vfAlgs = []string{"HS256", "HS384", "HS512"}

func vfGenJWTCfg(rt *rapid.T, allowOAuth2 bool) vfJWTCfg {
	c := vfJWTCfg{Alg: rapid.SampledFrom(vfAlgs).Draw(rt, "alg")}
	c.Secret = rapid.SliceOfN(rapid.Byte(), 1, 40).Draw(rt, "secret")
	c.HexUp = rapid.Bool().Draw(rt, "hexUpper")
	if allowOAuth2 && rapid.IntRange(0, 4).Draw(rt, "oauth2") == 0 {
		c.OAuth2 = true
		return c
	}
	if rapid.IntRange(0, 1).Draw(rt, "useCookie") == 1 {
		c.Cookie = rapid.SampledFrom([]string{"auth", "jwt", "Token"}).Draw(rt, "cookieName")
	}
	return c
}

// vfTok is a token to be issued by the harness.
type vfTok struct {
	HdrAlg  string // alg written into the header
	SignAlg string // algorithm actually used ("none": no signature)
	Secret  []byte
	Typ     bool
	Claims  map[string]interface{}
}

func (t vfTok) clone() vfTok {
	c := t
	c.Secret = append([]byte(nil), t.Secret...)
	c.Claims = map[string]interface{}{}
	for k, v := range t.Claims {
		c.Claims[k] = v
	}
	return c
}

func (t vfTok) String() string {
	hdr := map[string]interface{}{"alg": t.HdrAlg}
	if t.Typ {
		hdr["typ"] = "JWT"
	}
	hb, _ := json.Marshal(hdr)
	pb, _ := json.Marshal(t.Claims)
	return vfJWTIssue(t.SignAlg, t.Secret, hb, pb)
}

func vfOtherAlg(rt *rapid.T, alg string) string {
	var o []string
	for _, a := range vfAlgs {
		if a != alg {
			o = append(o, a)
		}
	}
	return rapid.SampledFrom(o).Draw(rt, "otherAlg")
}

// vfGenValidTok draws a token that the statement accepts at time now.
func vfGenValidTok(rt *rapid.T, c vfJWTCfg, now int64) vfTok {
	t := vfTok{HdrAlg: c.Alg, SignAlg: c.Alg, Secret: c.Secret, Typ: rapid.Bool().Draw(rt, "typ"), Claims: map[string]interface{}{}}
	if rapid.Bool().Draw(rt, "sub") {
		t.Claims["sub"] = rapid.SampledFrom([]string{"1234567890", "alice", "üser-中", "a:b"}).Draw(rt, "subv")
	}
	if rapid.Bool().Draw(rt, "scope") {
		t.Claims["scope"] = "read write"
	}
	// exp strictly after now (now+0.5 counts), nbf at or before now, iat in the past; each written
	// as an integer, fractional or exponent-form JSON number (RFC 7519 NumericDate)
	switch d := rapid.SampledFrom([]int64{-1, 0, 1, 2, 60, 86400 * 365}).Draw(rt, "expIn"); {
	case d == 0:
		t.Claims["exp"] = vfTimeLit(rt, now, "frac", "exp") // now + fraction
	case d > 0:
		t.Claims["exp"] = vfTimeLit(rt, now+d, "any", "exp")
	}
	switch d := rapid.SampledFrom([]int64{-1, 0, 1, 2, 3600}).Draw(rt, "nbfAgo"); {
	case d == 0:
		t.Claims["nbf"] = vfTimeLit(rt, now, "whole", "nbf") // nbf == now is valid (RFC 7519: not before)
	case d > 0:
		t.Claims["nbf"] = vfTimeLit(rt, now-d, "any", "nbf") // at most now-1+0.999999
	}
	if rapid.IntRange(0, 2).Draw(rt, "iat") == 0 {
		t.Claims["iat"] = vfTimeLit(rt, now-rapid.SampledFrom([]int64{1, 5, 86400}).Draw(rt, "iatAgo"), "any", "iat")
	}
	return t
}

// vfTimeLit writes a NumericDate as literal JSON text: base as an integer, as base.0, in exponent
// form, or base plus a fraction in (0,1) in plain or exponent form. mode: "whole" (value == base),
// "frac" (value in (base, base+1)), "any". The issuer serialises exactly this text.
func vfTimeLit(rt *rapid.T, base int64, mode, label string) interface{} {
	d := strconv.FormatInt(base, 10)
	whole := []string{d, d, d + ".0", d + ".000000", d + "e0", d + "0e-1", d + "E+0"}
	if len(d) == 10 {
		whole = append(whole, d[:1]+"."+d[1:]+"e9", d[:1]+"."+d[1:]+"E+9", d[:2]+"."+d[2:]+"e+08")
	}
	frac := []string{d + ".5", d + ".000001", d + ".999999", d + "5e-1", d + ".25e0"}
	if len(d) == 10 {
		frac = append(frac, d[:1]+"."+d[1:]+"5e9", d[:1]+"."+d[1:]+"000001E9")
	}
	var opts []string
	switch mode {
	case "whole":
		opts = whole
	case "frac":
		opts = frac
	default:
		opts = append(append([]string(nil), whole...), frac...)
	}
	lit := rapid.SampledFrom(opts).Draw(rt, label+"Literal")
	if lit == d {
		return base
	}
	return json.RawMessage(lit)
}

// vfOddClaim: a value no NumericDate may have, or one at the edge of the number range
// (robustness class: never a panic, acceptance left open).
func vfOddClaim(rt *rapid.T, now int64) interface{} {
	return rapid.SampledFrom([]interface{}{
		json.RawMessage(`"123"`), json.RawMessage(`"` + strconv.FormatInt(now-100, 10) + `"`), json.RawMessage(`null`), json.RawMessage(`true`),
		json.RawMessage(`[]`), json.RawMessage(`{}`), json.RawMessage(`0`), json.RawMessage(`0.0`), json.RawMessage(`-1`), json.RawMessage(`1e30`),
		json.RawMessage(`1e-30`), json.RawMessage(`9223372036854775808`), json.RawMessage(`""`),
	}).Draw(rt, "oddClaim")
}

func vfOtherSecret(rt *rapid.T, s []byte) []byte {
	o := append([]byte(nil), s...)
	switch rapid.IntRange(0, 3).Draw(rt, "otherSecretKind") {
	case 0:
		i := rapid.IntRange(0, len(o)-1).Draw(rt, "secretByte")
		o[i] ^= byte(rapid.IntRange(1, 255).Draw(rt, "xor"))
	case 1:
		o = append(o, 0)
	case 2:
		o = []byte(hex.EncodeToString(s)) // the classic: hex text used as the key
	default:
		o = []byte("secret")
		if string(o) == string(s) {
			o = []byte("secret2")
		}
	}
	return o
}

const vfB64Alphabet = "ABCDEFGHIJKLMNOPQRSTUVWXYZabcdefghijklmnopqrstuvwxyz0123456789-_"

// vfFlipSeg replaces one character of one dot-separated segment with another base64url character.
func vfFlipSeg(rt *rapid.T, tok string, seg int) string {
	parts := strings.Split(tok, ".")
	if seg >= len(parts) || parts[seg] == "" {
		return tok + "A"
	}
	s := []byte(parts[seg])
	i := rapid.IntRange(0, len(s)-1).Draw(rt, "flipPos")
	if rapid.IntRange(0, 3).Draw(rt, "flipLast") == 0 {
		i = len(s) - 1
	}
	c := vfB64Alphabet[rapid.IntRange(0, 63).Draw(rt, "flipChar")]
	if c == s[i] {
		c = vfB64Alphabet[(strings.IndexByte(vfB64Alphabet, c)+1)%64]
	}
	s[i] = c
	parts[seg] = string(s)
	return strings.Join(parts, ".")
}

// vfPlaceToken puts the token where the configured source looks for it.
func vfPlaceToken(rt *rapid.T, r *vfC06Req, c vfJWTCfg, tok string, inCookie bool) {
	if inCookie {
		line := c.Cookie + "=" + tok
		switch rapid.IntRange(0, 2).Draw(rt, "cookieShape") {
		case 1:
			line = "sid=abc; " + line
		case 2:
			line = line + "; theme=dark"
		}
		r.set("Cookie", line)
		return
	}
	r.set("Authorization", "Bearer "+tok)
}

// ---------------------------------------------------------------- Basic

var (
	vfUserAlpha = []rune("abcxyzABC019-_.@é中")
	vfPassAlpha = []rune("abcxyzABC019 -_.@!$%{}éü中✓")
)

func vfDrawPass(rt *rapid.T, colon bool) string {
	p := rapid.StringOfN(rapid.RuneFrom(vfPassAlpha), 0, 12, -1).Draw(rt, "pass")
	if colon {
		q := rapid.StringOfN(rapid.RuneFrom(vfPassAlpha), 0, 6, -1).Draw(rt, "passTail")
		p = p + ":" + q
		if rapid.IntRange(0, 4).Draw(rt, "twoColons") == 0 {
			p += ":z"
		}
	}
	return p
}

func vfNonASCII(s string) bool {
	for i := 0; i < len(s); i++ {
		if s[i] >= 0x80 {
			return true
		}
	}
	return false
}

// vfOneIn is true for about one draw in n (rapid's integer generators are biased towards small
// values, so a uniform choice is taken from an explicit list).
func vfOneIn(rt *rapid.T, n int, label string) bool {
	if n <= 0 {
		return false // never
	}
	if n == 1 {
		return true
	}
	opts := make([]bool, n)
	opts[0] = true
	return rapid.SampledFrom(opts).Draw(rt, label)
}

// vfGenUsers draws 1-4 distinct users; about one password in colonOneIn contains ':'.
func vfGenUsers(rt *rapid.T, colonOneIn int) []vfUser {
	n := rapid.IntRange(1, 4).Draw(rt, "nusers")
	seen := map[string]bool{}
	var us []vfUser
	for len(us) < n {
		name := rapid.StringOfN(rapid.RuneFrom(vfUserAlpha), 1, 8, -1).Draw(rt, "user")
		if seen[name] {
			name = fmt.Sprintf("%s%d", name, len(us))
		}
		if seen[name] {
			continue
		}
		seen[name] = true
		u := vfUser{Name: name, Pass: vfDrawPass(rt, vfOneIn(rt, colonOneIn, "colon"))}
		u.Scheme = rapid.SampledFrom([]string{"bcrypt", "sha", "ssha", "plain", "sha", "ssha"}).Draw(rt, "scheme")
		if u.Scheme == "plain" && !vfPlainOK(u.Pass) {
			u.Scheme = "sha"
		}
		us = append(us, u)
	}
	return us
}

// ---------------------------------------------------------------- header rules

var (
	vfRuleNames  = []string{"Is-Valid", "X-Plan", "x-tenant"}
	vfRuleValues = []string{"abc", "goodplan", "", "ok-1", "42"}
	vfRuleRegexp = []string{"", "^ok-.+$", "^[0-9]+$", "plan", "^$"}
	vfRuleSent   = []string{"abc", "goodplan", "", "ok-1", "ok-", "42", "4x2", "Invalid", "my plan b", "ABC"}
)

func vfGenRules(rt *rapid.T) []vfHdrRule {
	n := rapid.IntRange(1, 3).Draw(rt, "nrules")
	var rules []vfHdrRule
	used := map[string]bool{}
	for i := 0; i < n; i++ {
		name := rapid.SampledFrom(vfRuleNames).Draw(rt, "ruleName")
		if used[name] {
			continue
		}
		used[name] = true
		r := vfHdrRule{Name: name, Regexp: rapid.SampledFrom(vfRuleRegexp).Draw(rt, "ruleRe")}
		nv := rapid.IntRange(0, 3).Draw(rt, "nvals")
		seen := map[string]bool{}
		for j := 0; j < nv; j++ {
			v := rapid.SampledFrom(vfRuleValues).Draw(rt, "ruleVal")
			if !seen[v] {
				seen[v] = true
				r.Values = append(r.Values, v)
			}
		}
		if len(r.Values) == 0 && r.Regexp == "" {
			r.Values = []string{"abc"}
		}
		rules = append(rules, r)
	}
	return rules
}

func vfRulesSpec(rules []vfHdrRule) map[string]interface{} {
	m := map[string]interface{}{}
	for _, r := range rules {
		e := map[string]interface{}{}
		if len(r.Values) > 0 {
			e["values"] = r.Values
		}
		if r.Regexp != "" {
			e["regexp"] = r.Regexp
		}
		m[r.Name] = e
	}
	return m
}

// vfSatisfyRules adds, for each rule, a header that passes it (when one can be found in the alphabet).
func vfSatisfyRules(rt *rapid.T, r *vfC06Req, rules []vfHdrRule) {
	for _, rule := range rules {
		var good []string
		for _, s := range vfRuleSent {
			probe := vfC06Req{Hdr: []vfH{{rule.Name, s}}}
			if vfHeaderVerdict(&probe, []vfHdrRule{rule}) == vfAccept {
				good = append(good, s)
			}
		}
		if len(good) == 0 {
			continue
		}
		name := rule.Name
		if rapid.Bool().Draw(rt, "ruleHdrCanon") {
			name = vfCanon(name)
		}
		r.del(name)
		r.add(name, rapid.SampledFrom(good).Draw(rt, "ruleGood"))
	}
}

// ---------------------------------------------------------------- signature

var (
	vfKeyIDs  = []string{"AKID", "key-1", "k2", "Vf_Key3", "0"}
	vfSecrets = []string{"SECRET", "s3cr3t/with+chars=", "päss 中文", " lead and trail ", "x", "0123456789abcdef0123456789abcdef", "a:b,c d"}
	vfScopes  = []string{"us-east-1", "dynamodb", "s3", "eu", "svc-1", "x"}
	vfTTLs    = []time.Duration{0, 0, 2 * time.Minute, 5 * time.Minute, 15 * time.Minute, time.Hour, 24 * time.Hour}
)

func vfGenSigCfg(rt *rapid.T) vfSigCfg {
	c := vfSigCfg{Lit: rapid.SampledFrom(vfLitSets).Draw(rt, "literal"), TTL: rapid.SampledFrom(vfTTLs).Draw(rt, "ttl")}
	c.ExcludeBody = rapid.IntRange(0, 3).Draw(rt, "excludeBody") == 0
	n := rapid.IntRange(1, 3).Draw(rt, "nkeys")
	ids := rapid.Permutation(vfKeyIDs).Draw(rt, "keyIDs")
	secs := rapid.Permutation(vfSecrets).Draw(rt, "secrets")
	for i := 0; i < n; i++ {
		c.Keys = append(c.Keys, vfKey{ids[i], secs[i]})
	}
	return c
}

// vfGenSigPlan draws what the client does. kind: valid | unknown-key | wrong-secret | stale | future | future-beyond-ttl.
func vfGenSigPlan(rt *rapid.T, c vfSigCfg, kind string, presign bool) (vfSigPlan, string) {
	k := c.Keys[rapid.IntRange(0, len(c.Keys)-1).Draw(rt, "keyIdx")]
	p := vfSigPlan{KeyID: k.ID, Secret: k.Secret, Presign: presign}
	ns := rapid.IntRange(0, 3).Draw(rt, "nscopes")
	for i := 0; i < ns; i++ {
		p.Scopes = append(p.Scopes, rapid.SampledFrom(vfScopes).Draw(rt, "scope"))
	}
	if presign {
		p.Expire = rapid.SampledFrom([]time.Duration{2 * time.Minute, 5 * time.Minute, time.Hour}).Draw(rt, "expire")
	}
	for _, h := range []string{"X-Vf-B", "Accept", "X-Trace"} {
		if rapid.IntRange(0, 3).Draw(rt, "ignore"+h) == 0 {
			p.Ignored = append(p.Ignored, h)
		}
	}
	// the longest age that is still valid, with a 60 s margin for a busy machine (Verify reads the
	// wall clock; the case itself takes milliseconds)
	const margin = 60 * time.Second
	bound := time.Duration(-1)
	if c.TTL > 0 {
		bound = c.TTL - margin
	}
	if presign && (bound < 0 || p.Expire-margin < bound) {
		bound = p.Expire - margin
	}
	fresh := func() time.Duration {
		if bound < 0 {
			return rapid.SampledFrom([]time.Duration{0, time.Hour, 9000 * time.Hour}).Draw(rt, "ageNoTTL")
		}
		return rapid.SampledFrom([]time.Duration{0, bound / 2, bound}).Draw(rt, "ageFresh")
	}
	switch kind {
	case "unknown-key":
		p.KeyID = "nobody"
		p.Secret = "nobody's own secret" // not the secret of any configured key
		p.Age = fresh()
	case "empty-key-id":
		// no key id at all; signed with the empty secret or some secret that no configured key has
		// (never a configured one: rewriting the id would then yield a genuinely valid request)
		p.KeyID = ""
		p.Secret = rapid.SampledFrom([]string{"", "", "nobody's own secret"}).Draw(rt, "emptyIdSecret")
		p.Age = fresh()
	case "wrong-secret":
		p.Secret = k.Secret + "x"
		p.Age = fresh()
	case "stale":
		if bound < 0 {
			kind = "wrong-secret"
			p.Secret = k.Secret + "x"
			p.Age = fresh()
			break
		}
		limit := bound + margin
		p.Age = limit + rapid.SampledFrom([]time.Duration{5 * time.Second, time.Hour, 100 * time.Hour}).Draw(rt, "staleBy")
	case "future-beyond-ttl":
		// post-dated by more than the TTL: outside the TTL (with TTL 0 there is no such thing)
		if c.TTL == 0 {
			kind = "future"
			p.Age = -rapid.SampledFrom([]time.Duration{20 * time.Second, time.Hour, 100 * time.Hour}).Draw(rt, "futureBy")
			break
		}
		p.Age = -(c.TTL + vfFutureMargin + rapid.SampledFrom([]time.Duration{0, time.Hour, 100 * time.Hour, 9000 * time.Hour}).Draw(rt, "beyondTTLBy"))
	case "future":
		p.Age = -rapid.SampledFrom([]time.Duration{20 * time.Second, time.Hour, 100 * time.Hour}).Draw(rt, "futureBy")
		if c.TTL > 0 && -p.Age >= c.TTL {
			p.Age = -c.TTL / 2 // keep this class inside the TTL (left open); beyond it has its own class
		}
	default:
		kind = "valid"
		p.Age = fresh()
	}
	return p, kind
}
