//go:build go1.21

// C06 harness, part 1: request model, wire serialisation, the production wrapping of a request
// (http.ReadRequest -> ByteCountReader -> httpprot.NewRequest -> FetchPayload, as
// muxInstance.serveHTTP does), the independent oracles (JWT issuer/verifier written with
// crypto/hmac, Basic credentials, header rules, covered-part diff for signatures, an own
// SigV4-style signer) and the comparison of the real Validator's outcome with the oracle.
package validator

import (
	"bufio"
	"bytes"
	"crypto/hmac"
	"crypto/sha1"
	"crypto/sha256"
	"crypto/sha512"
	"encoding/base64"
	"encoding/hex"
	"encoding/json"
	"fmt"
	"hash"
	"math/big"
	"net/http"
	"net/textproto"
	"os"
	"regexp"
	"sort"
	"strconv"
	"strings"
	"sync"
	"sync/atomic"
	"time"

	"golang.org/x/crypto/bcrypt"
	yaml "gopkg.in/yaml.v2"

	"github.com/megaease/easegress/pkg/context"
	"github.com/megaease/easegress/pkg/filters"
	"github.com/megaease/easegress/pkg/logger"
	"github.com/megaease/easegress/pkg/protocols/httpprot"
	"github.com/megaease/easegress/pkg/util/readers"
	"github.com/megaease/easegress/pkg/cluster"
	"github.com/megaease/easegress/pkg/cluster/clustertest"
	"github.com/megaease/easegress/pkg/supervisor"
	"github.com/megaease/easegress/pkg/util/signer"
)

func init() { logger.InitNop() }

// ---------------------------------------------------------------- verdicts

type vfVerdict int

const (
	vfAccept vfVerdict = iota
	vfReject
	vfEither // statement and docs are silent: any outcome is fine
)

func (v vfVerdict) String() string {
	return [...]string{"accept", "reject", "either"}[v]
}

// vfAnd: every configured method must accept.
func vfAnd(vs ...vfVerdict) vfVerdict {
	out := vfAccept
	for _, v := range vs {
		if v == vfReject {
			return vfReject
		}
		if v == vfEither {
			out = vfEither
		}
	}
	return out
}

// ---------------------------------------------------------------- request model

type vfH struct{ K, V string }

// vfC06Req is a request as it is put on the wire by a client.
type vfC06Req struct {
	Method   string
	Host     string
	Path     string // escaped, as in the request line
	RawQuery string
	Hdr      []vfH // wire order; no Host / Content-Length / Transfer-Encoding
	Body     []byte
	Chunk    int  // 0: Content-Length framing; >0: chunked with this chunk size
	CL0      bool // explicit "Content-Length: 0" when the body is empty
}

func (r vfC06Req) clone() vfC06Req {
	c := r
	c.Hdr = append([]vfH(nil), r.Hdr...)
	c.Body = append([]byte(nil), r.Body...)
	return c
}

func vfCanon(k string) string { return textproto.CanonicalMIMEHeaderKey(k) }

// all returns the field values of that header as they arrive: optional whitespace around a
// field value is not part of it (RFC 7230 3.2.4), every HTTP server strips it.
func (r *vfC06Req) all(name string) []string {
	var out []string
	for _, h := range r.Hdr {
		if vfCanon(h.K) == vfCanon(name) {
			out = append(out, strings.Trim(h.V, " \t"))
		}
	}
	return out
}

func (r *vfC06Req) get(name string) (string, bool) {
	a := r.all(name)
	if len(a) == 0 {
		return "", false
	}
	return a[0], true
}

func (r *vfC06Req) del(name string) {
	out := r.Hdr[:0:0]
	for _, h := range r.Hdr {
		if vfCanon(h.K) != vfCanon(name) {
			out = append(out, h)
		}
	}
	r.Hdr = out
}

// set replaces the first header of that name (dropping the others) or appends one.
func (r *vfC06Req) set(name, v string) {
	done := false
	out := r.Hdr[:0:0]
	for _, h := range r.Hdr {
		if vfCanon(h.K) == vfCanon(name) {
			if !done {
				out = append(out, vfH{h.K, v})
				done = true
			}
			continue
		}
		out = append(out, h)
	}
	if !done {
		out = append(out, vfH{name, v})
	}
	r.Hdr = out
}

func (r *vfC06Req) add(name, v string) { r.Hdr = append(r.Hdr, vfH{name, v}) }

func (r *vfC06Req) target() string {
	t := r.Path
	if t == "" {
		t = "/"
	}
	if r.RawQuery != "" {
		t += "?" + r.RawQuery
	}
	return t
}

func (r *vfC06Req) wire() []byte {
	var b bytes.Buffer
	fmt.Fprintf(&b, "%s %s HTTP/1.1\r\nHost: %s\r\n", r.Method, r.target(), r.Host)
	for _, h := range r.Hdr {
		fmt.Fprintf(&b, "%s: %s\r\n", h.K, h.V)
	}
	switch {
	case len(r.Body) == 0 && r.Chunk > 0:
		b.WriteString("Transfer-Encoding: chunked\r\n\r\n0\r\n\r\n")
	case len(r.Body) == 0:
		if r.CL0 {
			b.WriteString("Content-Length: 0\r\n")
		}
		b.WriteString("\r\n")
	case r.Chunk > 0:
		b.WriteString("Transfer-Encoding: chunked\r\n\r\n")
		for i := 0; i < len(r.Body); i += r.Chunk {
			j := i + r.Chunk
			if j > len(r.Body) {
				j = len(r.Body)
			}
			fmt.Fprintf(&b, "%x\r\n", j-i)
			b.Write(r.Body[i:j])
			b.WriteString("\r\n")
		}
		b.WriteString("0\r\n\r\n")
	default:
		fmt.Fprintf(&b, "Content-Length: %d\r\n\r\n", len(r.Body))
		b.Write(r.Body)
	}
	return b.Bytes()
}

func (r *vfC06Req) String() string {
	var b strings.Builder
	fmt.Fprintf(&b, "%s %s host=%q", r.Method, r.target(), r.Host)
	for _, h := range r.Hdr {
		fmt.Fprintf(&b, " | %s: %q", h.K, h.V)
	}
	body := r.Body
	more := ""
	if len(body) > 48 {
		more = fmt.Sprintf("...(%d bytes, sha256 %x)", len(body), sha256.Sum256(body))
		body = body[:48]
	}
	fmt.Fprintf(&b, " | body=%q%s chunk=%d", body, more, r.Chunk)
	return b.String()
}

// ---------------------------------------------------------------- production wrapping

type vfC06Out struct {
	Result  string
	Status  int
	HasResp bool
	Panic   bool
	PText   string
	Site    string
	Payload []byte
	Err     string // harness-side problem (request did not parse / payload not fetched)
}

func (o vfC06Out) String() string {
	if o.Panic {
		return fmt.Sprintf("PANIC %s at %s", o.PText, o.Site)
	}
	if o.Err != "" {
		return "harness error: " + o.Err
	}
	if o.HasResp {
		return fmt.Sprintf("result=%q status=%d", o.Result, o.Status)
	}
	return fmt.Sprintf("result=%q (no response)", o.Result)
}

// vfC06Serve hands the wire bytes to the Validator the way muxInstance.serveHTTP does.
func vfC06Serve(v *Validator, r *vfC06Req, limit int64) vfC06Out {
	return vfC06ServePre(v, r, limit, 0)
}

// vfC06ServePre: pre != 0 puts a response with that status (and a body) into the context before
// the Validator runs, as an earlier filter of the same pipeline (Proxy, ResponseBuilder,
// RemoteFilter ...) does.
func vfC06ServePre(v *Validator, r *vfC06Req, limit int64, pre int) vfC06Out {
	var out vfC06Out
	stdr, err := http.ReadRequest(bufio.NewReader(bytes.NewReader(r.wire())))
	if err != nil {
		out.Err = "http.ReadRequest: " + err.Error()
		return out
	}
	stdr.RemoteAddr = "192.0.2.7:40123"
	body := readers.NewByteCountReader(stdr.Body)
	stdr.Body = body
	ctx := context.New(nil)
	req, _ := httpprot.NewRequest(stdr)
	ctx.SetRequest(context.DefaultNamespace, req)
	if err := req.FetchPayload(limit); err != nil {
		out.Err = "FetchPayload: " + err.Error()
		return out
	}
	if pre != 0 {
		earlier, _ := httpprot.NewResponse(nil)
		earlier.SetStatusCode(pre)
		earlier.SetPayload([]byte("response of an earlier filter"))
		ctx.SetOutputResponse(earlier)
	}
	out.Panic, out.PText, out.Site = vfRecover(func() { out.Result = v.Handle(ctx) })
	if out.Panic {
		return out
	}
	if resp := ctx.GetOutputResponse(); resp != nil {
		if hr, ok := resp.(*httpprot.Response); ok {
			out.HasResp = true
			out.Status = hr.StatusCode()
		}
	}
	out.Payload = append([]byte(nil), req.RawPayload()...)
	return out
}

// vfC06NewValidator pushes a generated spec through YAML and filters.NewSpec (the admin API's
// acceptance path) and initialises the filter.
func vfC06NewValidator(spec map[string]interface{}) (*Validator, string, error) {
	return vfC06NewValidatorSuper(spec, nil)
}

// vfC06NewValidatorSuper: the same with a supervisor (basicAuth mode ETCD reads the cluster).
func vfC06NewValidatorSuper(spec map[string]interface{}, super *supervisor.Supervisor) (*Validator, string, error) {
	spec["kind"] = Kind
	spec["name"] = "vf-validator"
	yb, err := yaml.Marshal(spec)
	if err != nil {
		return nil, "", err
	}
	raw := map[string]interface{}{}
	if err := yaml.Unmarshal(yb, &raw); err != nil {
		return nil, string(yb), err
	}
	s, err := filters.NewSpec(super, "", raw)
	if err != nil {
		return nil, string(yb), err
	}
	v := &Validator{spec: s.(*Spec)}
	v.Init()
	return v, string(yb), nil
}

// vfC06NextGeneration does what Pipeline.Inherit does with a filter of the same name and kind on
// a pipeline update: a new instance from the new spec inherits the previous generation, then the
// previous generation is closed.
func vfC06NextGeneration(spec map[string]interface{}, prev *Validator) (*Validator, string, error) {
	spec["kind"] = Kind
	spec["name"] = "vf-validator"
	yb, err := yaml.Marshal(spec)
	if err != nil {
		return nil, "", err
	}
	raw := map[string]interface{}{}
	if err := yaml.Unmarshal(yb, &raw); err != nil {
		return nil, string(yb), err
	}
	s, err := filters.NewSpec(nil, "", raw)
	if err != nil {
		return nil, string(yb), err
	}
	v := &Validator{spec: s.(*Spec)}
	v.Inherit(prev)
	prev.Close()
	return v, string(yb), nil
}

// ---------------------------------------------------------------- variants and comparison

// vfVariant is one request to evaluate, with what the oracle wants.
type vfVariant struct {
	Label   string    // coarse, stable: names the class (becomes part of a violation key)
	Req     vfC06Req  // as sent
	Hdr     vfVerdict // header rules verdict (vfAccept when none configured)
	Cred    vfVerdict // conjunction of the credential methods
	Covered bool      // derived from an accepted request by changing only a covered part
	Pre     int       // != 0: status of a response an earlier filter left in the context
}

func (x *vfVariant) want() vfVerdict { return vfAnd(x.Hdr, x.Cred) }

// vfCompare runs one variant against the real filter. Returns true when the case must be
// abandoned (a known finding was hit).
func vfCompare(vf *vfCollector, rt vfFataler, v *Validator, x *vfVariant, limit int64, descr func() string) bool {
	out := vfC06ServePre(v, &x.Req, limit, x.Pre)
	if out.Err != "" {
		rt.Fatalf("VF-INCONCLUSIVE generator produced a request the server side does not take: %s\n%s\n%s", out.Err, x.Req.String(), descr())
		return true
	}
	want := x.want()
	full := func() string {
		pre := ""
		if x.Pre != 0 {
			pre = fmt.Sprintf("\ncontext already held a response with status %d (earlier filter) when the Validator ran", x.Pre)
		}
		return fmt.Sprintf("variant %s\nrequest: %s%s\noracle: headers=%s credentials=%s\ngot: %s\n%s", x.Label, x.Req.String(), pre, x.Hdr, x.Cred, out, descr())
	}
	if out.Panic {
		return vf.Violation(rt, fmt.Sprintf("%s/panic site=%s panic=%s", x.Label, out.Site, vfPanicClass(out.PText)), "%s", full())
	}
	accepted := out.Result == ""
	if out.Result != "" && out.Result != resultInvalid {
		return vf.Violation(rt, x.Label+"/unknown-result", "%s", full())
	}
	vf.Class("want="+want.String(), fmt.Sprintf("got-accepted=%v", accepted))
	switch {
	case want == vfAccept && !accepted:
		return vf.Violation(rt, x.Label+"/valid-rejected", "%s", full())
	case want == vfReject && accepted:
		return vf.Violation(rt, x.Label+"/invalid-accepted", "%s", full())
	}
	if accepted {
		if !bytes.Equal(out.Payload, x.Req.Body) {
			return vf.Violation(rt, x.Label+"/payload-differs-from-sent-body", "%s\npayload %q", full(), out.Payload)
		}
		return false
	}
	// rejected: result invalid and a 401/400 response; 400 belongs to the header rules
	if !out.HasResp {
		return vf.Violation(rt, x.Label+"/rejected-without-response", "%s", full())
	}
	okStatus := out.Status == 400 || out.Status == 401
	if okStatus && want == vfReject {
		if x.Hdr == vfAccept && out.Status != 401 {
			okStatus = false
		}
		if x.Hdr == vfReject && x.Cred == vfAccept && out.Status != 400 {
			okStatus = false
		}
	}
	if !okStatus {
		return vf.Violation(rt, x.Label+"/wrong-status", "%s", full())
	}
	return false
}

// ---------------------------------------------------------------- JWT: independent issuer and verifier

func vfHashFor(alg string) func() hash.Hash {
	switch alg {
	case "HS256":
		return sha256.New
	case "HS384":
		return sha512.New384
	case "HS512":
		return sha512.New
	}
	return nil
}

func vfB64U(b []byte) string { return base64.RawURLEncoding.EncodeToString(b) }

func vfB64UDecode(s string) ([]byte, error) {
	return base64.RawURLEncoding.DecodeString(strings.TrimRight(s, "="))
}

// vfJWTIssue signs header.payload with HMAC under alg (own implementation, no jwt library).
func vfJWTIssue(alg string, secret, headerJSON, payloadJSON []byte) string {
	si := vfB64U(headerJSON) + "." + vfB64U(payloadJSON)
	h := vfHashFor(alg)
	if h == nil {
		return si + "."
	}
	m := hmac.New(h, secret)
	m.Write([]byte(si))
	return si + "." + vfB64U(m.Sum(nil))
}

// vfJWTTokenVerdict: accepted <=> alg == configured, MAC valid under the configured secret,
// not expired, nbf passed (statement). exp == now and iat in the future are left open.
func vfJWTTokenVerdict(tok, alg string, secret []byte, now int64) (vfVerdict, string) {
	parts := strings.Split(tok, ".")
	if len(parts) != 3 {
		return vfReject, "not three segments"
	}
	hb, err := vfB64UDecode(parts[0])
	if err != nil {
		return vfReject, "header not base64url"
	}
	var hdr map[string]interface{}
	if json.Unmarshal(hb, &hdr) != nil {
		return vfReject, "header not JSON"
	}
	if a, ok := hdr["alg"].(string); !ok || a != alg {
		return vfReject, "alg differs from the configured one"
	}
	m := hmac.New(vfHashFor(alg), secret)
	m.Write([]byte(parts[0] + "." + parts[1]))
	mac := m.Sum(nil)
	sb, err := vfB64UDecode(parts[2])
	if err != nil || !hmac.Equal(sb, mac) {
		return vfReject, "MAC invalid"
	}
	pb, err := vfB64UDecode(parts[1])
	if err != nil {
		return vfReject, "payload not base64url"
	}
	var claims map[string]interface{}
	dec := json.NewDecoder(bytes.NewReader(pb))
	dec.UseNumber()
	if dec.Decode(&claims) != nil {
		return vfReject, "payload not a JSON object"
	}
	res := vfAccept
	// Time claims are RFC 7519 NumericDates: JSON numbers that may be fractional or written with an
	// exponent. They are compared exactly (as rationals) with the clock, which stands at now.0:
	//   exp: valid while now < exp. exp <= now-1 is expired; now-1 < exp < now is expired by less than
	//        a second (implementations work in whole seconds and the RFC allows a small leeway): open;
	//        exp == now: open.
	//   nbf: valid when nbf <= now. nbf >= now+1 is not yet valid; now < nbf < now+1: open.
	//   iat in the future: open. Claims that are not JSON numbers (string, null, ...), are zero or
	//   negative / below 1 (golang-jwt reads 0 whole seconds as "not set") or beyond 2^53: open.
	nowR := new(big.Rat).SetInt64(now)
	one := new(big.Rat).SetInt64(1)
	num := func(k string) (r *big.Rat, present, usable bool) {
		c, ok := claims[k]
		if !ok {
			return nil, false, false
		}
		n, ok := c.(json.Number)
		if !ok {
			return nil, true, false
		}
		r, ok = new(big.Rat).SetString(string(n))
		// below 1 means zero in whole seconds, which golang-jwt reads as "claim not set"
		if !ok || r.Cmp(one) < 0 || r.Cmp(new(big.Rat).SetInt64(1<<53)) > 0 {
			return nil, true, false
		}
		return r, true, true
	}
	if exp, present, usable := num("exp"); present {
		switch {
		case !usable:
			res = vfEither
		case exp.Cmp(nowR) > 0:
			// valid
		case exp.Cmp(new(big.Rat).Sub(nowR, one)) <= 0:
			return vfReject, "expired"
		default:
			res = vfEither // exp == now, or expired by less than a second
		}
	}
	if nbf, present, usable := num("nbf"); present {
		switch {
		case !usable:
			res = vfEither
		case nbf.Cmp(nowR) <= 0:
			// valid
		case nbf.Cmp(new(big.Rat).Add(nowR, one)) >= 0:
			return vfReject, "not yet valid"
		default:
			res = vfEither // valid in less than a second
		}
	}
	if iat, present, usable := num("iat"); present && (!usable || iat.Cmp(nowR) > 0) {
		res = vfEither
	}
	if vfB64U(sb) != parts[2] || vfB64U(hb) != parts[0] || vfB64U(pb) != parts[1] {
		res = vfEither // non-canonical base64url spelling of the same bytes
	}
	return res, "ok"
}

// vfCookie finds the first cookie of that name in the request's Cookie header(s).
func vfCookie(r *vfC06Req, name string) (string, bool) {
	for _, line := range r.all("Cookie") {
		for _, p := range strings.Split(line, ";") {
			p = strings.TrimSpace(p)
			i := strings.IndexByte(p, '=')
			if i < 0 {
				continue
			}
			if p[:i] == name {
				return p[i+1:], true
			}
		}
	}
	return "", false
}

// vfJWTVerdict: token source per the docs (cookie when configured and present, else the
// Authorization header with the Bearer scheme), then the token verdict.
func vfJWTVerdict(r *vfC06Req, alg string, secret []byte, cookieName string, now int64) vfVerdict {
	if cookieName != "" {
		if c, ok := vfCookie(r, cookieName); ok {
			if c == "" {
				return vfEither // docs: cookie exists -> used; code comment: non-empty only
			}
			v, _ := vfJWTTokenVerdict(c, alg, secret, now)
			return v
		}
	}
	a, ok := r.get("Authorization")
	if !ok {
		return vfReject
	}
	if !strings.HasPrefix(a, "Bearer ") {
		if len(a) >= 7 && strings.EqualFold(a[:7], "Bearer ") {
			if v, _ := vfJWTTokenVerdict(a[7:], alg, secret, now); v != vfReject {
				return vfEither // scheme spelled in another case
			}
		}
		return vfReject
	}
	v, _ := vfJWTTokenVerdict(a[7:], alg, secret, now)
	return v
}

// ---------------------------------------------------------------- Basic: htpasswd file and oracle

type vfUser struct {
	Name, Pass string
	Scheme     string // bcrypt | sha | ssha | plain
}

var vfFileSeq int64

func vfHtpasswdLine(u vfUser, salt []byte) (string, error) {
	switch u.Scheme {
	case "bcrypt":
		h, err := bcrypt.GenerateFromPassword([]byte(u.Pass), bcrypt.MinCost)
		return u.Name + ":" + string(h), err
	case "sha":
		s := sha1.Sum([]byte(u.Pass))
		return u.Name + ":{SHA}" + base64.StdEncoding.EncodeToString(s[:]), nil
	case "ssha":
		s := sha1.Sum(append([]byte(u.Pass), salt...))
		return u.Name + ":{SSHA}" + base64.StdEncoding.EncodeToString(append(s[:], salt...)), nil
	default:
		return u.Name + ":" + u.Pass, nil
	}
}

// vfPlainOK: the plain htpasswd form can represent this password unambiguously.
func vfPlainOK(p string) bool {
	if p == "" || strings.TrimSpace(p) != p {
		return false
	}
	return !strings.HasPrefix(p, "$") && !strings.HasPrefix(p, "{")
}

func vfWriteHtpasswd(users []vfUser, salt []byte) (string, error) {
	var b strings.Builder
	for _, u := range users {
		l, err := vfHtpasswdLine(u, salt)
		if err != nil {
			return "", err
		}
		b.WriteString(l + "\n")
	}
	name := fmt.Sprintf("vfc06-htpasswd-%d-%d", os.Getpid(), atomic.AddInt64(&vfFileSeq, 1))
	return name, os.WriteFile(name, []byte(b.String()), 0o600)
}

// vfRewriteHtpasswd changes the user file in place (same inode, as an editor or `htpasswd` does).
func vfRewriteHtpasswd(name string, users []vfUser, salt []byte) error {
	var b strings.Builder
	for _, u := range users {
		l, err := vfHtpasswdLine(u, salt)
		if err != nil {
			return err
		}
		b.WriteString(l + "\n")
	}
	return os.WriteFile(name, []byte(b.String()), 0o600)
}

// vfEtcdEntry is one credential entry of basicAuth mode ETCD: stored under
// /custom-data/<prefix>/<StoreKey> as YAML with key / username / password. The Basic user name is
// `username`, and `key` only when username is empty (spec comment in basicauth.go).
type vfEtcdEntry struct {
	StoreKey string
	Key      string
	Username string
	User     vfUser // the configured user: effective name, clear password, encoding scheme
}

func (e vfEtcdEntry) kind() string {
	switch {
	case e.Key != "" && e.Username != "":
		return "key+username"
	case e.Username != "":
		return "username-only"
	}
	return "key-only"
}

// vfEtcdKVs renders the entries as the cluster's key/value pairs under the prefix.
func vfEtcdKVs(prefix string, entries []vfEtcdEntry, salt []byte) (map[string]string, string, error) {
	kvs := map[string]string{}
	var dump strings.Builder
	for _, e := range entries {
		line, err := vfHtpasswdLine(vfUser{Name: "", Pass: e.User.Pass, Scheme: e.User.Scheme}, salt)
		if err != nil {
			return nil, "", err
		}
		m := map[string]interface{}{"password": strings.TrimPrefix(line, ":")}
		if e.Key != "" {
			m["key"] = e.Key
		}
		if e.Username != "" {
			m["username"] = e.Username
		}
		yb, err := yaml.Marshal(m)
		if err != nil {
			return nil, "", err
		}
		k := "/custom-data/" + prefix + e.StoreKey
		kvs[k] = string(yb)
		fmt.Fprintf(&dump, "%s => {key: %q, username: %q, password(clear): %q %s}\n", k, e.Key, e.Username, e.User.Pass, e.User.Scheme)
	}
	if len(entries) == 0 {
		dump.WriteString("(no entry under the prefix)\n")
	}
	return kvs, dump.String(), nil
}

// vfEtcdSupervisor builds a supervisor whose (mocked) cluster holds the entries. The returned
// channel is the syncer's: every value sent is the full state of the prefix after a change.
func vfEtcdSupervisor(prefix string, entries []vfEtcdEntry, salt []byte) (*supervisor.Supervisor, string, chan map[string]string, error) {
	kvs, dump, err := vfEtcdKVs(prefix, entries, salt)
	if err != nil {
		return nil, "", nil, err
	}
	cls := clustertest.NewMockedCluster()
	cls.MockedGetPrefix = func(string) (map[string]string, error) { return kvs, nil }
	syncer := clustertest.NewMockedSyncer()
	ch := make(chan map[string]string)
	syncer.MockedSyncPrefix = func(string) (<-chan map[string]string, error) { return ch, nil }
	cls.MockedSyncer = func(time.Duration) (cluster.Syncer, error) { return syncer, nil }
	var m sync.Map
	return supervisor.NewMock(nil, cls, m, m, nil, nil, false, nil, nil), dump, ch, nil
}

// vfBasicVerdict: accepted <=> (user, password) equals a configured pair exactly; the
// credentials are split at the first colon (RFC 7617).
func vfBasicVerdict(r *vfC06Req, users []vfUser) vfVerdict {
	a, ok := r.get("Authorization")
	if !ok {
		return vfReject
	}
	match := func(dec []byte) bool {
		i := bytes.IndexByte(dec, ':')
		if i < 0 {
			return false
		}
		for _, u := range users {
			if u.Name == string(dec[:i]) && u.Pass == string(dec[i+1:]) {
				return true
			}
		}
		return false
	}
	if !strings.HasPrefix(a, "Basic ") {
		if len(a) >= 6 && strings.EqualFold(a[:6], "Basic ") {
			if dec, err := base64.StdEncoding.DecodeString(a[6:]); err == nil && match(dec) {
				return vfEither
			}
		}
		return vfReject
	}
	dec, err := base64.StdEncoding.DecodeString(a[6:])
	if err != nil {
		if d2, e2 := base64.RawStdEncoding.DecodeString(a[6:]); e2 == nil && match(d2) {
			return vfEither // valid credentials, padding omitted
		}
		return vfReject
	}
	if !match(dec) {
		return vfReject
	}
	if base64.StdEncoding.EncodeToString(dec) != a[6:] {
		return vfEither // non-canonical base64 of valid credentials
	}
	return vfAccept
}

func vfBasicHeader(user, pass string) string {
	return "Basic " + base64.StdEncoding.EncodeToString([]byte(user+":"+pass))
}

// ---------------------------------------------------------------- header rules oracle

type vfHdrRule struct {
	Name   string
	Values []string
	Regexp string
}

// vfHeaderVerdict follows the docs: a rule passes when the header's value is one of `values`
// or matches `regexp`; every rule must pass. With several values of one header where some
// match and some do not, the docs do not say: either.
func vfHeaderVerdict(r *vfC06Req, rules []vfHdrRule) vfVerdict {
	out := vfAccept
	for _, rule := range rules {
		vals := r.all(rule.Name)
		if len(vals) == 0 {
			return vfReject
		}
		var re *regexp.Regexp
		if rule.Regexp != "" {
			re = regexp.MustCompile(rule.Regexp)
		}
		hit := 0
		for _, v := range vals {
			ok := false
			for _, w := range rule.Values {
				if v == w {
					ok = true
				}
			}
			if !ok && re != nil && re.MatchString(v) {
				ok = true
			}
			if ok {
				hit++
			}
		}
		switch {
		case hit == 0:
			return vfReject
		case hit < len(vals):
			out = vfEither
		}
	}
	return out
}

// ---------------------------------------------------------------- signature: configuration, client, covered-part diff

type vfLitSet struct {
	Name string
	Lit  *signer.Literal // nil: defaults
}

var vfLitSets = []vfLitSet{
	{"default", nil},
	{"aws", &signer.Literal{ScopeSuffix: "aws4_request", AlgorithmName: "X-Amz-Algorithm", AlgorithmValue: "AWS4-HMAC-SHA256",
		SignedHeaders: "X-Amz-SignedHeaders", Signature: "X-Amz-Signature", Date: "X-Amz-Date", Expires: "X-Amz-Expires",
		Credential: "X-Amz-Credential", ContentSHA256: "X-Amz-Content-Sha256", SigningKeyPrefix: "AWS4"}},
	{"custom", &signer.Literal{ScopeSuffix: "vf_request", AlgorithmName: "X-Vf-Algorithm", AlgorithmValue: "VF-HMAC-SHA256",
		SignedHeaders: "X-Vf-Signedheaders", Signature: "X-Vf-Signature", Date: "X-Vf-Date", Expires: "X-Vf-Expires",
		Credential: "X-Vf-Credential", ContentSHA256: "X-Vf-Content-Sha256", SigningKeyPrefix: ""}},
}

func (l vfLitSet) lit() *signer.Literal {
	if l.Lit != nil {
		return l.Lit
	}
	return &signer.Literal{ScopeSuffix: "megaease_request", AlgorithmName: "X-Me-Algorithm", AlgorithmValue: "ME-HMAC-SHA256",
		SignedHeaders: "X-Me-SignedHeaders", Signature: "X-Me-Signature", Date: "X-Me-Date", Expires: "X-Me-Expires",
		Credential: "X-Me-Credential", ContentSHA256: "X-Me-Content-Sha256", SigningKeyPrefix: "ME"}
}

type vfKey struct{ ID, Secret string }

type vfSigCfg struct {
	Keys        []vfKey
	Lit         vfLitSet
	TTL         time.Duration // 0: never expires
	ExcludeBody bool
}

func (c vfSigCfg) spec() map[string]interface{} {
	keys := map[string]interface{}{}
	for _, k := range c.Keys {
		keys[k.ID] = k.Secret
	}
	m := map[string]interface{}{"accessKeys": keys, "excludeBody": c.ExcludeBody}
	if c.TTL > 0 {
		m["ttl"] = c.TTL.String()
	}
	if l := c.Lit.Lit; l != nil {
		m["literal"] = map[string]interface{}{
			"scopeSuffix": l.ScopeSuffix, "algorithmName": l.AlgorithmName, "algorithmValue": l.AlgorithmValue,
			"signedHeaders": l.SignedHeaders, "signature": l.Signature, "date": l.Date, "expires": l.Expires,
			"credential": l.Credential, "contentSha256": l.ContentSHA256, "signingKeyPrefix": l.SigningKeyPrefix,
		}
	}
	return m
}

// vfSigPlan is what the client does.
type vfSigPlan struct {
	KeyID, Secret string
	Scopes        []string
	Age           time.Duration // sign time = now - Age
	Presign       bool
	Expire        time.Duration
	Ignored       []string // headers the client leaves out of the signature
}

// vfSigned is a request signed by the repo's own client-side signer, as sent by a Go client.
type vfSigned struct {
	Cfg     vfSigCfg
	Plan    vfSigPlan
	Req     vfC06Req
	Names   []string // signed header names (lower case), as listed in the request
	Verdict vfVerdict
}

// vfSignWithRepo signs r with signer.Sign / Presign (what Easegress clients use).
func vfSignWithRepo(cfg vfSigCfg, plan vfSigPlan, r vfC06Req, now time.Time) (*vfSigned, error) {
	u := "http://" + r.Host + r.Path
	if r.RawQuery != "" {
		u += "?" + r.RawQuery
	}
	var body *bytes.Reader
	if len(r.Body) > 0 {
		body = bytes.NewReader(r.Body)
	}
	var req *http.Request
	var err error
	if body != nil {
		req, err = http.NewRequest(r.Method, u, body)
	} else {
		req, err = http.NewRequest(r.Method, u, nil)
	}
	if err != nil {
		return nil, err
	}
	for _, h := range r.Hdr {
		req.Header.Add(h.K, h.V)
	}
	cs := &signer.Spec{Literal: cfg.Lit.Lit, IgnoredHeaders: plan.Ignored, ExcludeBody: cfg.ExcludeBody,
		AccessKeyID: plan.KeyID, AccessKeySecret: plan.Secret}
	sc := signer.CreateFromSpec(cs).NewContext(now.Add(-plan.Age), plan.Scopes...)
	if plan.Presign {
		err = sc.Presign(req, plan.Expire)
	} else {
		err = sc.Sign(req)
	}
	if err != nil {
		return nil, err
	}
	out := r.clone()
	out.Path = req.URL.EscapedPath()
	out.RawQuery = req.URL.RawQuery
	out.Host = req.Host
	// headers: original names in their original order with the (possibly updated) values,
	// then the names the signer added, sorted
	out.Hdr = nil
	seen := map[string]bool{}
	for _, h := range r.Hdr {
		k := vfCanon(h.K)
		if seen[k] {
			continue
		}
		seen[k] = true
		for _, v := range req.Header[k] {
			out.Hdr = append(out.Hdr, vfH{h.K, v})
		}
	}
	var added []string
	for k := range req.Header {
		if !seen[k] {
			added = append(added, k)
		}
	}
	sort.Strings(added)
	for _, k := range added {
		for _, v := range req.Header[k] {
			out.Hdr = append(out.Hdr, vfH{k, v})
		}
	}
	return &vfSigned{Cfg: cfg, Plan: plan, Req: out, Names: strings.Split(sc.SignedHeaders, ";")}, nil
}

// vfFutureMargin: Verify reads the wall clock after the request was signed, so a date that is
// TTL+margin ahead at signing time is still more than TTL ahead when verified (a case takes ms).
const vfFutureMargin = 60 * time.Second

// vfPlanVerdict: a signature from a known access key (with its secret), within its TTL.
func vfPlanVerdict(cfg vfSigCfg, p vfSigPlan) vfVerdict {
	known := false
	for _, k := range cfg.Keys {
		if k.ID == p.KeyID {
			if k.Secret != p.Secret {
				return vfReject
			}
			known = true
		}
	}
	if !known {
		return vfReject
	}
	if p.Age < 0 {
		// Dated in the future. More than the TTL ahead (plus the harness's wall-clock margin) is
		// outside the TTL under every reading, also the lenient one that allows the TTL as clock
		// skew in both directions: rejected. Less than that (or no TTL configured): the statement
		// does not say.
		if cfg.TTL > 0 && -p.Age >= cfg.TTL+vfFutureMargin {
			return vfReject
		}
		return vfEither
	}
	if cfg.TTL > 0 && p.Age > cfg.TTL {
		return vfReject
	}
	if p.Presign && p.Age > p.Expire {
		return vfReject
	}
	return vfAccept
}

func vfCanonHdrValue(vals []string) string {
	out := make([]string, len(vals))
	for i, v := range vals {
		out[i] = strings.Join(strings.FieldsFunc(v, func(r rune) bool { return r == ' ' }), " ")
	}
	return strings.Join(out, ",")
}

type vfQP struct{ K, V string }

func vfPctDecode(s string) string {
	var b []byte
	for i := 0; i < len(s); i++ {
		switch {
		case s[i] == '+':
			b = append(b, ' ')
		case s[i] == '%' && i+2 < len(s):
			n, err := strconv.ParseUint(s[i+1:i+3], 16, 8)
			if err != nil {
				b = append(b, s[i])
				continue
			}
			b = append(b, byte(n))
			i += 2
		default:
			b = append(b, s[i])
		}
	}
	return string(b)
}

// vfParseQuery: decoded pairs in order (own parser).
func vfParseQuery(raw string) []vfQP {
	var out []vfQP
	if raw == "" {
		return out
	}
	for _, p := range strings.Split(raw, "&") {
		if p == "" {
			continue
		}
		k, v := p, ""
		if i := strings.IndexByte(p, '='); i >= 0 {
			k, v = p[:i], p[i+1:]
		}
		out = append(out, vfQP{vfPctDecode(k), vfPctDecode(v)})
	}
	return out
}

func vfQueryBag(raw string, skip map[string]bool) string {
	var items []string
	for _, p := range vfParseQuery(raw) {
		if skip[p.K] {
			continue
		}
		items = append(items, strconv.Quote(p.K)+"="+strconv.Quote(p.V))
	}
	sort.Strings(items)
	return strings.Join(items, "&")
}

// vfSigVerdict decides a request derived from the signed one: any difference in a covered
// part (method, path, query, a signed header incl. host and date, the body unless excluded,
// the credential/signature material) => rejected; otherwise the verdict of the signed request.
func (s *vfSigned) vfSigVerdict(m *vfC06Req) (vfVerdict, string) {
	if s.Verdict == vfReject {
		return vfReject, "base invalid"
	}
	lit := s.Cfg.Lit.lit()
	b := &s.Req
	if m.Method != b.Method {
		return vfReject, "method"
	}
	if m.Path != b.Path {
		return vfReject, "path"
	}
	skip := map[string]bool{}
	if !s.Plan.Presign {
		// header mode: query parameters named like the literals are dropped from the canonical
		// query by the scheme; the harness never generates them
		for _, k := range []string{lit.AlgorithmName, lit.Credential, lit.Date, lit.Expires, lit.SignedHeaders, lit.Signature} {
			skip[k] = true
		}
	}
	if vfQueryBag(m.RawQuery, skip) != vfQueryBag(b.RawQuery, skip) {
		return vfReject, "query"
	}
	for _, n := range s.Names {
		if n == "host" {
			if m.Host != b.Host {
				return vfReject, "host"
			}
			continue
		}
		if vfCanonHdrValue(m.all(n)) != vfCanonHdrValue(b.all(n)) {
			return vfReject, "signed header " + n
		}
	}
	if !s.Cfg.ExcludeBody && !bytes.Equal(m.Body, b.Body) {
		return vfReject, "body"
	}
	if !s.Plan.Presign {
		am, _ := m.get("Authorization")
		ab, _ := b.get("Authorization")
		if am != ab {
			return vfReject, "authorization"
		}
	}
	if s.Plan.Presign {
		if a, ok := m.get("Authorization"); ok && a != "" && s.Verdict == vfAccept {
			// a presigned URL together with an Authorization header of another scheme: the scheme
			// this one is modelled on (AWS) refuses two mechanisms at once, the docs are silent
			return vfEither, "presigned request also carries an Authorization header"
		}
	}
	return s.Verdict, "unchanged covered parts"
}

// ---------------------------------------------------------------- own SigV4-style signer (cross-check)

func vfURIEncode(s string, keepSlash bool) string {
	const hexd = "0123456789ABCDEF"
	var b strings.Builder
	for i := 0; i < len(s); i++ {
		c := s[i]
		switch {
		case c >= 'A' && c <= 'Z', c >= 'a' && c <= 'z', c >= '0' && c <= '9', c == '-', c == '_', c == '.', c == '~':
			b.WriteByte(c)
		case c == '/' && keepSlash:
			b.WriteByte(c)
		default:
			b.WriteByte('%')
			b.WriteByte(hexd[c>>4])
			b.WriteByte(hexd[c&15])
		}
	}
	return b.String()
}

func vfHmac256(key, data []byte) []byte {
	m := hmac.New(sha256.New, key)
	m.Write(data)
	return m.Sum(nil)
}

func vfSha256Hex(b []byte) string {
	s := sha256.Sum256(b)
	return hex.EncodeToString(s[:])
}

// vfSigV4Sign implements the documented scheme (Amazon Signature V4 with configurable literals,
// any number of scope parts) from the AWS specification, header mode. It returns the request
// with the date and Authorization headers added. signedExtra: header names to sign besides host
// and the date header.
func vfSigV4Sign(lit *signer.Literal, key vfKey, t time.Time, scopes []string, r vfC06Req, signedExtra []string, payloadHash string) vfC06Req {
	out := r.clone()
	ts := t.UTC().Format("20060102T150405Z")
	day := t.UTC().Format("20060102")
	out.set(lit.Date, ts)
	names := []string{"host", strings.ToLower(lit.Date)}
	for _, n := range signedExtra {
		names = append(names, strings.ToLower(n))
	}
	sort.Strings(names)
	var ch strings.Builder
	for _, n := range names {
		ch.WriteString(n + ":")
		if n == "host" {
			ch.WriteString(out.Host)
		} else {
			ch.WriteString(vfCanonHdrValue(out.all(n)))
		}
		ch.WriteString("\n")
	}
	// canonical query: each name and value URI-encoded, sorted by name then value
	var qs []string
	for _, p := range vfParseQuery(out.RawQuery) {
		qs = append(qs, vfURIEncode(p.K, false)+"="+vfURIEncode(p.V, false))
	}
	sort.Strings(qs)
	path := out.Path
	if path == "" {
		path = "/"
	}
	cr := strings.Join([]string{out.Method, vfURIEncode(path, true), strings.Join(qs, "&"), ch.String(), strings.Join(names, ";"), payloadHash}, "\n")
	scope := day
	for _, s := range scopes {
		scope += "/" + s
	}
	scope += "/" + lit.ScopeSuffix
	sts := strings.Join([]string{lit.AlgorithmValue, ts, scope, vfSha256Hex([]byte(cr))}, "\n")
	k := vfHmac256([]byte(lit.SigningKeyPrefix+key.Secret), []byte(day))
	for _, s := range scopes {
		k = vfHmac256(k, []byte(s))
	}
	k = vfHmac256(k, []byte(lit.ScopeSuffix))
	sig := hex.EncodeToString(vfHmac256(k, []byte(sts)))
	out.set("Authorization", fmt.Sprintf("%s Credential=%s/%s, SignedHeaders=%s, Signature=%s",
		lit.AlgorithmValue, key.ID, scope, strings.Join(names, ";"), sig))
	return out
}
