//go:build go1.21

// C06 harness, part 4: Go native fuzzing (thorough tier only) of the credential parsers: the
// Authorization header for jwt / oauth2-jwt / signature / basicAuth, the date header and the query
// string of presigned requests. Must never panic; nothing that was not produced with a configured
// secret may be accepted (same oracles as the rapid checks).
package validator

import (
	"bytes"
	"encoding/base64"
	"encoding/json"
	"fmt"
	"os"
	"strings"
	"testing"
	"time"

	"github.com/golang-jwt/jwt"
)

// vfFuzzClean: a string that can be put into one header line / the request line unchanged.
func vfFuzzClean(s string, target bool) bool {
	for i := 0; i < len(s); i++ {
		c := s[i]
		if c == 0x7f || (c < 0x20 && c != '\t') {
			return false
		}
		if target && (c <= 0x20 || c == '#') {
			return false
		}
	}
	return true
}

func FuzzVerifC06Authorization(f *testing.F) {
	const now = int64(1_700_000_000)
	old := jwt.TimeFunc
	jwt.TimeFunc = func() time.Time { return time.Unix(now, 0) }
	f.Cleanup(func() { jwt.TimeFunc = old })
	vf := vfBegin(&testing.T{}, "C06") // only its known-findings list is used here

	jc := vfJWTCfg{Alg: "HS256", Secret: []byte("fuzz-secret")}
	oc := vfJWTCfg{Alg: "HS512", Secret: []byte{0, 1, 2, 3}, OAuth2: true}
	sc := vfSigCfg{Keys: []vfKey{{"AKID", "SECRET"}, {"k2", "x"}}, Lit: vfLitSets[0]}
	users := []vfUser{{Name: "u", Pass: "p", Scheme: "sha"}, {Name: "", Pass: "p2", Scheme: "sha"}, {Name: "foo", Pass: "", Scheme: "plain"},
		{Name: "é", Pass: "pä ss", Scheme: "ssha"}}
	file, err := vfWriteHtpasswd(users, []byte("salt"))
	if err != nil {
		f.Fatalf("VF-INCONCLUSIVE cannot write htpasswd file: %v", err)
	}
	f.Cleanup(func() { os.Remove(file) })
	specs := []map[string]interface{}{jc.spec(), oc.spec(), {"signature": sc.spec()},
		{"basicAuth": map[string]interface{}{"mode": "FILE", "userFile": file}}}
	var vals []*Validator
	for _, s := range specs {
		v, y, err := vfC06NewValidator(s)
		if err != nil {
			f.Fatalf("VF-INCONCLUSIVE spec rejected: %v\n%s", err, y)
		}
		vals = append(vals, v)
		f.Cleanup(v.Close)
	}

	// seeds: valid and nearly valid credentials of every kind
	tok := vfTok{HdrAlg: "HS256", SignAlg: "HS256", Secret: jc.Secret, Typ: true, Claims: map[string]interface{}{"sub": "a", "exp": now + 60, "nbf": now - 1}}
	tok2 := vfTok{HdrAlg: "HS512", SignAlg: "HS512", Secret: oc.Secret, Claims: map[string]interface{}{"sub": "a", "scope": "r w"}}
	signed, err := vfSignWithRepo(sc, vfSigPlan{KeyID: "AKID", Secret: "SECRET", Scopes: []string{"us-east-1", "svc"}}, vfC06Req{Method: "GET", Host: "example.com", Path: "/p", RawQuery: "a=1"}, time.Unix(now, 0))
	if err != nil {
		f.Fatalf("VF-INCONCLUSIVE cannot sign seed: %v", err)
	}
	presigned, err := vfSignWithRepo(sc, vfSigPlan{KeyID: "k2", Secret: "x", Presign: true, Expire: 50 * 365 * 24 * time.Hour}, vfC06Req{Method: "GET", Host: "example.com", Path: "/p", RawQuery: "a=1"}, time.Unix(now, 0)) // fixed time, valid for 50 years: the seed (and its signature) is the same in every run
	if err != nil {
		f.Fatalf("VF-INCONCLUSIVE cannot presign seed: %v", err)
	}
	sAuth, _ := signed.Req.get("Authorization")
	sDate, _ := signed.Req.get("X-Me-Date")
	validSig := sAuth[strings.LastIndex(sAuth, "=")+1:]
	preSig := ""
	for _, p := range vfParseQuery(presigned.Req.RawQuery) {
		if p.K == "X-Me-Signature" {
			preSig = p.V
		}
	}
	f.Add(uint8(0), "Bearer "+tok.String(), "", "")
	f.Add(uint8(0), "Bearer "+strings.Replace(tok.String(), ".", "..", 1), "", "")
	f.Add(uint8(0), "bearer "+tok.String(), "", "")
	tok3 := tok.clone()
	tok3.Claims["exp"] = json.RawMessage(fmt.Sprintf("%d.5", now+60))
	tok3.Claims["nbf"] = json.RawMessage("1.5e9")
	f.Add(uint8(0), "Bearer "+tok3.String(), "", "")
	tok3.Claims["exp"] = json.RawMessage("1.5e9") // 2017: expired
	f.Add(uint8(0), "Bearer "+tok3.String(), "", "")
	f.Add(uint8(1), "Bearer "+tok2.String(), "", "")
	f.Add(uint8(1), "Bearer eyJhbGciOiJub25lIn0.e30.", "", "")
	f.Add(uint8(2), sAuth, sDate, "a=1")
	f.Add(uint8(2), "ME-HMAC-SHA256 Credential=AKID/20231114/megaease_request, SignedHeaders=host;x-me-date, Signature=00", sDate, "")
	f.Add(uint8(2), "ME-HMAC-SHA256 Credential=AKID, SignedHeaders=, Signature=", "", "")
	f.Add(uint8(2), "", "", presigned.Req.RawQuery)
	f.Add(uint8(2), "", "", "X-Me-Algorithm=ME-HMAC-SHA256&X-Me-Credential=a%2Fb%2Fc&X-Me-Date=20231114T221320Z&X-Me-Expires=0x10&X-Me-SignedHeaders=&X-Me-Signature=")
	f.Add(uint8(3), vfBasicHeader("u", "p"), "", "")
	f.Add(uint8(3), vfBasicHeader("", "p2"), "", "")
	f.Add(uint8(3), vfBasicHeader("foo", ""), "", "")
	f.Add(uint8(3), vfBasicHeader("é", "pä ss"), "", "")
	f.Add(uint8(3), "Basic "+base64.StdEncoding.EncodeToString([]byte("nocolon")), "", "")
	f.Add(uint8(3), "Basic dTpw!", "", "")

	f.Fuzz(func(t *testing.T, which uint8, auth, date, query string) {
		if !vfFuzzClean(auth, false) || !vfFuzzClean(date, false) || !vfFuzzClean(query, true) || len(auth)+len(date)+len(query) > 8000 {
			return
		}
		m := int(which) % 4
		r := vfC06Req{Method: "GET", Host: "example.com", Path: "/p", RawQuery: query}
		if strings.Trim(auth, " \t") != "" {
			r.set("Authorization", auth)
		}
		if m == 2 && strings.Trim(date, " \t") != "" {
			r.set("X-Me-Date", date)
		}
		var want vfVerdict
		label := [...]string{"fuzz:jwt", "fuzz:oauth2-jwt", "fuzz:signature", "fuzz:basic"}[m]
		switch m {
		case 0:
			want = vfJWTVerdict(&r, jc.Alg, jc.Secret, "", now)
		case 1:
			want = vfJWTVerdict(&r, oc.Alg, oc.Secret, "", now)
		case 2:
			want = vfReject
			// the only valid signatures in existence are the seeds': anything still carrying one is
			// left to the rapid checks (which know what the signature covers)
			// (compared after percent-decoding: "%32" is "2")
			if strings.Contains(auth, validSig) {
				want = vfEither
			}
			for _, p := range vfParseQuery(query) {
				if preSig != "" && (strings.Contains(p.V, preSig) || strings.Contains(p.K, preSig)) {
					want = vfEither
				}
			}
		default:
			want = vfBasicVerdict(&r, users)
			if a, ok := r.get("Authorization"); ok && len(a) > 6 {
				if dec, err := base64.StdEncoding.DecodeString(a[6:]); err == nil {
					if i := bytes.IndexByte(dec, ':'); i >= 0 && bytes.IndexByte(dec[i+1:], ':') >= 0 {
						label = "basic:colon-pw" // the class of the known finding
					}
				}
			}
		}
		out := vfC06Serve(vals[m], &r, 0)
		if out.Err != "" {
			return // not a request the HTTP server would hand over
		}
		descr := fmt.Sprintf("request %s\noracle %s, got %s", r.String(), want, out)
		if out.Panic {
			vf.Violation(t, fmt.Sprintf("%s/panic site=%s panic=%s", label, out.Site, vfPanicClass(out.PText)), "%s", descr)
			return
		}
		accepted := out.Result == ""
		switch {
		case want == vfReject && accepted:
			vf.Violation(t, label+"/invalid-accepted", "%s", descr)
		case want == vfAccept && !accepted:
			vf.Violation(t, label+"/valid-rejected", "%s", descr)
		case !accepted && (out.Result != resultInvalid || !out.HasResp || out.Status != 401):
			vf.Violation(t, label+"/wrong-status", "%s", descr)
		}
	})
}
