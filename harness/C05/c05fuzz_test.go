//go:build go1.21

package ipfilter

import (
	"net"
	"testing"

	"github.com/megaease/easegress/pkg/v"
)

// FuzzVerifC05Entry: byte-level fuzzing of (entry text, client address text, list, blockByDefault)
// with the same decision-table oracle. Entries that validation rejects are skipped (outside the
// domain); IPv4-mapped spellings are accepted either way, as in the rapid test.
func FuzzVerifC05Entry(f *testing.F) {
	for _, s := range [][2]string{{"10.0.0.0/24", "10.0.0.255"}, {"10.0.0.1", "10.0.0.1"}, {"::1", "::1"}, {"2001:db8::/32", "2001:db8:ffff::1"},
		{"0.0.0.0/0", "255.255.255.255"}, {"::/0", "10.0.0.1"}, {"10.0.0.7/31", "10.0.0.6"}, {"::ffff:10.0.0.1", "10.0.0.1"}, {"1.2.3.4/32", "1.2.3.5"},
		{"fe80::1/128", "fe80::1"}, {"255.255.255.255/1", "128.0.0.0"}, {"::ffff:1.2.3.4/127", "1.2.3.5"}} {
		f.Add(s[0], s[1], true, false)
		f.Add(s[0], s[1], false, true)
	}
	f.Fuzz(func(t *testing.T, entry, addr string, inBlock, bbd bool) {
		spec := &Spec{BlockByDefault: bbd}
		if inBlock {
			spec.BlockIPs = []string{entry}
		} else {
			spec.AllowIPs = []string{entry}
		}
		if vr := v.Validate(spec); !vr.Valid() {
			return // not a configuration the admin API would store
		}
		ip := net.ParseIP(addr)
		var flt *IPFilter
		if p, txt, _ := vfRecover(func() { flt = New(spec) }); p {
			t.Fatalf("VF-VIOLATION property=C05 key=[fuzz-new-panics] New panicked for validated entry %q: %s", entry, txt)
		}
		var denied bool
		if p, txt, _ := vfRecover(func() { denied = !flt.Allow(addr) }); p {
			t.Fatalf("VF-VIOLATION property=C05 key=[fuzz-allow-panics] Allow(%q) panicked with entry %q: %s", addr, entry, txt)
		}
		if ip == nil {
			return // unparseable client strings are outside the statement (robustness only)
		}
		// reference semantics of the entry
		var n *net.IPNet
		if e := net.ParseIP(entry); e != nil {
			if e4 := e.To4(); e4 != nil {
				n = &net.IPNet{IP: e4, Mask: net.CIDRMask(32, 32)}
			} else {
				n = &net.IPNet{IP: e, Mask: net.CIDRMask(128, 128)}
			}
		} else {
			_, n, _ = net.ParseCIDR(entry)
		}
		if n == nil {
			return
		}
		mapped := func(s string) bool { // IPv4-mapped spelling on either side: reading left open
			x := net.ParseIP(s)
			if x == nil {
				x, _, _ = net.ParseCIDR(s)
			}
			for _, c := range s {
				if c == ':' {
					return x != nil && x.To4() != nil
				}
			}
			return false
		}
		if mapped(entry) || mapped(addr) {
			return
		}
		in := n.Contains(ip)
		want := (inBlock && in) || (!in && bbd) // one list only: in block => deny; in allow => allow; neither => default
		if !inBlock && in {
			want = false
		}
		if denied != want {
			t.Fatalf("VF-VIOLATION property=C05 key=[fuzz-decision-table] entry %q (block=%v) blockByDefault=%v address %q: denied=%v, statement says %v", entry, inBlock, bbd, addr, denied, want)
		}
	})
}
