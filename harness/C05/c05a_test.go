//go:build go1.21

package ipfilter

import (
	"fmt"
	"math/big"
	"net"
	"strings"
	"testing"

	"github.com/megaease/easegress/pkg/logger"
	"github.com/megaease/easegress/pkg/v"
	"pgregory.net/rapid"
)

func init() { logger.InitNop() }

var (
	vfV4Bases = []string{"10.0.0.0", "10.0.0.1", "10.0.0.255", "10.0.1.0", "192.168.1.77", "255.255.255.255",
		"0.0.0.0", "127.255.255.255", "128.0.0.0", "8.8.8.8", "10.0.0.128"}
	vfV6Bases = []string{"::", "::1", "2001:db8::", "2001:db8::1", "2001:db8:ffff:ffff:ffff:ffff:ffff:ffff",
		"fe80::1", "ffff:ffff:ffff:ffff:ffff:ffff:ffff:ffff", "8000::", "2001:db8:0:1::"}
)

type vfEntry struct {
	text   string
	net    *net.IPNet // standard semantics of the entry
	mapped bool       // IPv4-mapped IPv6 spelling: reading left open by the statement
}

func vfIPToInt(ip net.IP) (*big.Int, int) {
	if x := ip.To4(); x != nil {
		return new(big.Int).SetBytes(x), 4
	}
	return new(big.Int).SetBytes(ip.To16()), 16
}

func vfIntToIP(n *big.Int, size int) net.IP {
	max := new(big.Int).Lsh(big.NewInt(1), uint(size*8))
	m := new(big.Int).Mod(n, max)
	if m.Sign() < 0 {
		m.Add(m, max)
	}
	b := m.Bytes()
	out := make([]byte, size)
	copy(out[size-len(b):], b)
	return net.IP(out)
}

func vfGenEntry(t *rapid.T, label string) vfEntry {
	kind := rapid.IntRange(0, 10).Draw(t, label+".kind")
	switch {
	case kind <= 1: // single v4
		s := rapid.SampledFrom(vfV4Bases).Draw(t, label+".v4")
		return vfEntry{text: s, net: &net.IPNet{IP: net.ParseIP(s).To4(), Mask: net.CIDRMask(32, 32)}}
	case kind <= 5: // v4 cidr of every prefix length (host bits may be set, as operators write them)
		s := rapid.SampledFrom(vfV4Bases).Draw(t, label+".v4")
		p := rapid.IntRange(0, 32).Draw(t, label+".plen")
		txt := fmt.Sprintf("%s/%d", s, p)
		_, n, _ := net.ParseCIDR(txt)
		return vfEntry{text: txt, net: n}
	case kind == 6: // single v6
		s := rapid.SampledFrom(vfV6Bases).Draw(t, label+".v6")
		return vfEntry{text: s, net: &net.IPNet{IP: net.ParseIP(s), Mask: net.CIDRMask(128, 128)}}
	case kind <= 9: // v6 cidr
		s := rapid.SampledFrom(vfV6Bases).Draw(t, label+".v6")
		p := rapid.IntRange(0, 128).Draw(t, label+".plen6")
		txt := fmt.Sprintf("%s/%d", s, p)
		_, n, _ := net.ParseCIDR(txt)
		return vfEntry{text: txt, net: n}
	default: // IPv4-mapped spelling (counted, either outcome accepted)
		s := rapid.SampledFrom(vfV4Bases).Draw(t, label+".v4m")
		if rapid.Bool().Draw(t, label+".mcidr") {
			p := rapid.IntRange(96, 128).Draw(t, label+".mplen")
			txt := fmt.Sprintf("::ffff:%s/%d", s, p)
			_, n, err := net.ParseCIDR(txt)
			if err != nil {
				t.Fatalf("VF-INCONCLUSIVE bad generated cidr %s", txt)
			}
			return vfEntry{text: txt, net: n, mapped: true}
		}
		txt := "::ffff:" + s
		return vfEntry{text: txt, net: &net.IPNet{IP: net.ParseIP(s).To4(), Mask: net.CIDRMask(32, 32)}, mapped: true}
	}
}

// vfProbes: adversarial addresses around every entry (network address, last address, one below,
// one above) plus bases.
func vfProbes(t *rapid.T, entries []vfEntry) []string {
	var out []string
	for i, e := range entries {
		if e.mapped {
			continue
		}
		first, size := vfIPToInt(e.net.IP)
		ones, bits := e.net.Mask.Size()
		span := new(big.Int).Lsh(big.NewInt(1), uint(bits-ones))
		last := new(big.Int).Add(first, new(big.Int).Sub(span, big.NewInt(1)))
		which := rapid.IntRange(0, 5).Draw(t, fmt.Sprintf("probe%d", i))
		var n *big.Int
		switch which {
		case 0:
			n = first
		case 1:
			n = last
		case 2:
			n = new(big.Int).Sub(first, big.NewInt(1))
		case 3:
			n = new(big.Int).Add(last, big.NewInt(1))
		case 4:
			n = new(big.Int).Add(first, new(big.Int).Rsh(span, 1))
		default:
			continue
		}
		txt := vfIntToIP(n, size).String()
		// legal non-canonical spellings of the same address (what proxies put into
		// X-Forwarded-For / X-Real-IP): upper-case / fully expanded IPv6, IPv4-mapped IPv6
		switch rapid.IntRange(0, 5).Draw(t, fmt.Sprintf("spell%d", i)) {
		case 0:
			if size == 16 {
				txt = strings.ToUpper(txt)
			} else {
				txt = "::ffff:" + txt
			}
		case 1:
			if size == 16 {
				ip := vfIntToIP(n, size)
				parts := make([]string, 8)
				for j := 0; j < 8; j++ {
					parts[j] = fmt.Sprintf("%x", int(ip[2*j])<<8|int(ip[2*j+1]))
				}
				txt = strings.Join(parts, ":")
			} else {
				txt = "::FFFF:" + txt
			}
		}
		out = append(out, txt)
	}
	out = append(out, rapid.SampledFrom(vfV4Bases).Draw(t, "probe.v4"))
	out = append(out, rapid.SampledFrom(vfV6Bases).Draw(t, "probe.v6"))
	return out
}

func vfContains(entries []vfEntry, ip net.IP) (in bool, viaMapped bool) {
	for _, e := range entries {
		if e.net.Contains(ip) {
			if e.mapped {
				viaMapped = true
			} else {
				in = true
			}
		}
	}
	return
}

func vfTexts(es []vfEntry) []string {
	seen := map[string]bool{}
	var out []string
	for _, e := range es {
		if !seen[e.text] {
			seen[e.text] = true
			out = append(out, e.text)
		}
	}
	return out
}

// TestVerifC05Table: decision table of the statement vs IPFilter.Allow.
func TestVerifC05Table(t *testing.T) {
	vf := vfBegin(t, "C05")
	defer vf.End()
	rapid.Check(t, func(rt *rapid.T) {
		var allow, block []vfEntry
		na := rapid.IntRange(0, 5).Draw(rt, "nallow")
		nb := rapid.IntRange(0, 5).Draw(rt, "nblock")
		for i := 0; i < na; i++ {
			allow = append(allow, vfGenEntry(rt, fmt.Sprintf("a%d", i)))
		}
		for i := 0; i < nb; i++ {
			block = append(block, vfGenEntry(rt, fmt.Sprintf("b%d", i)))
		}
		spec := &Spec{BlockByDefault: rapid.Bool().Draw(rt, "bbd"), AllowIPs: vfTexts(allow), BlockIPs: vfTexts(block)}
		if vr := v.Validate(spec); !vr.Valid() {
			rt.Fatalf("VF-INCONCLUSIVE generated filter spec rejected by validation: %v %+v", vr, spec)
		}
		var f *IPFilter
		anyMapped := false
		for _, e := range append(append([]vfEntry{}, allow...), block...) {
			anyMapped = anyMapped || e.mapped
		}
		if anyMapped && vf.HasKnown("ipv4-mapped-entry-panics-in-New") {
			vf.Exclude() // steer away from the listed finding so that the search continues
			return
		}
		if p, txt, site := vfRecover(func() { f = New(spec) }); p {
			key := "new-panics site=" + site
			if anyMapped {
				key = "ipv4-mapped-entry-panics-in-New"
			}
			vf.Violation(rt, key, "ipfilter.New panicked on validated spec %+v: %s", spec, txt)
			return
		}
		for _, probe := range vfProbes(rt, append(append([]vfEntry{}, allow...), block...)) {
			ip := net.ParseIP(probe)
			inAllow, mA := vfContains(allow, ip)
			inBlock, mB := vfContains(block, ip)
			deny := func(a, b bool) bool { return (b && !a) || ((a == b) && spec.BlockByDefault) }
			// acceptable decisions: mapped spellings may or may not count as containing the address
			acc := map[bool]bool{}
			for _, ea := range []bool{false, true} {
				for _, eb := range []bool{false, true} {
					if (ea && !mA) || (eb && !mB) {
						continue
					}
					acc[deny(inAllow || ea, inBlock || eb)] = true
				}
			}
			var got bool
			if p, txt, site := vfRecover(func() { got = !f.Allow(probe) }); p {
				vf.Violation(rt, "allow-panics site="+site, "Allow(%q) panicked: %s spec=%+v", probe, txt, spec)
				return
			}
			boundary := false
			for _, e := range append(append([]vfEntry{}, allow...), block...) {
				if e.mapped {
					continue
				}
				first, size := vfIPToInt(e.net.IP)
				ones, bits := e.net.Mask.Size()
				span := new(big.Int).Lsh(big.NewInt(1), uint(bits-ones))
				last := new(big.Int).Add(first, new(big.Int).Sub(span, big.NewInt(1)))
				n, sz := vfIPToInt(ip)
				if sz == size && (n.Cmp(first) == 0 || n.Cmp(last) == 0) {
					boundary = true
				}
			}
			nontrivial := (inAllow || inBlock) && boundary || (inAllow && inBlock)
			vf.Class(fmt.Sprintf("deny=%v", got))
			if inAllow && inBlock {
				vf.Class("in-both")
			}
			if !inAllow && !inBlock {
				vf.Class("in-neither")
			}
			if len(acc) > 1 {
				vf.Class("ambiguous-mapped-spelling")
			}
			if ip != nil && ip.String() != probe {
				vf.Class("probe-noncanonical-spelling")
			}
			if strings.Contains(probe, ":") {
				vf.Class("probe-v6")
			} else {
				vf.Class("probe-v4")
			}
			vf.Case(nontrivial, fmt.Sprintf("%+v|%s", spec, probe), func() interface{} {
				return map[string]interface{}{"allowIPs": spec.AllowIPs, "blockIPs": spec.BlockIPs, "blockByDefault": spec.BlockByDefault, "address": probe, "denied": got}
			})
			if !acc[got] {
				vf.Violation(rt, "decision-table", "address %s filter %+v: denied=%v, statement says denied=%v (inAllow=%v inBlock=%v)", probe, spec, got, !got, inAllow, inBlock)
				return
			}
		}
		// robustness class: unparseable client strings must not panic (decision not asserted)
		junk := rapid.SampledFrom([]string{"", "not-an-ip", "10.0.0", "10.0.0.1:80", "[::1]", "1.2.3.4.5"}).Draw(rt, "junk")
		if p, txt, site := vfRecover(func() { f.Allow(junk) }); p {
			vf.Violation(rt, "allow-panics-junk site="+site, "Allow(%q) panicked: %s", junk, txt)
		}
	})
}
