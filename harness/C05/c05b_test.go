//go:build go1.21

package httpserver

import (
	"fmt"
	"testing"

	"github.com/megaease/easegress/pkg/supervisor"

	"pgregory.net/rapid"
)

// TestVerifC05Mux: denied clients never reach a handler, others are routed as without filters,
// at every position of every request sequence and every cache size.
func TestVerifC05Mux(t *testing.T) {
	vf := vfBegin(t, "C05")
	defer vf.End()
	rapid.Check(t, func(rt *rapid.T) {
		srv := vfGenServer(rt, vfGenOpts{IPFilters: true, IPPool: vfIPPool})
		srv.CacheSize = rapid.SampledFrom([]int{0, 1, 8}).Draw(rt, "cache")
		// by construction, in a quarter of the cases: the first generation's server-level filter blocks
		// exactly one of the clients, and the reload in the middle drops that filter (rules and cache size
		// stay): what the old generation refused must be served afterwards, cached or not
		dropSrvFilter := rapid.IntRange(0, 3).Draw(rt, "dropsrvfilter") == 0
		if dropSrvFilter {
			srv.IPF = &vfIPF{Block: []string{rapid.SampledFrom([]string{"10.0.0.1", "10.0.0.2", "8.8.8.8", "2001:db8::1", "10.0.1.1"}).Draw(rt, "dropsrvfilter.ip")}}
			if srv.CacheSize == 0 {
				srv.CacheSize = 8
			}
		}
		y := srv.YAML()
		mapper := &vfMapper{live: vfLive}
		m, err := vfNewMux(y, mapper)
		if err != nil {
			rt.Fatalf("VF-INCONCLUSIVE generator produced a spec that validation rejects: %v\n%s", err, y)
		}
		seq, who := vfGenSeq(rt, srv, 4, 20, nil)
		// optional hot update in the middle of the sequence: same rules, IP filters re-drawn at every
		// level (the statement holds "whatever requests preceded it", also across a reload)
		reloadAt := -1
		var srv2 vfServer
		if dropSrvFilter {
			reloadAt = rapid.IntRange(1, len(seq)-1).Draw(rt, "reloadAt")
			srv2 = srv
			srv2.IPF = nil
			vf.Class("sequence-with-reload", "reload-drops-a-server-filter-that-blocked-one-client")
		} else if rapid.IntRange(0, 2).Draw(rt, "reload") == 0 {
			reloadAt = rapid.IntRange(1, len(seq)-1).Draw(rt, "reloadAt")
			srv2 = srv
			srv2.Rules = make([]vfRule, len(srv.Rules))
			srv2.IPF = nil
			if rapid.Bool().Draw(rt, "srv2.ipf") {
				srv2.IPF = vfGenIPF(rt, "srv2.ipf", vfIPPool)
			}
			for ri, r := range srv.Rules {
				r2 := r
				r2.Paths = append([]vfPath{}, r.Paths...)
				if r.IPF != nil && rapid.Bool().Draw(rt, "r2.ipf") {
					r2.IPF = vfGenIPF(rt, "r2.ipf", vfIPPool)
				}
				for pi := range r2.Paths {
					if r2.Paths[pi].IPF != nil && rapid.Bool().Draw(rt, "p2.ipf") {
						r2.Paths[pi].IPF = vfGenIPF(rt, "p2.ipf", vfIPPool)
					}
				}
				srv2.Rules[ri] = r2
			}
			vf.Class("sequence-with-reload")
		}
		nontrivial := false
		allowedKeys := map[string]bool{}
		for i, req := range seq {
			if i == reloadAt {
				y2 := srv2.YAML()
				ss2, err := supervisor.NewSpec(y2)
				if err != nil {
					rt.Fatalf("VF-INCONCLUSIVE reload spec rejected: %v\n%s", err, y2)
				}
				m.reload(ss2, mapper)
				srv, y = srv2, y+"--- reloaded at #"+fmt.Sprint(i)+" with\n"+y2
			}
			ip := who[i].IP
			got := vfServe(m, mapper, req)
			k3 := req.Host + "\x00" + req.Method + "\x00" + req.Path

			okOutcomes := map[string]bool{} // acceptable (status|backend|path) keys
			any4xxNoHandler, any403 := false, false
			mustDenyAll, mustAllowAll := true, true
			for _, c := range vfAllChoices {
				outs := vfRouteNoIP(srv, req, vfLive, c)
				R := outs[0]
				deniedSrv := vfDenied(srv.IPF, ip)
				deniedRuleR := R.rule >= 0 && vfDenied(srv.Rules[R.rule].IPF, ip)
				deniedPathR := R.rule >= 0 && vfDenied(srv.Rules[R.rule].Paths[R.path].IPF, ip)
				// A rule's ipFilter is "for all traffic under the rule" (doc/reference/controllers.md), i.e.
				// for every request whose host the rule matches: a host-matching rule AHEAD of the routing
				// entry applies to the request although another rule routes it. Rules behind the routing
				// entry are never consulted (first match wins): either outcome is accepted for them, as for
				// requests no entry routes.
				deniedOtherRule, deniedEarlierRule := false, false
				for ri, rule := range srv.Rules {
					if vfHostMatches(rule, req.Host) && ri != R.rule && vfDenied(rule.IPF, ip) {
						if R.rule >= 0 && ri < R.rule {
							deniedEarlierRule = true
						} else {
							deniedOtherRule = true
						}
					}
				}
				mustDeny := deniedSrv || deniedRuleR || deniedPathR || deniedEarlierRule
				mustAllow := !mustDeny && !deniedOtherRule
				mustDenyAll = mustDenyAll && mustDeny
				mustAllowAll = mustAllowAll && mustAllow
				if mustDeny || !mustAllow {
					if R.rule >= 0 {
						any403 = true
					} else {
						any4xxNoHandler = true
					}
				}
				if !mustDeny {
					for _, o := range outs {
						okOutcomes[o.key()] = true
					}
				}
			}
			ok := okOutcomes[got.key()] && (got.Status == 200) == (got.Calls == 1) && (got.Status == 200 || got.Calls == 0)
			if !ok && got.Calls == 0 {
				if any403 && got.Status == 403 {
					ok = true
				}
				if any4xxNoHandler && got.Status >= 400 && got.Status < 500 {
					ok = true
				}
			}
			switch {
			case mustDenyAll:
				vf.Class("must-deny")
				if allowedKeys[k3] {
					nontrivial = true
					vf.Class("denied-after-allowed-same-key")
				}
			case mustAllowAll:
				vf.Class("must-allow")
				if got.Status == 200 {
					allowedKeys[k3] = true
				}
			default:
				vf.Class("either")
			}
			if !ok {
				key := "mux-ipfilter"
				switch {
				case mustDenyAll && got.Calls > 0:
					key = "denied-client-reached-handler"
				case mustDenyAll:
					key = "denied-client-wrong-status"
				case mustAllowAll:
					key = "allowed-client-misrouted"
				}
				if srv.CacheSize > 0 {
					key += "-with-cache"
				}
				if vf.Violation(rt, key, "cache=%d position #%d client %s\nspec:\n%s\nsequence:\n%sgot %s calls=%d; acceptable %v (403 ok: %v, any 4xx ok: %v)",
					srv.CacheSize, i, ip, y, vfSeqString(seq[:i+1]), got.key(), got.Calls, okOutcomes, any403, any4xxNoHandler) {
					return
				}
				return
			}
		}
		vf.Class(fmt.Sprintf("cache=%d", srv.CacheSize))
		vf.Case(nontrivial, y+vfSeqString(seq), func() interface{} {
			return map[string]interface{}{"spec": y, "cache": srv.CacheSize, "sequence": vfSeqString(seq)}
		})
	})
}
