//go:build go1.21

package mqttproxy

// C16 — MQTT sessions survive reconnect and client-id takeover as cleanSession dictates.
//
// One client id, a generated script over
//   connect(clean) / subscribe / unsubscribe / pipelined subscribe+unsubscribe packets /
//   end of connection (DISCONNECT or half-closed socket = network drop seen by the broker) /
//   takeover (second CONNECT with the same id while the first connection is open) /
//   teardown of a superseded connection at a chosen later point / admin delete-session.
// The schedule is owned through the protocol: a superseded connection's read loop sits in
// ReadPacket (keep-alive 0) until the harness sends a PINGREQ on the old socket or half-closes it;
// EOF on the old socket is the observable end of its teardown. Session writes and delete-watch
// events go through the rig's store, which is fenced / flushed after every step, so nothing
// asynchronous is pending when the oracle looks.
//
// Oracle: a model of the logical session (clean flag, filter -> QoS) written from the statement:
//   connect(clean=false) keeps the previous session iff that one was not clean, else a fresh one;
//   the end of a connection discards a clean session and keeps a non-clean one;
//   a takeover is a connect; the teardown of the superseded connection changes nothing.
// After every step, probes for five topics are published through the HTTP endpoint and must be
// received exactly when the model holds a matching filter; in addition the new connection must
// still be registered, own its session entry and be routed in the topic trie.

import (
	"fmt"
	"sort"
	"strings"
	"testing"
	"time"

	"github.com/eclipse/paho.mqtt.golang/packets"
	"pgregory.net/rapid"
)

const (
	vfC16CID = "dev1"

	// symptoms of one defect: the superseded connection's deferred cleanup works on the client id
	vfC16KeyTdClosed = "takeover-old-teardown-disconnected-new-connection"
	vfC16KeyTdUnreg  = "takeover-old-teardown-unregistered-new-connection"
	vfC16KeyTdSess   = "takeover-old-teardown-removed-new-session"
	vfC16KeyTdUnsub  = "takeover-old-teardown-unsubscribed-new-connection"
	vfC16KeyTdStore  = "takeover-old-teardown-deleted-stored-session"
	// the trie keeps the superseded session's filters for the id although the new session is fresh
	vfC16KeyStale = "takeover-fresh-session-still-routed-old-subscriptions"
	// two session writes issued back to back land in the store in the wrong order
	vfC16KeyReorder = "session-store-write-reordered"
)

// vfC16IDs: the client id of a script. A client id is any UTF-8 string (MQTT 3.1.1 3.1.3.1; the
// broker sets no narrower rule): besides the plain one, ids shaped like paths, which is what
// multi-tenant naming schemes produce (the session store key is a prefix + the id).
var vfC16IDs = []string{"dev1", "plant-7/gw", "a/b", "site/1/dev1", "dev1/", "/dev1", "dev 1", "d.e:v#1+"}

var (
	vfC16Filters = []string{"a", "a/b", "a/+", "a/#", "+/b", "#"}
	vfC16Topics  = []string{"a", "a/b", "b", "b/b", "a/b/c"}
)

type vfC16Sess struct {
	clean  bool
	topics map[string]byte
}

type vfC16Old struct {
	c      *vfMqClient
	topics map[string]byte // filters of its session when it was superseded (what its teardown will unsubscribe at least)
	// parked: the connection is over (DISCONNECT / dropped socket), its teardown sits in the
	// pipeline configured for the Disconnect packet type until the harness releases it
	parked bool
}

type vfC16Run struct {
	rt  *rapid.T
	vf  *vfCollector
	rig *vfMqRig
	cid string // the client id of the script

	sess *vfC16Sess // model
	live *vfMqClient
	olds []*vfC16Old

	hist     []string
	probeSeq int

	// context of the live connection
	tornDown      bool            // a superseded connection finished its teardown since the live one connected
	restored      map[string]bool // filters the live connection got from the previous session and has not touched
	freshAfter    bool            // live connection started with a fresh session
	pipelined     bool            // pipelined session writes happened since the last store check
	queueFull     bool            // a session change was made while the store queue was full, since the last store check
	withDisc      bool            // the broker has a pipeline for the Disconnect packet type (rig.DiscGate)
	subAfterTake  bool            // live connection subscribed after taking over
	ntTeardown    bool
	ntRestore     bool
	abandon       bool
	steps         int
	slowStoreUsed bool

	faults map[*vfMqClient]*vfMqFaultConn // connections served through a fault-injecting net.Conn
	// a connection object of the id is still registered in the broker although the connection is
	// dead as far as the broker's writer is concerned (CONNACK could not be written, or a later
	// write failed and the cleanup ran while the reader still blocks)
	deadRegistered bool
	ntDead         bool
}

func (r *vfC16Run) log(format string, args ...interface{}) {
	r.hist = append(r.hist, fmt.Sprintf(format, args...))
}

func (r *vfC16Run) describe() string {
	return strings.Join(r.hist, " ; ")
}

func (r *vfC16Run) dump() string {
	var sb strings.Builder
	fmt.Fprintf(&sb, "script: %s\n", r.describe())
	if r.sess != nil {
		fmt.Fprintf(&sb, "model session: clean=%v topics=%v\n", r.sess.clean, r.sess.topics)
	} else {
		sb.WriteString("model session: none\n")
	}
	if r.live != nil {
		fmt.Fprintf(&sb, "live connection %s log: %s\n", r.live.Label, vfMqFmtEvents(r.live.Events()))
	}
	for _, o := range r.olds {
		fmt.Fprintf(&sb, "superseded %s (teardown pending; socket closed by broker: %v) session topics %v log: %s\n", o.c.Label, o.c.EOF(), o.topics, vfMqFmtEvents(o.c.Events()))
	}
	if t, ok := r.rig.store.sessionTopics(r.cid); ok {
		fmt.Fprintf(&sb, "stored record topics: %v\n", t)
	} else {
		sb.WriteString("stored record: none\n")
	}
	return sb.String()
}

func (r *vfC16Run) inconclusive(what string, err error) {
	r.rt.Fatalf("VF-INCONCLUSIVE %s: %v\n%s", what, err, r.dump())
}

// violation reports an oracle disagreement. An unknown key fails the case (it does not return);
// for a listed known finding it returns with the case marked abandoned, so that the caller can
// go on collecting the other symptoms of the same situation before it stops.
func (r *vfC16Run) violation(key, format string, args ...interface{}) {
	if r.vf.Violation(r.rt, key, format+"\n%s", append(args, r.dump())...) {
		r.abandon = true
	}
}

// sweep notices superseded connections whose teardown has already finished. The broker's read
// loop normally sits in ReadPacket when its connection is superseded and then ends only when the
// harness sends something; but when it is still between two packets at that moment it sees the
// closed flag at once and tears down on its own. Both are schedules the statement quantifies over.
func (r *vfC16Run) sweep() {
	kept := r.olds[:0:0]
	for _, o := range r.olds {
		if o.c.EOF() {
			r.tornDown = true
			r.log("(%s ended on its own)", o.c.Label)
			r.vf.Class("teardown-spontaneous-right-after-takeover")
			if r.subAfterTake {
				r.ntTeardown = true
			}
		} else {
			kept = append(kept, o)
		}
	}
	r.olds = kept
}

// tdNow: has a superseded connection finished its teardown since the live one connected? Called
// when a symptom shows up; a teardown that is running right now closes its socket right after
// the cleanup, so a short wait decides. (Only the choice of the violation key depends on it.)
func (r *vfC16Run) tdNow() bool {
	r.sweep()
	deadline := time.Now().Add(5 * time.Second)
	for !r.tornDown && len(r.olds) > 0 && time.Now().Before(deadline) {
		time.Sleep(time.Millisecond)
		r.sweep()
	}
	return r.tornDown
}

func vfC16Copy(m map[string]byte) map[string]byte {
	out := map[string]byte{}
	for k, v := range m {
		out[k] = v
	}
	return out
}

func vfC16Instance(filter string) string {
	switch filter {
	case "a/+", "+/b":
		return "a/b"
	case "a/#":
		return "a/b/c"
	case "#":
		return "b"
	}
	return filter
}

// connect opens a connection (fresh or takeover) and updates the model.
func (r *vfC16Run) connect(clean bool, takeover bool) {
	label := fmt.Sprintf("conn%d", len(r.rig.clients)+1)
	var oldBroker *Client
	if takeover {
		oldBroker = r.rig.registered(r.cid)
	}
	var c *vfMqClient
	var err error
	if rapid.IntRange(0, 2).Draw(r.rt, "viaFaultConn") == 0 {
		var fc *vfMqFaultConn
		c, fc, err = r.rig.DialFault(label)
		if err == nil {
			r.faults[c] = fc
			label += "(f)"
			c.Label = label
		}
	} else {
		c, err = r.rig.Dial(label)
	}
	if err != nil {
		r.inconclusive("dial", err)
	}
	code, err := c.Connect(r.cid, clean)
	if err != nil || code != packets.Accepted {
		r.inconclusive("connect", fmt.Errorf("code=%d err=%v", code, err))
	}
	if takeover {
		r.log("takeover(%s clean=%v)", label, clean)
		// the broker flags the superseded connection from a goroutine of its own; wait for the flag
		// so that a PINGREQ on the old socket is a reliable teardown trigger later
		deadline := time.Now().Add(vfMqWait)
		for oldBroker != nil && !oldBroker.disconnected() {
			if time.Now().After(deadline) {
				r.inconclusive("takeover", fmt.Errorf("superseded connection never flagged as closed"))
			}
			time.Sleep(200 * time.Microsecond)
		}
		old := &vfC16Old{c: r.live, topics: map[string]byte{}}
		if r.sess != nil {
			old.topics = vfC16Copy(r.sess.topics)
		}
		r.olds = append(r.olds, old)
		r.vf.Class("step:takeover")
	} else {
		r.log("connect(%s clean=%v)", label, clean)
		r.vf.Class("step:connect")
	}
	r.live = c
	r.tornDown, r.subAfterTake = false, false
	r.restored = map[string]bool{}
	if !clean && r.sess != nil && !r.sess.clean {
		// previous session continues
		r.freshAfter = false
		for f := range r.sess.topics {
			r.restored[f] = true
		}
		if len(r.sess.topics) > 0 {
			r.ntRestore = true
			r.vf.Class("reconnect-restores-subscriptions")
			if r.deadRegistered {
				r.ntDead = true
				r.vf.Class("nontrivial:restoring-reconnect-finds-dead-connection-registered")
			}
		}
	} else {
		if r.sess != nil && len(r.sess.topics) > 0 {
			r.vf.Class("reconnect-discards-subscriptions")
		}
		r.sess = &vfC16Sess{clean: clean, topics: map[string]byte{}}
		r.freshAfter = true
	}
	r.deadRegistered = false
	// PINGREQ is handled by the read loop, which starts after handleConn re-subscribed the session
	if _, err := c.Ping(); err != nil {
		if c.EOF() {
			key := "connection-closed-by-broker"
			if r.tdNow() {
				key = vfC16KeyTdClosed
			}
			r.violation(key, "%s was closed by the broker right after CONNACK", label)
			r.abandon = true
			return
		}
		r.inconclusive("ping after connect", err)
	}
}

func (r *vfC16Run) drawSubs(n int) ([]string, []byte) {
	var fs []string
	var qs []byte
	for i := 0; i < n; i++ {
		fs = append(fs, rapid.SampledFrom(vfC16Filters).Draw(r.rt, "filter"))
		qs = append(qs, byte(rapid.IntRange(0, 1).Draw(r.rt, "qos")))
	}
	return fs, qs
}

func (r *vfC16Run) applySub(fs []string, qs []byte) {
	for i, f := range fs {
		r.sess.topics[f] = qs[i]
		delete(r.restored, f)
	}
	if len(r.olds) > 0 {
		r.subAfterTake = true
	}
}

func (r *vfC16Run) applyUnsub(fs []string) {
	for _, f := range fs {
		delete(r.sess.topics, f)
		delete(r.restored, f)
	}
}

func vfC16FmtSubs(fs []string, qs []byte) string {
	var parts []string
	for i, f := range fs {
		if qs != nil {
			parts = append(parts, fmt.Sprintf("%s@%d", f, qs[i]))
		} else {
			parts = append(parts, f)
		}
	}
	return strings.Join(parts, ",")
}

func (r *vfC16Run) stepSub() {
	fs, qs := r.drawSubs(rapid.IntRange(1, 2).Draw(r.rt, "nFilters"))
	r.log("sub(%s)", vfC16FmtSubs(fs, qs))
	r.vf.Class("step:subscribe")
	if err := r.live.Subscribe(fs, qs); err != nil {
		r.liveFailed("subscribe", err)
		return
	}
	r.applySub(fs, qs)
}

func (r *vfC16Run) stepUnsub() {
	n := rapid.IntRange(1, 2).Draw(r.rt, "nFilters")
	var fs []string
	for i := 0; i < n; i++ {
		// prefer live filters
		var liveF []string
		for f := range r.sess.topics {
			liveF = append(liveF, f)
		}
		sort.Strings(liveF)
		if len(liveF) > 0 && rapid.IntRange(0, 3).Draw(r.rt, "liveFilter?") > 0 {
			fs = append(fs, rapid.SampledFrom(liveF).Draw(r.rt, "filter"))
		} else {
			fs = append(fs, rapid.SampledFrom(vfC16Filters).Draw(r.rt, "filter"))
		}
	}
	r.log("unsub(%s)", vfC16FmtSubs(fs, nil))
	r.vf.Class("step:unsubscribe")
	if err := r.live.Unsubscribe(fs); err != nil {
		r.liveFailed("unsubscribe", err)
		return
	}
	r.applyUnsub(fs)
}

// stepPipelined writes 2-3 SUBSCRIBE/UNSUBSCRIBE packets in one TCP write while the store is
// slow (puts blocked until the next fence), as a client that does not wait for SUBACK does.
func (r *vfC16Run) stepPipelined() {
	n := rapid.IntRange(2, 3).Draw(r.rt, "nPackets")
	slow := rapid.Bool().Draw(r.rt, "slowStore")
	var pkts []packets.ControlPacket
	type ack struct {
		kind byte
		id   uint16
	}
	var acks []ack
	var desc []string
	var apply []func()
	for i := 0; i < n; i++ {
		id := r.live.newID()
		if rapid.Bool().Draw(r.rt, "isSub") {
			fs, qs := r.drawSubs(1)
			pkts = append(pkts, vfMqSubscribePacket(id, fs, qs))
			acks = append(acks, ack{packets.Suback, id})
			desc = append(desc, "sub("+vfC16FmtSubs(fs, qs)+")")
			apply = append(apply, func() { r.applySub(fs, qs) })
		} else {
			fs := []string{rapid.SampledFrom(vfC16Filters).Draw(r.rt, "filter")}
			pkts = append(pkts, vfMqUnsubscribePacket(id, fs))
			acks = append(acks, ack{packets.Unsuback, id})
			desc = append(desc, "unsub("+fs[0]+")")
			apply = append(apply, func() { r.applyUnsub(fs) })
		}
	}
	r.log("pipelined[slowStore=%v](%s)", slow, strings.Join(desc, " "))
	r.vf.Class("step:pipelined")
	if slow {
		r.rig.store.hold()
		r.slowStoreUsed = true
	}
	if err := r.live.write(pkts...); err != nil {
		r.liveFailed("pipelined write", err)
		return
	}
	for _, a := range acks {
		if err := r.live.WaitAck(a.kind, a.id); err != nil {
			r.liveFailed("pipelined ack", err)
			return
		}
	}
	for _, f := range apply {
		f()
	}
	r.pipelined = true
}

// liveFailed: an operation on the live connection did not complete.
func (r *vfC16Run) liveFailed(what string, err error) {
	if r.live.EOF() {
		key := "connection-closed-by-broker"
		if r.tdNow() {
			key = vfC16KeyTdClosed
		}
		r.violation(key, "%s: the broker closed the live connection (%v)", what, err)
		r.abandon = true
		return
	}
	r.inconclusive(what, err)
}

// stepFailedConnect: a connection attempt that dies while the broker writes the CONNACK. The
// broker has registered the client object and its session by then, and nothing removes them.
func (r *vfC16Run) stepFailedConnect() {
	clean := rapid.IntRange(0, 3).Draw(r.rt, "clean") == 0
	label := fmt.Sprintf("conn%d(f)", len(r.rig.clients)+1)
	r.log("failed-connect(%s clean=%v: CONNACK cannot be written)", label, clean)
	r.vf.Class("step:failed-connect")
	c, fc, err := r.rig.DialFault(label)
	if err != nil {
		r.inconclusive("dial", err)
	}
	fc.FailWrites()
	if err := c.write(vfMqConnectPacket(r.cid, clean)); err != nil {
		r.inconclusive("write connect", err)
	}
	select {
	case <-fc.handled:
	case <-time.After(vfMqWait):
		r.inconclusive("failed connect", fmt.Errorf("handleConn did not return"))
	}
	c.WaitEOF(vfMqWait)
	if err := r.rig.Quiesce(); err != nil {
		r.inconclusive("quiesce", err)
	}
	// CONNECT was processed: cleanSession=true discards what was there; the connection is gone at once
	if clean {
		r.sess = nil
	} else if r.sess == nil {
		r.sess = &vfC16Sess{clean: false, topics: map[string]byte{}}
	}
	r.deadRegistered = r.rig.registered(r.cid) != nil
}

// stepWriteFailure: the broker's writes to the live connection start failing (peer vanished).
// variant "publish": a matching message makes the writer notice; it runs the end-of-connection
// cleanup while the reader still blocks, so the connection object stays registered.
// variant "ping": the PINGRESP to the client's own PINGREQ makes the writer notice.
func (r *vfC16Run) stepWriteFailure() {
	fc := r.faults[r.live]
	variant := "ping"
	var topic string
	var filters []string
	for f := range r.sess.topics {
		filters = append(filters, f)
	}
	sort.Strings(filters)
	if len(filters) > 0 && rapid.IntRange(0, 3).Draw(r.rt, "wfVariant") > 0 {
		variant = "publish"
		topic = vfC16Instance(filters[0])
	}
	r.log("write-failure(%s noticed through %s)", r.live.Label, variant)
	r.vf.Class("step:write-failure-" + variant)
	if err := r.rig.Quiesce(); err != nil {
		r.inconclusive("quiesce", err)
	}
	bc := r.rig.registered(r.cid)
	fc.FailWrites()
	c := r.live
	if variant == "ping" {
		if err := c.write(packets.NewControlPacket(packets.Pingreq)); err != nil {
			r.liveFailed("write-failure", err)
			return
		}
	} else {
		r.probeSeq++
		if code := r.rig.Publish(topic, 0, fmt.Sprintf("lost%d", r.probeSeq)); code != 200 {
			r.inconclusive("http publish", fmt.Errorf("status %d", code))
		}
		if err := r.rig.FanoutBarrier(); err != nil {
			r.inconclusive("fan-out barrier", err)
		}
	}
	deadline := time.Now().Add(vfMqWait)
	for bc != nil && !bc.disconnected() {
		if time.Now().After(deadline) {
			r.inconclusive("write failure", fmt.Errorf("broker did not give up %s after its write failed", c.Label))
		}
		time.Sleep(200 * time.Microsecond)
	}
	// the reader of that connection normally still blocks (it went back to ReadPacket before the
	// writer failed): its end comes later, like a superseded connection's; sweep() notices if it
	// has ended already
	r.olds = append(r.olds, &vfC16Old{c: c, topics: map[string]byte{}})
	if err := r.rig.Quiesce(); err != nil {
		r.inconclusive("quiesce", err)
	}
	r.live = nil
	if r.sess != nil && r.sess.clean {
		r.sess = nil
	}
	r.deadRegistered = r.rig.registered(r.cid) != nil
}

// stepQueueFull: a SUBSCRIBE / UNSUBSCRIBE while the store is stalled and the broker-wide queue of
// session records is full (FillStoreQueue). The broker may make the client wait (the unchanged
// code blocks until there is room) or not; either way, once the store has caught up the stored
// record must hold the change (verify), because that record is what a later cleanSession=false
// connect gets.
func (r *vfC16Run) stepQueueFull() {
	isSub := rapid.IntRange(0, 2).Draw(r.rt, "queueFullSub?") < 2
	var fs []string
	var qs []byte
	if isSub {
		fs, qs = r.drawSubs(rapid.IntRange(1, 2).Draw(r.rt, "nFilters"))
		r.log("sub-while-store-queue-full(%s)", vfC16FmtSubs(fs, qs))
	} else {
		var held []string
		for f := range r.sess.topics {
			held = append(held, f)
		}
		sort.Strings(held)
		if len(held) > 0 {
			fs = []string{rapid.SampledFrom(held).Draw(r.rt, "filter")}
		} else {
			fs = []string{rapid.SampledFrom(vfC16Filters).Draw(r.rt, "filter")}
		}
		r.log("unsub-while-store-queue-full(%s)", fs[0])
	}
	r.vf.Class("step:session-change-while-store-queue-full")
	if err := r.rig.Quiesce(); err != nil {
		r.inconclusive("quiesce", err)
	}
	if err := r.rig.FillStoreQueue(); err != nil {
		r.inconclusive("fill store queue", err)
	}
	c := r.live
	id := c.newID()
	kind := byte(packets.Suback)
	var err error
	if isSub {
		err = c.write(vfMqSubscribePacket(id, fs, qs))
	} else {
		kind = packets.Unsuback
		err = c.write(vfMqUnsubscribePacket(id, fs))
	}
	if err != nil {
		r.liveFailed("write while store queue full", err)
		return
	}
	// until the broker has answered or sits in Session.store waiting for room in the queue
	deadline := time.Now().Add(vfMqWait)
	for {
		c.mu.Lock()
		acked, eof := c.countLocked(kind, int(id)) > 0, c.eof
		c.mu.Unlock()
		if acked {
			r.vf.Class("session-change-acknowledged-while-store-queue-full")
			break
		}
		if eof {
			r.liveFailed("session change while store queue full", fmt.Errorf("connection closed"))
			return
		}
		if vfMqInSessionStore() {
			r.vf.Class("session-change-waits-for-room-in-store-queue")
			break
		}
		if time.Now().After(deadline) {
			r.vf.Class("probe-unavailable:session-store-frame")
			break
		}
		time.Sleep(200 * time.Microsecond)
	}
	if err := r.rig.StoreFence(); err != nil { // the store recovers and catches up
		r.inconclusive("store fence", err)
	}
	if err := c.WaitAck(kind, id); err != nil {
		r.liveFailed("ack after store recovered", err)
		return
	}
	if isSub {
		r.applySub(fs, qs)
	} else {
		r.applyUnsub(fs)
	}
	r.queueFull = true
}

// stepEndParked ends the live connection like stepEnd, but the pipeline the broker runs for the
// Disconnect packet type when a connection is over (Client.close) is parked: the old connection's
// teardown stands still in the middle, for as long as the script likes, while the client id
// connects again. Releasing it later is that connection's "teardown" step.
func (r *vfC16Run) stepEndParked() {
	how := rapid.SampledFrom([]string{"halfclose", "disconnect"}).Draw(r.rt, "endHow")
	r.log("end(%s; its Disconnect pipeline is parked)", how)
	r.vf.Class("step:end-with-parked-disconnect-pipeline-" + how)
	if err := r.rig.Quiesce(); err != nil {
		r.inconclusive("quiesce", err)
	}
	c := r.live
	r.rig.DiscGate.Arm(r.cid)
	var err error
	if how == "disconnect" {
		err = c.Disconnect()
	} else {
		err = c.HalfClose()
	}
	if err != nil {
		r.rig.DiscGate.Release(r.cid)
		r.liveFailed("end", err)
		return
	}
	if err := r.rig.DiscGate.WaitParked(r.cid); err != nil {
		r.inconclusive("parked disconnect pipeline", err)
	}
	// whatever the teardown did before it entered the pipeline has its consequences now (store
	// writes, the delete event of a clean session's record)
	if err := r.rig.Quiesce(); err != nil {
		r.inconclusive("quiesce", err)
	}
	r.olds = append(r.olds, &vfC16Old{c: c, topics: map[string]byte{}, parked: true})
	r.live = nil
	if r.sess != nil && r.sess.clean {
		r.sess = nil
	}
	r.deadRegistered = r.rig.registered(r.cid) != nil
}

// stepEnd ends the live connection and waits until the broker finished its teardown.
func (r *vfC16Run) stepEnd() {
	how := rapid.SampledFrom([]string{"disconnect", "halfclose"}).Draw(r.rt, "endHow")
	r.log("end(%s)", how)
	r.vf.Class("step:end-" + how)
	var err error
	if how == "disconnect" {
		err = r.live.Disconnect()
	} else {
		err = r.live.HalfClose()
	}
	if err != nil {
		r.liveFailed("end", err)
		return
	}
	if !r.live.WaitEOF(vfMqWait) {
		r.inconclusive("end", fmt.Errorf("broker did not close the connection"))
	}
	// the read loop's deferred cleanup runs before handleConn closes the socket, except for the
	// removal from Broker.clients, which follows: wait for it
	deadline := time.Now().Add(vfMqWait)
	for r.rig.registered(r.cid) != nil {
		if time.Now().After(deadline) {
			r.violation("ended-connection-stays-registered", "the ended connection is still registered %v after the broker closed its socket", vfMqWait)
			return
		}
		time.Sleep(200 * time.Microsecond)
	}
	if err := r.rig.Quiesce(); err != nil {
		r.inconclusive("quiesce", err)
	}
	r.live = nil
	if r.sess != nil && r.sess.clean {
		r.sess = nil
	}
}

// stepTeardown lets a superseded connection's read loop notice its end, waits for EOF on it.
func (r *vfC16Run) stepTeardown() {
	i := rapid.IntRange(0, len(r.olds)-1).Draw(r.rt, "which")
	how := rapid.SampledFrom([]string{"ping", "halfclose"}).Draw(r.rt, "teardownHow")
	o := r.olds[i]
	r.olds = append(r.olds[:i:i], r.olds[i+1:]...)
	if o.parked {
		how = "release-of-its-disconnect-pipeline"
	}
	r.log("teardown(%s via %s)", o.c.Label, how)
	r.vf.Class("step:teardown-" + how)
	if r.subAfterTake {
		r.ntTeardown = true
		r.vf.Class("nontrivial:teardown-after-new-connection-subscribed")
	} else {
		r.vf.Class("teardown-before-new-connection-subscribed")
	}
	deadline := time.Now().Add(vfMqWait)
	if o.parked {
		r.rig.DiscGate.Release(r.cid)
		o.c.WaitEOF(vfMqWait)
	} else if how == "halfclose" {
		if err := o.c.HalfClose(); err != nil {
			r.inconclusive("teardown half-close", err)
		}
		o.c.WaitEOF(vfMqWait)
	} else {
		for !o.c.EOF() && time.Now().Before(deadline) {
			if err := o.c.write(packets.NewControlPacket(packets.Pingreq)); err != nil {
				break
			}
			o.c.WaitEOF(50 * time.Millisecond)
		}
		o.c.WaitEOF(vfMqWait)
	}
	if !o.c.EOF() {
		r.inconclusive("teardown", fmt.Errorf("broker did not close superseded connection %s", o.c.Label))
	}
	r.tornDown = true
}

// verify is the oracle; it runs after every step while a connection is live.
func (r *vfC16Run) verify() {
	if err := r.rig.Quiesce(); err != nil {
		r.inconclusive("quiesce", err)
	}
	c := r.live
	r.sweep()
	// --- the live connection is still there
	if _, err := c.Ping(); err != nil {
		if !c.EOF() {
			r.inconclusive("ping", err)
		}
		key := "connection-closed-by-broker"
		td := r.tdNow()
		if td {
			key = vfC16KeyTdClosed
		}
		r.violation(key, "the broker closed the live connection %s", c.Label)
		if td && r.abandon && !r.sess.clean {
			if _, ok := r.rig.store.sessionTopics(r.cid); !ok {
				r.violation(vfC16KeyTdStore, "the stored record of the live (non-clean) session is gone after the superseded connection's teardown")
			}
		}
		r.abandon = true
		return
	}
	// --- registration, session entry
	bc := r.rig.registered(r.cid)
	if bc == nil || bc.conn.RemoteAddr().String() != c.LocalAddr() {
		key := "live-connection-not-registered"
		if r.tdNow() {
			key = vfC16KeyTdUnreg
		}
		r.violation(key, "Broker.clients[%s] is not the live connection %s (registered: %v)", r.cid, c.Label, bc != nil)
	}
	if bc != nil {
		v, ok := r.rig.broker.sessMgr.sessionMap.Load(r.cid)
		if !ok || v.(*Session) != bc.session {
			key := "live-session-not-in-session-map"
			if r.tdNow() {
				key = vfC16KeyTdSess
			}
			r.violation(key, "the session manager has no entry for the live connection's session (entry present: %v)", ok)
		}
	}
	// --- stored record
	if stored, ok := r.rig.store.sessionTopics(r.cid); !ok {
		key := "session-record-missing"
		if r.tdNow() {
			key = vfC16KeyTdStore
		}
		r.violation(key, "no stored record for the live session")
	} else if !vfC16SameTopics(stored, r.sess.topics) {
		key := "session-store-stale"
		if r.pipelined {
			key = vfC16KeyReorder
		}
		if r.queueFull {
			key = "session-change-made-while-store-queue-full-not-in-stored-record"
		}
		r.violation(key, "stored record %v differs from the session's subscriptions %v after all writes were applied", stored, r.sess.topics)
	}
	r.pipelined, r.queueFull = false, false
	// --- routing entries of the model's filters
	var modelFilters []string
	for f := range r.sess.topics {
		modelFilters = append(modelFilters, f)
	}
	sort.Strings(modelFilters)
	for _, f := range modelFilters {
		if !r.rig.routed(r.cid, vfC16Instance(f)) {
			r.violation(r.lostKey(f), "filter %s of the live session is not routed to %s any more", f, r.cid)
			break
		}
	}
	if r.abandon {
		return
	}
	// --- probes
	type probe struct {
		topic, payload string
		q              int
		expect         bool
		stale          bool
		by             string
	}
	var probes []probe
	for _, t := range vfC16Topics {
		p := probe{topic: t, q: 2}
		for _, f := range modelFilters {
			if vfMqMatch(f, t) {
				p.expect = true
				if p.by == "" {
					p.by = f
				}
				if int(r.sess.topics[f]) < p.q {
					p.q = int(r.sess.topics[f])
				}
			}
		}
		for _, o := range r.olds {
			for f, q := range o.topics {
				if vfMqMatch(f, t) {
					p.stale = true
					if int(q) < p.q {
						p.q = int(q)
					}
				}
			}
		}
		if p.q == 2 {
			p.q = 1
		}
		// any QoS up to the lowest matching subscription QoS is eligible whatever entry the trie reports
		p.q = rapid.IntRange(0, p.q).Draw(r.rt, "probeQoS")
		r.probeSeq++
		p.payload = fmt.Sprintf("probe%d", r.probeSeq)
		probes = append(probes, p)
	}
	for _, p := range probes {
		if code := r.rig.Publish(p.topic, p.q, p.payload); code != 200 {
			r.inconclusive("http publish", fmt.Errorf("status %d", code))
		}
	}
	if err := r.rig.FanoutBarrier(); err != nil {
		r.inconclusive("fan-out barrier", err)
	}
	if _, err := c.Ping(); err != nil {
		if !c.EOF() {
			r.inconclusive("ping", err)
		}
		key := "connection-closed-by-broker"
		if r.tdNow() {
			key = vfC16KeyTdClosed
		}
		r.violation(key, "the broker closed the live connection %s while probes were delivered", c.Label)
		r.abandon = true
		return
	}
	for _, p := range probes {
		got := len(c.Publishes(p.payload)) > 0
		switch {
		case p.expect && got:
			r.vf.Class(fmt.Sprintf("probe:delivered-q%d", p.q))
		case !p.expect && !got:
			r.vf.Class("probe:not-subscribed-not-delivered")
		case p.expect && !got:
			r.violation(r.lostKey(p.by), "probe %s@%d (%s) matches live filter %s but was not delivered", p.topic, p.q, p.payload, p.by)
			return
		default:
			key := "delivered-without-subscription"
			if p.stale {
				key = vfC16KeyStale
			} else if r.freshAfter {
				key = "fresh-session-kept-subscriptions"
			}
			r.violation(key, "probe %s@%d (%s) was delivered although the live session has no matching filter", p.topic, p.q, p.payload)
			// known: the superseded session's filters stay routed until its teardown; keep going
			r.abandon = false
			r.vf.Class("known-stale-routing-tolerated")
		}
	}
}

func (r *vfC16Run) lostKey(filter string) string {
	switch {
	case r.tdNow():
		return vfC16KeyTdUnsub
	case r.restored[filter]:
		return "reconnect-lost-subscriptions"
	}
	return "subscription-lost"
}

func vfC16SameTopics(stored map[string]int, model map[string]byte) bool {
	if len(stored) != len(model) {
		return false
	}
	for f, q := range model {
		if sq, ok := stored[f]; !ok || sq != int(q) {
			return false
		}
	}
	return true
}

// stepAdminDelete: deleting the session through the admin endpoint disconnects the client.
func (r *vfC16Run) stepAdminDelete() {
	r.log("admin-delete")
	r.vf.Class("step:admin-delete")
	if code := r.rig.DeleteSessions(r.cid); code != 200 {
		r.inconclusive("admin delete", fmt.Errorf("status %d", code))
	}
	// The delete event reaches the broker's watcher some time after the record was deleted. Until
	// then the client, still connected, may go on changing its session; those writes re-create the
	// record. The delete still has to disconnect the client.
	between := rapid.IntRange(0, 2).Draw(r.rt, "stepsBeforeDeleteEvent")
	for i := 0; i < between && !r.abandon && r.live != nil && !r.live.EOF(); i++ {
		if rapid.Bool().Draw(r.rt, "subOrUnsub") {
			r.stepSub()
		} else {
			r.stepUnsub()
		}
		if err := r.rig.StoreFence(); err != nil {
			r.inconclusive("store fence", err)
		}
	}
	if between > 0 {
		r.log("(delete event delivered now)")
		r.vf.Class("session-changed-between-admin-delete-and-its-event")
		if _, ok := r.rig.store.sessionTopics(r.cid); ok {
			r.vf.Class("record-recreated-before-delete-event")
		}
	}
	if r.abandon || r.live == nil {
		return
	}
	if _, err := r.rig.FlushWatch(); err != nil {
		r.inconclusive("flush watch", err)
	}
	// The broker's read loop notices the end when the next packet of the client arrives: keep
	// pinging like a keep-alive would. Bounded liveness: 20 s (nothing in that path sleeps).
	deadline := time.Now().Add(20 * time.Second)
	for !r.live.EOF() && time.Now().Before(deadline) {
		if err := r.live.write(packets.NewControlPacket(packets.Pingreq)); err != nil {
			break
		}
		r.live.WaitEOF(50 * time.Millisecond)
	}
	if !r.live.WaitEOF(time.Until(deadline)) && !r.live.EOF() {
		r.violation("admin-delete-did-not-disconnect-client", "connection %s is still served 20 s after its session was deleted through the admin endpoint", r.live.Label)
		return
	}
	if bc := r.rig.registered(r.cid); bc != nil && bc.conn.RemoteAddr().String() == r.live.LocalAddr() {
		r.violation("admin-delete-left-client-registered", "connection %s was closed but is still registered after its session was deleted", r.live.Label)
		return
	}
	r.vf.Class("admin-delete-disconnected-client")
	if strings.Contains(r.cid, "/") {
		r.vf.Class("admin-delete-disconnected-client-whose-id-contains-slash")
	}
	r.live = nil
}

// vfC16DrawID picks the script's client id with three unbiased bits.
func vfC16DrawID(rt *rapid.T) string {
	i := 0
	for _, b := range rapid.SliceOfN(rapid.Bool(), 3, 3).Draw(rt, "idBits") {
		i <<= 1
		if b {
			i |= 1
		}
	}
	return vfC16IDs[i%len(vfC16IDs)]
}

func TestVerifC16Sessions(t *testing.T) {
	vf := vfBegin(t, "C16")
	defer vf.End()
	rapid.Check(t, func(rt *rapid.T) {
		// half of the brokers have a pipeline for the Disconnect packet type (the option is rare in
		// deployments, but then every end of a connection runs through it)
		withDisc := rapid.SliceOfN(rapid.Bool(), 1, 1).Draw(rt, "disconnectPipelineBit")[0]
		rig, err := vfMqNewRigGate(nil, withDisc)
		if err != nil {
			rt.Fatalf("VF-INCONCLUSIVE start broker: %v", err)
		}
		defer rig.Close()
		r := &vfC16Run{rt: rt, vf: vf, rig: rig, restored: map[string]bool{}, faults: map[*vfMqClient]*vfMqFaultConn{}, withDisc: withDisc}
		if withDisc {
			vf.Class("broker-with-disconnect-pipeline")
			r.log("disconnect-pipeline=configured")
		}
		r.cid = vfC16DrawID(rt)
		r.log("id=%q", r.cid)
		if strings.Contains(r.cid, "/") {
			vf.Class("client-id-contains-slash")
		} else {
			vf.Class("client-id-without-slash")
		}
		nSteps := rapid.IntRange(3, 12).Draw(rt, "nSteps")
		for r.steps = 0; r.steps < nSteps && !r.abandon; r.steps++ {
			r.sweep()
			if r.live == nil {
				if rapid.IntRange(0, 5).Draw(rt, "failedAttempt?") == 0 {
					r.stepFailedConnect()
				} else {
					cleanBelow := 4
					if r.deadRegistered {
						cleanBelow = 2 // the interesting follow-up of a dead registered connection is a restoring reconnect
					}
					r.connect(rapid.IntRange(0, 9).Draw(rt, "clean") < cleanBelow, false)
				}
			} else {
				ops := []string{"sub", "sub", "sub", "unsub", "unsub", "pipelined", "queue-full", "end", "end"}
				if len(r.olds) < 2 {
					ops = append(ops, "takeover", "takeover")
				}
				parkedOld := false
				for _, o := range r.olds {
					parkedOld = parkedOld || o.parked
				}
				if r.withDisc && !parkedOld && len(r.olds) < 2 {
					ops = append(ops, "end-parked", "end-parked", "end-parked")
				}
				if r.faults[r.live] != nil && len(r.olds) < 2 {
					ops = append(ops, "write-failure", "write-failure", "write-failure")
				}
				if len(r.olds) > 0 {
					if r.subAfterTake {
						ops = append(ops, "teardown", "teardown", "teardown", "teardown", "teardown")
					} else {
						ops = append(ops, "teardown", "sub", "sub", "sub", "sub")
					}
				}
				switch rapid.SampledFrom(ops).Draw(rt, "op") {
				case "sub":
					r.stepSub()
				case "unsub":
					r.stepUnsub()
				case "pipelined":
					r.stepPipelined()
				case "queue-full":
					r.stepQueueFull()
				case "end-parked":
					r.stepEndParked()
				case "end":
					r.stepEnd()
				case "takeover":
					r.connect(rapid.IntRange(0, 9).Draw(rt, "clean") < 4, true)
				case "teardown":
					r.stepTeardown()
				case "write-failure":
					r.stepWriteFailure()
				}
			}
			if r.live != nil && !r.abandon {
				r.verify()
			}
		}
		// every superseded connection ends at some point: let the remaining ones end now
		for r.sweep(); len(r.olds) > 0 && !r.abandon; r.sweep() {
			if r.live == nil {
				// nothing to protect any more; just end them
				for _, o := range r.olds {
					if o.parked {
						r.rig.DiscGate.Release(r.cid)
					} else {
						o.c.HalfClose()
					}
					o.c.WaitEOF(vfMqWait)
				}
				r.olds = nil
				break
			}
			r.stepTeardown()
			if !r.abandon {
				r.verify()
			}
		}
		if r.live != nil && !r.abandon && rapid.IntRange(0, 2).Draw(rt, "adminDelete?") == 0 {
			r.stepAdminDelete()
		}
		if r.abandon {
			vf.Class("case-abandoned-at-known-finding")
		}
		if rig.SawDelete > 0 {
			vf.Class("barrier-saw-deleteSession-goroutine")
		}
		if rig.SawStore > 0 {
			vf.Class("barrier-saw-session-store-goroutine")
		}
		if r.ntRestore {
			vf.Class("nontrivial:non-clean-reconnect-with-subscriptions")
		}
		vf.Case(r.ntTeardown || r.ntRestore || r.ntDead, r.describe(), func() interface{} {
			return map[string]interface{}{"script": r.describe(), "abandoned_at_known_finding": r.abandon}
		})
	})
}
