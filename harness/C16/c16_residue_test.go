//go:build go1.21

package mqttproxy

import "testing"

// TestVerifC16Residue: what is left of a client id after each way its connection can end
// (client DISCONNECT, socket drop, admin / store session delete, pipeline disconnect, takeover)
// and what a later connection of that id gets; see shared/mqttrig/vfmqresidue_test.go.
func TestVerifC16Residue(t *testing.T) { vfMqResidueCheck(t, "C16") }
