//go:build go1.21

package mqttproxy

// C16, clause "with cleanSession=true the previous session is discarded", for the part of a
// session that is in flight: a QoS1 message the old connection has not acknowledged.
//
// Script: connect A (clean drawn), subscribe one filter at QoS1, never acknowledge; 1-2 QoS1
// messages are published and arrive on A (optionally one retransmission is awaited too); then a
// second CONNECT with the same id takes over while A is still registered.
//   * discarding CONNECT (cleanSession=true, or cleanSession=false over a clean previous session):
//     the new connection must receive nothing of the discarded session. Observed over 5 resend
//     ticks after a PINGRESP fence; one copy that was already in flight at CONNECT time is tolerated.
//   * continuing CONNECT (both not clean): the session goes on, so the unacknowledged message must
//     be retransmitted to the new connection (bounded liveness, 75 ticks).

import (
	"fmt"
	"testing"
	"time"

	"github.com/eclipse/paho.mqtt.golang/packets"
	"pgregory.net/rapid"
)

func TestVerifC16Discard(t *testing.T) {
	vf := vfBegin(t, "C16")
	defer vf.End()
	rapid.Check(t, func(rt *rapid.T) {
		cleanA := rapid.Bool().Draw(rt, "cleanA")
		cleanB := rapid.Bool().Draw(rt, "cleanB")
		filter := rapid.SampledFrom([]string{"a", "a/+", "a/#", "#"}).Draw(rt, "filter")
		topic := vfC16Instance(filter)
		nMsgs := rapid.IntRange(1, 2).Draw(rt, "nMsgs")
		awaitResend := rapid.Bool().Draw(rt, "awaitOneRetransmissionFirst")
		resub := rapid.Bool().Draw(rt, "newConnectionSubscribesAgain")
		oldEnds := rapid.SampledFrom([]string{"stays-open", "halfclose", "ping"}).Draw(rt, "oldConnection")
		discards := cleanB || cleanA
		caseStr := fmt.Sprintf("A(clean=%v) sub %s@1, %d unacked QoS1 on %s, awaitResend=%v; takeover B(clean=%v) resub=%v old=%s", cleanA, filter, nMsgs, topic, awaitResend, cleanB, resub, oldEnds)
		fail := func(what string, err error) { rt.Fatalf("VF-INCONCLUSIVE %s: %v\ncase: %s", what, err, caseStr) }

		rig, err := vfMqNewRig(nil)
		if err != nil {
			fail("start broker", err)
		}
		defer rig.Close()
		a, err := rig.Dial("A")
		if err != nil {
			fail("dial", err)
		}
		a.SetPolicy(func(uint16, int, int) bool { return false })
		if code, err := a.Connect(vfC16CID, cleanA); err != nil || code != packets.Accepted {
			fail("connect A", fmt.Errorf("code=%d err=%v", code, err))
		}
		if err := a.Subscribe([]string{filter}, []byte{1}); err != nil {
			fail("subscribe", err)
		}
		var payloads []string
		for i := 0; i < nMsgs; i++ {
			p := fmt.Sprintf("old%d", i)
			payloads = append(payloads, p)
			if code := rig.Publish(topic, 1, p); code != 200 {
				fail("http publish", fmt.Errorf("status %d", code))
			}
		}
		if err := rig.FanoutBarrier(); err != nil {
			fail("barrier", err)
		}
		if _, err := a.Ping(); err != nil {
			fail("ping A", err)
		}
		for _, p := range payloads {
			if len(a.Publishes(p)) == 0 {
				vf.Violation(rt, "subscription-not-delivered", "A did not get %s\ncase: %s\nA: %s", p, caseStr, vfMqFmtEvents(a.Events()))
				return
			}
		}
		if awaitResend {
			if !a.waitFor(vfMqResendBound, func() bool {
				n := 0
				for _, e := range a.events {
					if e.Kind == packets.Publish {
						n++
					}
				}
				return n > nMsgs
			}) {
				vf.Violation(rt, "qos1-not-retransmitted-while-unacknowledged", "no retransmission to A within %v\ncase: %s", vfMqResendBound, caseStr)
				return
			}
		}
		if err := rig.Quiesce(); err != nil {
			fail("quiesce", err)
		}
		oldBroker := rig.registered(vfC16CID)
		b, err := rig.Dial("B")
		if err != nil {
			fail("dial", err)
		}
		b.SetPolicy(func(uint16, int, int) bool { return false })
		if code, err := b.Connect(vfC16CID, cleanB); err != nil || code != packets.Accepted {
			fail("connect B", fmt.Errorf("code=%d err=%v", code, err))
		}
		deadline := time.Now().Add(vfMqWait)
		for oldBroker != nil && !oldBroker.disconnected() {
			if time.Now().After(deadline) {
				fail("takeover", fmt.Errorf("superseded connection never flagged"))
			}
			time.Sleep(200 * time.Microsecond)
		}
		if resub && discards {
			if err := b.Subscribe([]string{filter}, []byte{1}); err != nil {
				fail("subscribe B", err)
			}
		}
		switch oldEnds {
		case "halfclose":
			a.HalfClose()
			a.WaitEOF(vfMqWait)
		case "ping":
			for !a.EOF() && time.Now().Before(deadline) {
				if a.write(packets.NewControlPacket(packets.Pingreq)) != nil {
					break
				}
				a.WaitEOF(50 * time.Millisecond)
			}
		}
		pos, err := b.Ping()
		if err != nil {
			if b.EOF() {
				vf.Violation(rt, "connection-closed-by-broker", "B was closed by the broker\ncase: %s", caseStr)
				return
			}
			fail("ping B", err)
		}
		vf.Class(fmt.Sprintf("discarding-connect=%v", discards), "old-connection:"+oldEnds)
		if discards {
			time.Sleep(5 * vfMqResendTick)
			if _, err := b.Ping(); err != nil && !b.EOF() {
				fail("ping B", err)
			}
			evs := b.Events()
			total, late := 0, 0
			for i, e := range evs {
				if e.Kind == packets.Publish {
					total++
					if i >= pos {
						late++
					}
				}
			}
			// nothing was published after the takeover: every PUBLISH B sees belongs to the discarded session
			if total > 1 || late > 0 && total > 1 {
				vf.Violation(rt, "discarded-session-keeps-retransmitting-to-new-connection",
					"B got %d PUBLISH packets of the discarded session (%d of them after its first PINGRESP)\ncase: %s\nB: %s", total, late, caseStr, vfMqFmtEvents(evs))
				return
			}
			if total == 1 {
				vf.Class("ambiguous-one-copy-in-flight-at-connect-time")
			}
		} else {
			// the session continues: its oldest unacknowledged message keeps coming, now to B
			if !b.waitFor(vfMqResendBound, func() bool {
				for _, e := range b.events {
					// the oldest unacknowledged one; which of the published messages that is depends on the
					// order in which their fan-out goroutines ran
					if e.Kind == packets.Publish && (e.Payload == payloads[0] || e.Payload == payloads[len(payloads)-1]) {
						return true
					}
				}
				return false
			}) {
				vf.Violation(rt, "continued-session-stops-retransmitting-after-takeover", "B (session continued) got no retransmission of %v within %v\ncase: %s\nB: %s", payloads, vfMqResendBound, caseStr, vfMqFmtEvents(b.Events()))
				return
			}
		}
		vf.Case(true, "discard|"+caseStr, func() interface{} { return map[string]interface{}{"test": "discard", "case": caseStr} })
	})
}
