//go:build go1.21

package mqttproxy

// Standalone reproductions of the genuine C16 defects (not part of the driver's run regexp).
// Each test FAILS while the defect is present and passes once it is repaired.
//   /verif/build/C16/C16-*.test -test.run 'TestVerifReproC16' -test.v

import (
	"fmt"
	"testing"

	"github.com/eclipse/paho.mqtt.golang/packets"
)

func vfC16ReproConnect(t *testing.T, rig *vfMqRig, label string, clean bool) *vfMqClient {
	c, err := rig.Dial(label)
	if err != nil {
		t.Fatalf("dial: %v", err)
	}
	if code, err := c.Connect(vfC16CID, clean); err != nil || code != packets.Accepted {
		t.Fatalf("connect: %v %v", code, err)
	}
	if _, err := c.Ping(); err != nil {
		t.Fatalf("ping: %v", err)
	}
	return c
}

func vfC16ReproGot(t *testing.T, rig *vfMqRig, c *vfMqClient, topic, payload string) bool {
	rig.Publish(topic, 0, payload)
	if err := rig.FanoutBarrier(); err != nil {
		t.Fatal(err)
	}
	if _, err := c.Ping(); err != nil {
		return false
	}
	return len(c.Publishes(payload)) > 0
}

// connect(clean) ; second CONNECT with the same id (non-clean) subscribes "a" ; the first socket
// ends. The first connection's deferred cleanup then removes the second connection's session
// entry, its subscription, its stored record, and (through the delete watcher) closes it.
func TestVerifReproC16TakeoverTeardown(t *testing.T) {
	for _, oldClean := range []bool{true, false} {
		t.Run(fmt.Sprintf("oldClean=%v", oldClean), func(t *testing.T) {
			rig, err := vfMqNewRig(nil)
			if err != nil {
				t.Fatal(err)
			}
			defer rig.Close()
			a := vfC16ReproConnect(t, rig, "A", oldClean)
			if err := a.Subscribe([]string{"a"}, []byte{1}); err != nil {
				t.Fatal(err)
			}
			b := vfC16ReproConnect(t, rig, "B", false)
			if err := b.Subscribe([]string{"a"}, []byte{1}); err != nil {
				t.Fatal(err)
			}
			rig.Quiesce()
			if !vfC16ReproGot(t, rig, b, "a", "before") {
				t.Fatalf("B does not receive before the old teardown")
			}
			// the network connection of A dies now (the broker reads EOF)
			a.HalfClose()
			if !a.WaitEOF(vfMqWait) {
				t.Fatal("broker did not close A")
			}
			rig.Quiesce()
			if _, ok := rig.broker.sessMgr.sessionMap.Load(vfC16CID); !ok {
				t.Errorf("B's session entry was removed by A's teardown")
			}
			if _, ok := rig.store.sessionTopics(vfC16CID); !ok {
				t.Errorf("B's stored session record was deleted by A's teardown")
			}
			if !rig.routed(vfC16CID, "a") {
				t.Errorf("B's subscription to a was removed from the trie by A's teardown")
			}
			if !vfC16ReproGot(t, rig, b, "a", "after") {
				t.Errorf("B no longer receives topic a after A's teardown (B closed by broker: %v)", b.EOF())
			}
		})
	}
}

// connect(clean=false) subscribes a/# ; second CONNECT same id with clean=true: the new clean
// session must start without subscriptions but keeps receiving a/b.
func TestVerifReproC16StaleRouting(t *testing.T) {
	rig, err := vfMqNewRig(nil)
	if err != nil {
		t.Fatal(err)
	}
	defer rig.Close()
	a := vfC16ReproConnect(t, rig, "A", false)
	if err := a.Subscribe([]string{"a/#"}, []byte{0}); err != nil {
		t.Fatal(err)
	}
	b := vfC16ReproConnect(t, rig, "B", true)
	if vfC16ReproGot(t, rig, b, "a/b", "x") {
		t.Errorf("B connected with cleanSession=true and never subscribed, yet it receives a/b (filter a/# of the superseded session is still routed)")
	}
}

// A client writes UNSUBSCRIBE #, UNSUBSCRIBE a/b, SUBSCRIBE a/+ in one TCP segment. After all
// writes have been applied the stored record must contain a/+.
func TestVerifReproC16StoreReorder(t *testing.T) {
	bad := 0
	const rounds = 200
	for i := 0; i < rounds; i++ {
		rig, err := vfMqNewRig(nil)
		if err != nil {
			t.Fatal(err)
		}
		c := vfC16ReproConnect(t, rig, "A", false)
		rig.Quiesce()
		if err := c.write(vfMqUnsubscribePacket(1, []string{"#"}), vfMqUnsubscribePacket(2, []string{"a/b"}), vfMqSubscribePacket(3, []string{"a/+"}, []byte{1})); err != nil {
			t.Fatal(err)
		}
		if err := c.WaitAck(packets.Suback, 3); err != nil {
			t.Fatal(err)
		}
		if err := rig.StoreFence(); err != nil {
			t.Fatal(err)
		}
		topics, _ := rig.store.sessionTopics(vfC16CID)
		if _, ok := topics["a/+"]; !ok {
			bad++
		}
		rig.Close()
	}
	if bad > 0 {
		t.Errorf("in %d of %d rounds the stored session lacks a/+ after all writes were applied (an older snapshot was written last)", bad, rounds)
	}
}
