//go:build go1.21

package mqttproxy

// Reproduction of the finding of the broker-residue check on HEAD 5143b19 (key
// older-connection-end-dropped-pending-session:its-filters-routed-to-next-connection).
// FAILS while the defect is present.   <C16 test binary> -test.run TestVerifReproC16LostEntry -test.v

import (
	"testing"

	"github.com/eclipse/paho.mqtt.golang/packets"
)

func TestVerifReproC16LostEntry(t *testing.T) {
	rig, err := vfMqNewRig(nil)
	if err != nil {
		t.Fatal(err)
	}
	defer rig.Close()
	conn := func(label string, clean bool) *vfMqClient {
		c, err := rig.Dial(label)
		if err != nil {
			t.Fatal(err)
		}
		if code, err := c.Connect("d1", clean); err != nil || code != packets.Accepted {
			t.Fatalf("connect: %v %v", code, err)
		}
		if _, err := c.Ping(); err != nil {
			t.Fatal(err)
		}
		return c
	}
	c1 := conn("c1", true)
	c2 := conn("c2", false) // takes over; c1's read loop stays in ReadPacket
	if err := c2.Subscribe([]string{"b"}, []byte{1}); err != nil {
		t.Fatal(err)
	}
	rig.Quiesce()
	rig.DeleteSessions("d1") // broker closes and unregisters c2; its socket stays open
	rig.FlushWatch()
	c1.HalfClose() // the first connection ends now: nobody is registered for d1
	if !c1.WaitEOF(vfMqWait) {
		t.Fatal("broker did not close c1")
	}
	rig.Quiesce()
	c3 := conn("c3", true) // fresh clean client reusing the id, never subscribes
	rig.Quiesce()
	if rig.routed("d1", "b") {
		t.Errorf("findSubscribers(b) contains d1 although its only live connection (clean session) never subscribed")
	}
	if vfC16ReproGot(t, rig, c3, "b", "x") {
		t.Errorf("the fresh clean connection received topic b without subscribing")
	}
	c2.HalfClose() // the broker-closed connection ends at last
	c2.WaitEOF(vfMqWait)
	rig.Quiesce()
	if rig.routed("d1", "b") {
		t.Errorf("after every older connection ended, findSubscribers(b) still contains d1")
	}
}
