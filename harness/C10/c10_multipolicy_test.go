//go:build go1.21

package proxy

import (
	"fmt"
	"strings"
	"testing"
	"time"

	"github.com/megaease/easegress/pkg/resilience"
	"pgregory.net/rapid"
)

// vfC10GenRetryWithUnset: a Retry policy spec in which every field is left out with probability
// 1/3 (the documented default then applies: maxAttempts 3, waitDuration 500ms, backOffPolicy random,
// randomizationFactor 0).
func vfC10GenRetryWithUnset(rt *rapid.T, label string) vfC10RetrySpec {
	p := vfC10RetrySpec{
		MaxAttempts: rapid.IntRange(1, 5).Draw(rt, label+"maxAttempts"),
		Wait:        time.Duration(rapid.IntRange(1, 6).Draw(rt, label+"waitMs")) * time.Millisecond,
		Factor:      rapid.SampledFrom([]float64{0, 0.5, 1, 0.25}).Draw(rt, label+"factor"),
		BackOff:     rapid.SampledFrom([]string{"random", "exponential"}).Draw(rt, label+"backOff"),
	}
	unset := func(f string) bool { return rapid.IntRange(0, 2).Draw(rt, label+"unset-"+f) == 0 }
	if unset("maxAttempts") {
		p.UnsetMax, p.MaxAttempts = true, 3
	}
	if unset("waitDuration") {
		p.UnsetWait, p.Wait = true, 500*time.Millisecond
	}
	if unset("backOffPolicy") {
		p.UnsetBackOff, p.BackOff = true, "random"
	}
	if unset("randomizationFactor") {
		p.UnsetFactor, p.Factor = true, 0
	}
	return p
}

// TestVerifC10MultiPolicy: a pipeline lists SEVERAL Retry policies with different settings (some
// fields left unset). All of them are created from raw specs through resilience.NewPolicy before any
// is used; then one pool per policy is exercised in a drawn order and every request is judged against
// the settings of ITS OWN policy: maxAttempts, back-off lower bound (incl. the 500 ms default), early
// stop, last-attempt outcome.
//
// A policy whose waitDuration is unset waits >= 500 ms * (1 - factor): such a pool only gets requests
// that succeed at once, or that are cancelled 1 % of the base wait (5 ms) after attempt 0 answered, so
// that no case sleeps for long (an attempt 1 before the cancellation is then a back-off that was too
// short).
func TestVerifC10MultiPolicy(t *testing.T) {
	vf := vfBegin(t, "C10")
	defer vf.End()
	defer vfC10Install()()
	rapid.Check(t, func(rt *rapid.T) {
		k := rapid.IntRange(2, 4).Draw(rt, "policies")
		specs := make([]vfC10PoolSpec, k)
		for i := range specs {
			label := fmt.Sprintf("p%d-", i)
			specs[i] = vfC10PoolSpec{Retry: vfC10GenRetryWithUnset(rt, label), FailureCodes: vfC10GenFailureCodes(rt)}
			if rapid.IntRange(0, 4).Draw(rt, label+"hasTimeout") == 0 {
				specs[i].TimeoutMs = rapid.IntRange(5, 20).Draw(rt, label+"timeoutMs")
			}
		}
		// all policies first (as Pipeline does) ...
		policies := map[string]resilience.Policy{}
		for i := range specs {
			vfC10BuildPolicies(rt, specs[i], fmt.Sprintf("-%d", i), policies)
		}
		// ... then the filters that use them
		envs := make([]*vfC10Env, k)
		for i := range specs {
			envs[i] = vfC10NewProxy(rt, specs[i], fmt.Sprintf("-%d", i), policies)
			defer envs[i].close()
		}
		// exercise every pool at least once, in a drawn order
		order := rapid.Permutation(func() []int {
			o := make([]int, k)
			for i := range o {
				o[i] = i
			}
			return o
		}()).Draw(rt, "order")
		for extra := rapid.IntRange(0, 2).Draw(rt, "extraRequests"); extra > 0; extra-- {
			order = append(order, rapid.IntRange(0, k-1).Draw(rt, "extraPool"))
		}
		last := specs[k-1]
		var hist, keyHist []string
		nontrivial := false
		unsetSeen := map[string]bool{}
		for step, pi := range order {
			ps := specs[pi]
			plan := vfC10Req{Cancel: vfC10Cancel{Mode: "none"}}
			plan.Stream = rapid.IntRange(0, 7).Draw(rt, "stream") == 0
			plan.Script = vfC10GenScript(rt, ps, func(int) bool { return ps.TimeoutMs > 0 })
			if rapid.IntRange(0, 2).Draw(rt, "allFail") > 0 {
				for i := range plan.Script {
					if ps.success(plan.Script[i]) {
						plan.Script[i] = vfC10Outcome{Kind: "code", Code: ps.FailureCodes[0]}
					}
				}
			}
			if ps.Retry.UnsetWait && !ps.success(plan.Script[0]) && !plan.Stream {
				// the default back-off is 500 ms: the client gives up 5 ms into it
				plan.Cancel = vfC10Cancel{Mode: "after", At: 0, DelayPct: 1}
				if plan.Script[0].Kind == "block" && ps.TimeoutMs == 0 {
					plan.Script[0] = vfC10Outcome{Kind: "neterr"}
				}
				vf.Class("multipolicy-default-wait-cut-short-by-cancel")
			}
			if ps.Retry.UnsetWait && plan.Stream && !ps.success(plan.Script[0]) {
				// a failed stream request is not retried, but the retry loop is not entered either
				plan.Stream = false
				plan.Cancel = vfC10Cancel{Mode: "after", At: 0, DelayPct: 1}
				if plan.Script[0].Kind == "block" && ps.TimeoutMs == 0 {
					plan.Script[0] = vfC10Outcome{Kind: "neterr"}
				}
			}
			plan.Body = vfC10GenBody(rt, plan.Stream)
			res := envs[pi].do(plan)
			if res.Hung {
				vfC10Inconclusive(rt, fmt.Sprintf("step %d (pool %d)", step, pi), ps, plan, res)
			}
			hist = append(hist, fmt.Sprintf("step %d: pool %d (%s)\n  %s\n%s", step, pi, ps, plan, res.ledger(true)))
			keyHist = append(keyHist, fmt.Sprintf("%d:%s:%s:%s", pi, ps, plan, res.ledger(false)))
			vfC10Classes(vf, ps, plan, res)
			// would the settings of the policy created LAST have given another ledger?
			asLast := ps
			asLast.Retry = last.Retry
			if pi != k-1 && (len(res.Attempts) >= 2 || vfC10ExpectedAttempts(ps, plan) != vfC10ExpectedAttempts(asLast, plan) ||
				(plan.Cancel.Mode == "after" && ps.Retry.lowerBound(0) != last.Retry.lowerBound(0))) {
				nontrivial = true
				vf.Class("multipolicy-request-on-earlier-policy-distinguishable-from-last")
			}
			for f, u := range map[string]bool{"maxAttempts": ps.Retry.UnsetMax, "waitDuration": ps.Retry.UnsetWait, "backOffPolicy": ps.Retry.UnsetBackOff, "randomizationFactor": ps.Retry.UnsetFactor} {
				if u {
					unsetSeen[f] = true
				}
			}
			var all []string
			for i := range specs {
				all = append(all, fmt.Sprintf("  policy %d (created %d. of %d): %s", i, i+1, k, specs[i]))
			}
			ok := vfC10Judge(vf, ps, plan, res, func(key, format string, args ...interface{}) bool {
				vf.Violation(rt, key, "policies of the pipeline, in creation order (all created through resilience.NewPolicy before any was used):\n%s\nhistory:\n%s\n%s",
					strings.Join(all, "\n"), strings.Join(hist, "\n"), fmt.Sprintf(format, args...))
				return false
			})
			if !ok {
				return
			}
		}
		vf.Class(fmt.Sprintf("multipolicy-policies=%d", k))
		for _, f := range []string{"maxAttempts", "waitDuration", "backOffPolicy", "randomizationFactor"} {
			if unsetSeen[f] {
				vf.Class("multipolicy-exercised-policy-with-unset-" + f)
			}
		}
		var ss []string
		for i := range specs {
			ss = append(ss, specs[i].String())
		}
		vf.Case(nontrivial, strings.Join(ss, "|")+"||"+strings.Join(keyHist, "|"), func() interface{} {
			return map[string]interface{}{"policies_in_creation_order": ss, "history": hist}
		})
	})
}
