//go:build go1.21

package proxy

import (
	"fmt"
	"net/http"
	"strings"
	"testing"
	"time"

	"pgregory.net/rapid"
)

func vfC10Install() func() {
	saved := fnSendRequest
	fnSendRequest = vfC10Send
	return func() { fnSendRequest = saved }
}

func vfC10GenPool(rt *rapid.T, timeoutPct int, neverOpeningBreakerPct int) vfC10PoolSpec {
	ps := vfC10PoolSpec{Retry: vfC10GenRetry(rt), FailureCodes: vfC10GenFailureCodes(rt)}
	if rapid.IntRange(0, 99).Draw(rt, "hasTimeout") < timeoutPct {
		ps.TimeoutMs = rapid.IntRange(5, 20).Draw(rt, "timeoutMs")
	}
	if rapid.IntRange(0, 99).Draw(rt, "hasBreaker") < neverOpeningBreakerPct {
		// wrapped in a breaker that cannot open within one request
		ps.Breaker = &vfC10BreakerSpec{Window: 100, Minimum: 100, Threshold: 100}
	}
	return ps
}

func vfC10Classes(vf *vfCollector, ps vfC10PoolSpec, plan vfC10Req, res vfC10Result) {
	vf.Class(fmt.Sprintf("attempts=%d", len(res.Attempts)), fmt.Sprintf("maxAttempts=%d", ps.Retry.max()),
		"backOff="+ps.Retry.BackOff, fmt.Sprintf("factor=%v", ps.Retry.Factor), fmt.Sprintf("result=%q/%d", res.Result, res.Status))
	if plan.Stream {
		vf.Class("body=stream")
	} else {
		vf.Class("body=buffered")
	}
	if ps.TimeoutMs > 0 {
		vf.Class("pool-timeout")
	}
	if ps.Retry.Disabled {
		vf.Class("no-retry-policy")
	}
	if ps.Breaker != nil {
		vf.Class("inside-breaker")
	}
	for _, a := range res.Attempts {
		vf.Class("attempt-outcome=" + a.Outcome.Kind)
	}
	if n := len(res.Attempts); n > 0 {
		if ps.success(res.Attempts[n-1].Outcome) {
			if n > 1 {
				vf.Class("success-after-retry")
			} else {
				vf.Class("success-first-attempt")
			}
		} else if n == ps.Retry.max() && !plan.Stream {
			vf.Class("attempts-exhausted")
		}
	}
}

func vfC10Inconclusive(rt *rapid.T, what string, ps vfC10PoolSpec, plan vfC10Req, res vfC10Result) {
	rt.Fatalf("VF-INCONCLUSIVE %s did not return within %v (bounded-liveness wait)\npool: %s\nrequest: %s\n%s", what, vfC10WaitBound, ps, plan, res.ledger(true))
}

// TestVerifC10Retry: one client request through a real Proxy whose pool has a generated Retry
// policy (optionally a pool timeout, optionally wrapped in a breaker that cannot open); the stubbed
// transport plays a generated per-attempt outcome script and keeps the attempt ledger. No
// cancellation here (TestVerifC10Cancel).
func TestVerifC10Retry(t *testing.T) {
	vf := vfBegin(t, "C10")
	defer vf.End()
	defer vfC10Install()()
	rapid.Check(t, func(rt *rapid.T) {
		ps := vfC10GenPool(rt, 45, 25)
		if rapid.IntRange(0, 7).Draw(rt, "noRetryPolicy") == 0 {
			ps.Retry.Disabled = true // the time-limit clause on its own
		}
		plan := vfC10Req{Cancel: vfC10Cancel{Mode: "none"}}
		plan.Stream = rapid.IntRange(0, 3).Draw(rt, "stream") == 0
		plan.Script = vfC10GenScript(rt, ps, func(int) bool { return ps.TimeoutMs > 0 })
		plan.Body = vfC10GenBody(rt, plan.Stream)

		env := vfC10NewEnv(rt, ps)
		defer env.close()
		res := env.do(plan)
		if res.Hung {
			vfC10Inconclusive(rt, "Proxy.Handle", ps, plan, res)
		}
		vfC10Classes(vf, ps, plan, res)
		sawTimeout := false
		for _, a := range res.Attempts {
			if a.Outcome.Kind == "block" {
				sawTimeout = true
			}
		}
		if sawTimeout {
			vf.Class("blocking-backend-under-timeout")
		}
		streamRetryDue := plan.Stream && ps.Retry.max() > 1 && !ps.success(plan.outcome(0))
		if streamRetryDue {
			vf.Class("stream-with-failed-first-attempt")
		}
		nontrivial := len(res.Attempts) >= 2 || streamRetryDue
		desc := ps.String() + " || " + plan.String()
		vf.Case(nontrivial, desc+" || "+res.ledger(false), func() interface{} {
			return map[string]interface{}{"pool": ps.String(), "request": plan.String(), "observed": strings.Split(strings.TrimSpace(res.ledger(true)), "\n")}
		})
		vfC10Judge(vf, ps, plan, res, func(key, format string, args ...interface{}) bool {
			vf.Violation(rt, key, "pool: %s\nrequest: %s\n%s\nobserved:\n%s", ps, plan, fmt.Sprintf(format, args...), res.ledger(true))
			return false
		})
	})
}

// TestVerifC10Cancel: as above, with the client's context cancelled before the call, inside
// attempt i, or a generated fraction of the base wait after attempt i answered.
func TestVerifC10Cancel(t *testing.T) {
	vf := vfBegin(t, "C10")
	defer vf.End()
	defer vfC10Install()()
	rapid.Check(t, func(rt *rapid.T) {
		ps := vfC10GenPool(rt, 30, 20)
		if ps.Retry.MaxAttempts == 1 && rapid.IntRange(0, 3).Draw(rt, "bumpMax") > 0 {
			ps.Retry.MaxAttempts = rapid.IntRange(2, 5).Draw(rt, "maxAttempts2")
		}
		// sub-microsecond waitDuration: the back-off timer has expired by the time the retry loop
		// selects on it (known finding vfC10KeyCancelRace: generated unless that finding is listed)
		if rapid.IntRange(0, 9).Draw(rt, "tinyWait") == 0 {
			tiny := time.Duration(rapid.SampledFrom([]int{1, 20, 100}).Draw(rt, "tinyWaitNs"))
			if vf.HasKnown(vfC10KeyCancelRace) {
				vf.Exclude()
			} else {
				ps.Retry.Wait = tiny
				vf.Class("tiny-wait")
			}
		}
		plan := vfC10Req{}
		plan.Stream = rapid.IntRange(0, 7).Draw(rt, "stream") == 0
		cn := vfC10Cancel{Mode: rapid.SampledFrom([]string{"before", "during", "during", "after", "after", "after", "after"}).Draw(rt, "cancelMode")}
		if cn.Mode != "before" {
			cn.At = rapid.IntRange(0, ps.Retry.MaxAttempts-1).Draw(rt, "cancelAt")
		}
		if cn.Mode == "after" {
			cn.DelayPct = rapid.SampledFrom([]int{0, 10, 25, 40, 50, 90, 150, 300}).Draw(rt, "cancelDelayPct")
		}
		// how the request ends there: cancelled, or because its own deadline expires
		cn.End = rapid.SampledFrom([]string{"cancel", "cancel", "deadline", "deadline", "realdeadline"}).Draw(rt, "endKind")
		if cn.End == "realdeadline" {
			if cn.Mode == "after" {
				cn.End = "deadline" // a real deadline cannot be placed relative to an attempt's end
			} else {
				cn.RealTimeoutMs = rapid.IntRange(1, 10).Draw(rt, "realTimeoutMs")
			}
		}
		plan.Cancel = cn
		// a blocking backend is only played where the attempt's context is certain to end
		plan.Script = vfC10GenScript(rt, ps, func(i int) bool {
			return ps.TimeoutMs > 0 || cn.Mode == "before" || (cn.Mode == "during" && cn.At == i)
		})
		// steer towards scripts that keep failing up to the cancellation point, so that it matters
		if cn.Mode != "before" && rapid.IntRange(0, 2).Draw(rt, "failUntilCancel") > 0 {
			for i := 0; i <= cn.At && i < len(plan.Script); i++ {
				if ps.success(plan.Script[i]) {
					plan.Script[i] = vfC10Outcome{Kind: "code", Code: ps.FailureCodes[0]}
				}
			}
		}
		plan.Body = vfC10GenBody(rt, plan.Stream)

		env := vfC10NewEnv(rt, ps)
		defer env.close()
		res := env.do(plan)
		if res.Hung {
			vfC10Inconclusive(rt, "Proxy.Handle", ps, plan, res)
		}
		vfC10Classes(vf, ps, plan, res)
		vf.Class("cancel-mode="+cn.Mode, "request-ends-by="+cn.End)
		// did the cancellation land where the statement forbids a further attempt although the
		// policy would otherwise have made one?
		hit := false
		if res.CancelAt >= 0 && !plan.Stream {
			for i, a := range res.Attempts {
				if i+1 < ps.Retry.MaxAttempts && !ps.success(a.Outcome) && a.End >= 0 &&
					(res.CancelAt <= a.End || res.CancelAt < a.End+ps.Retry.lowerBound(i)) {
					hit = true
					if res.CancelAt <= a.End {
						vf.Class("cancel-hit-during-attempt-with-retry-due")
					} else {
						vf.Class("cancel-hit-inside-guaranteed-backoff")
					}
					if cn.byDeadline() {
						vf.Class("deadline-hit-with-retry-due (" + cn.End + ")")
					}
					break
				}
			}
		}
		switch {
		case res.CancelAt < 0:
			vf.Class("cancel-never-executed")
		case !hit:
			vf.Class("cancel-late-or-no-retry-due")
		}
		nontrivial := hit || len(res.Attempts) >= 2
		desc := ps.String() + " || " + plan.String()
		vf.Case(nontrivial, desc+" || "+res.ledger(false)+fmt.Sprint(hit), func() interface{} {
			return map[string]interface{}{"pool": ps.String(), "request": plan.String(), "observed": strings.Split(strings.TrimSpace(res.ledger(true)), "\n")}
		})
		vfC10Judge(vf, ps, plan, res, func(key, format string, args ...interface{}) bool {
			extra := ""
			if key == vfC10KeyAfterCancel || key == vfC10KeyAfterDeadline {
				// The retry loop picks at random between "back-off elapsed" and "cancelled" when both
				// are ready, and does not look at the context again (vfC10KeyCancelRace). With a wait of
				// milliseconds that needs a scheduling stall between arming the timer and selecting on
				// it; an implementation that ignores the cancellation does it every time. Tell the two
				// apart by repeating the very same request three times.
				if ps.Retry.Wait < vfC10TinyWait {
					key = vfC10KeyCancelRace
				} else {
					again := 0
					for k := 0; k < 3; k++ {
						env2 := vfC10NewEnv(rt, ps)
						res2 := env2.do(plan)
						env2.close()
						if res2.Hung {
							vfC10Inconclusive(rt, "Proxy.Handle (confirmation run)", ps, plan, res2)
						}
						if vfC10AttemptAfterCancel(ps.Retry, res2) >= 0 {
							again++
						}
					}
					extra = fmt.Sprintf("\nconfirmation: %d of 3 repetitions of the same request made a further attempt after the cancellation again", again)
					if again < 3 {
						key = vfC10KeyCancelRace
					}
				}
			}
			vf.Violation(rt, key, "pool: %s\nrequest: %s\n%s%s\nobserved:\n%s", ps, plan, fmt.Sprintf(format, args...), extra, res.ledger(true))
			return false
		})
	})
}

// TestVerifC10Breaker: a CircuitBreaker (COUNT_BASED, generated window / minimumNumberOfCalls /
// failureRateThreshold, one hour in OPEN) around the retried call; a sequence of client requests,
// each with its own per-attempt script. The breaker is probed behaviourally: a reference window
// that records exactly ONE outcome per client request (the final one) says from which request on
// calls must be short-circuited (503, result shortCircuited, backend not contacted).
func TestVerifC10Breaker(t *testing.T) {
	vf := vfBegin(t, "C10")
	defer vf.End()
	defer vfC10Install()()
	rapid.Check(t, func(rt *rapid.T) {
		ps := vfC10PoolSpec{FailureCodes: vfC10GenFailureCodes(rt)}
		ps.Retry = vfC10RetrySpec{
			MaxAttempts: rapid.IntRange(1, 4).Draw(rt, "maxAttempts"),
			Wait:        time.Duration(rapid.IntRange(1, 2).Draw(rt, "waitMs")) * time.Millisecond,
			Factor:      rapid.SampledFrom([]float64{0, 0.5, 1}).Draw(rt, "factor"),
			BackOff:     rapid.SampledFrom([]string{"random", "exponential"}).Draw(rt, "backOff"),
		}
		if rapid.IntRange(0, 4).Draw(rt, "hasTimeout") == 0 {
			ps.TimeoutMs = rapid.IntRange(5, 10).Draw(rt, "timeoutMs")
		}
		w := rapid.IntRange(2, 8).Draw(rt, "window")
		mn := rapid.IntRange(1, w).Draw(rt, "minimum")
		if mn > 6 {
			mn = 6
		}
		ps.Breaker = &vfC10BreakerSpec{Window: w, Minimum: mn,
			Threshold: rapid.SampledFrom([]int{100, 100, 50, 51, 34, 67, 75, 1}).Draw(rt, "threshold")}
		nreq := rapid.IntRange(3, 10).Draw(rt, "nreq")
		failBias := rapid.SampledFrom([]int{100, 80, 60, 40}).Draw(rt, "failBias")

		env := vfC10NewEnv(rt, ps)
		defer env.close()

		var window []bool // final outcomes (true = failed) of the last w admitted client requests
		open := false
		var hist, keyHist []string
		admitted, multi, shorted := 0, 0, 0
		openedAtMinimum := false
		for j := 0; j < nreq; j++ {
			plan := vfC10Req{Cancel: vfC10Cancel{Mode: "none"}}
			plan.Stream = rapid.IntRange(0, 6).Draw(rt, "stream") == 0
			plan.Script = vfC10GenScript(rt, ps, func(int) bool { return ps.TimeoutMs > 0 })
			if rapid.IntRange(0, 99).Draw(rt, "forceFail") < failBias {
				// all attempts but possibly the last one fail; the last one by a draw
				upto := len(plan.Script)
				if rapid.IntRange(0, 3).Draw(rt, "lastOK") == 0 && ps.Retry.MaxAttempts > 1 {
					upto = ps.Retry.MaxAttempts - 1
				}
				for i := 0; i < upto; i++ {
					if ps.success(plan.Script[i]) {
						plan.Script[i] = vfC10Outcome{Kind: "code", Code: ps.FailureCodes[0]}
					}
				}
			}
			plan.Body = vfC10GenBody(rt, plan.Stream)
			res := env.do(plan)
			if res.Hung {
				vfC10Inconclusive(rt, fmt.Sprintf("client request #%d", j), ps, plan, res)
			}
			hist = append(hist, fmt.Sprintf("#%d %s\n%s", j, plan, res.ledger(true)))
			keyHist = append(keyHist, plan.String()+res.ledger(false))
			report := func(key, format string, args ...interface{}) bool {
				vf.Violation(rt, key, "pool: %s\nhistory (one entry per client request):\n%s\n%s\nreference window before request #%d (true = failed): %v open=%v",
					ps, strings.Join(hist, "\n"), fmt.Sprintf(format, args...), j, window, open)
				return false
			}
			isShort := res.Result == resultShortCircuited
			if open {
				if !isShort {
					report("breaker: request admitted although one-record-per-request bookkeeping says OPEN",
						"request #%d was not short-circuited (result=%q status=%d attempts=%d)", j, res.Result, res.Status, len(res.Attempts))
					return
				}
				if res.Panicked || res.Status != http.StatusServiceUnavailable || len(res.Attempts) != 0 {
					report("breaker: short-circuited request contacted the backend or is not a 503",
						"request #%d: status=%d attempts=%d panicked=%v", j, res.Status, len(res.Attempts), res.Panicked)
					return
				}
				shorted++
				continue
			}
			if isShort {
				report("breaker: request short-circuited although one-record-per-request bookkeeping says CLOSED",
					"request #%d was short-circuited after %d admitted client requests", j, admitted)
				return
			}
			if !vfC10Judge(vf, ps, plan, res, report) {
				return
			}
			admitted++
			if len(res.Attempts) >= 2 {
				multi++
			}
			want := vfC10ExpectedAttempts(ps, plan)
			failed := !ps.success(plan.outcome(want - 1))
			window = append(window, failed)
			if len(window) > ps.Breaker.Window {
				window = window[1:]
			}
			fails := 0
			for _, f := range window {
				if f {
					fails++
				}
			}
			if len(window) >= ps.Breaker.Minimum && fails*100 >= ps.Breaker.Threshold*len(window) {
				open = true
				if admitted == ps.Breaker.Minimum {
					openedAtMinimum = true
				}
			}
		}
		vf.Class(fmt.Sprintf("maxAttempts=%d", ps.Retry.MaxAttempts), fmt.Sprintf("breaker-threshold=%d", ps.Breaker.Threshold))
		switch {
		case open && openedAtMinimum:
			vf.Class("breaker-opened-exactly-at-minimumNumberOfCalls")
		case open:
			vf.Class("breaker-opened-later")
		default:
			vf.Class("breaker-stayed-closed")
		}
		if shorted > 0 {
			vf.Class("short-circuit-observed")
		}
		if multi > 0 {
			vf.Class("admitted-request-with-retries")
		}
		// non-trivial: retries happened inside admitted requests, and the breaker had recorded enough
		// client requests to decide (so a per-attempt record would have changed what is observed)
		nontrivial := multi > 0 && admitted >= ps.Breaker.Minimum
		vf.Case(nontrivial, ps.String()+"||"+strings.Join(keyHist, "|"), func() interface{} {
			return map[string]interface{}{"pool": ps.String(), "requests": len(hist), "admitted": admitted, "short_circuited": shorted,
				"opened": open, "history": hist}
		})
	})
}
