//go:build go1.21

package proxy

import (
	stdcontext "context"
	"errors"
	"testing"

	"github.com/megaease/easegress/pkg/resilience"
)

// TestVerifReproC10CancelRace: minimal reproduction of the known finding
// "retry: further attempt after cancellation when the back-off timer has already expired".
// A Retry policy (maxAttempts 50, waitDuration 1ns) wraps an always-failing call; the context is
// cancelled BEFORE the call. The statement allows at most the first attempt; the pinned tree makes
// further attempts in about half of the calls (the select in RetryPolicy.Wrap finds both the timer
// and ctx.Done() ready, picks at random, and the loop never looks at the context again).
// Not part of the check's run regexp; run with
//   build/C10/*.test -test.run TestVerifReproC10CancelRace -test.v
func TestVerifReproC10CancelRace(t *testing.T) {
	pol, err := resilience.NewPolicy(map[string]interface{}{"kind": "Retry", "name": "rt", "maxAttempts": 50, "waitDuration": "1ns"})
	if err != nil {
		t.Fatal(err)
	}
	w := pol.CreateWrapper()
	extra, worst := 0, 0
	const calls = 2000
	for it := 0; it < calls; it++ {
		ctx, cancel := stdcontext.WithCancel(stdcontext.Background())
		cancel()
		n := 0
		_ = w.Wrap(func(stdcontext.Context) error { n++; return errors.New("backend failed") })(ctx)
		if n > 1 {
			extra++
		}
		if n > worst {
			worst = n
		}
	}
	if extra > 0 {
		t.Fatalf("%d of %d calls made further attempts although the request was cancelled before the call (worst: %d attempts)", extra, calls, worst)
	}
}
