//go:build go1.21

package proxy

// C10 harness library: scripted transport stub with an attempt ledger, case executor, and the
// oracle (written from the property statement and doc/reference/controllers.md "Retry Policy").
//
// Everything the oracle asserts about time is a LOWER bound (gap between two attempts) or an
// ordering fact between monotonic timestamps taken on the harness side of the transport hook.

import (
	"bytes"
	stdcontext "context"
	"fmt"
	"io"
	"math"
	"net/http"
	"strconv"
	"strings"
	"sync"
	"sync/atomic"
	"time"

	"github.com/megaease/easegress/pkg/context"
	"github.com/megaease/easegress/pkg/filters"
	"github.com/megaease/easegress/pkg/protocols/httpprot"
	"github.com/megaease/easegress/pkg/resilience"
	"github.com/megaease/easegress/pkg/tracing"
	"pgregory.net/rapid"
)

// ---- plan (generated) ---------------------------------------------------------------------------

// vfC10Outcome is what the backend does on one attempt.
type vfC10Outcome struct {
	Kind string // "code" (answers with Code) | "neterr" (transport error) | "block" (no answer until the attempt's context ends)
	Code int
}

func (o vfC10Outcome) String() string {
	if o.Kind == "code" {
		return strconv.Itoa(o.Code)
	}
	return o.Kind
}

type vfC10RetrySpec struct {
	Disabled    bool // the pool names no retry policy at all (time-limit clause on its own)
	MaxAttempts int
	Wait        time.Duration
	Factor      float64
	BackOff     string // "random" | "exponential"
	// Unset*: the field is left out of the raw policy spec; the value above is then the documented
	// default (maxAttempts 3, waitDuration 500ms, backOffPolicy random, randomizationFactor 0).
	UnsetMax, UnsetWait, UnsetBackOff, UnsetFactor bool
}

func (p vfC10RetrySpec) String() string {
	if p.Disabled {
		return "retry{none}"
	}
	u := func(unset bool) string {
		if unset {
			return "(unset: default)"
		}
		return ""
	}
	return fmt.Sprintf("retry{maxAttempts=%d%s wait=%v%s factor=%v%s backOff=%s%s}", p.MaxAttempts, u(p.UnsetMax), p.Wait, u(p.UnsetWait),
		p.Factor, u(p.UnsetFactor), p.BackOff, u(p.UnsetBackOff))
}

// raw is the policy spec as a user would write it (unset fields left out).
func (p vfC10RetrySpec) raw(name string) map[string]interface{} {
	m := map[string]interface{}{"kind": "Retry", "name": name}
	if !p.UnsetMax {
		m["maxAttempts"] = p.MaxAttempts
	}
	if !p.UnsetWait {
		m["waitDuration"] = p.Wait.String()
	}
	if !p.UnsetBackOff {
		m["backOffPolicy"] = p.BackOff
	}
	if !p.UnsetFactor {
		m["randomizationFactor"] = p.Factor
	}
	return m
}

// max is the number of attempts the pool may make for one client request.
func (p vfC10RetrySpec) max() int {
	if p.Disabled {
		return 1
	}
	return p.MaxAttempts
}

// base wait (ns, float like the documented formula) after failed attempt i (0-based).
func (p vfC10RetrySpec) base(i int) float64 {
	b := float64(p.Wait)
	if p.BackOff == "exponential" {
		b *= math.Pow(1.5, float64(i))
	}
	return b
}

// lowerBound is the least back-off the documentation allows after failed attempt i:
// base_i * (1 - randomizationFactor), base_i = waitDuration * 1.5^i for exponential (the smaller of
// the two readings of "becomes 1.5 times larger after each failed attempt"). 2µs slack for float
// rounding and Duration truncation.
func (p vfC10RetrySpec) lowerBound(i int) time.Duration {
	lb := time.Duration(p.base(i)*(1-p.Factor)) - 2*time.Microsecond
	if lb < 0 {
		lb = 0
	}
	return lb
}

type vfC10BreakerSpec struct {
	Window    int
	Minimum   int
	Threshold int
	// WaitOpenMs: waitDurationInOpenState in ms (0 = one hour, i.e. OPEN for the rest of the case)
	WaitOpenMs int
	// Permitted: permittedNumberOfCallsInHalfOpenState (0 = 1)
	Permitted int
}

func (b *vfC10BreakerSpec) waitOpen() time.Duration {
	if b.WaitOpenMs <= 0 {
		return time.Hour
	}
	return time.Duration(b.WaitOpenMs) * time.Millisecond
}

func (b *vfC10BreakerSpec) permitted() int {
	if b.Permitted <= 0 {
		return 1
	}
	return b.Permitted
}

func (b *vfC10BreakerSpec) String() string {
	if b == nil {
		return "breaker{none}"
	}
	return fmt.Sprintf("breaker{COUNT_BASED window=%d minimum=%d failureRateThreshold=%d waitOpen=%v permittedHalfOpen=%d}", b.Window, b.Minimum, b.Threshold, b.waitOpen(), b.permitted())
}

type vfC10PoolSpec struct {
	Retry        vfC10RetrySpec
	TimeoutMs    int // 0 = no pool timeout
	FailureCodes []int
	Breaker      *vfC10BreakerSpec
}

func (p vfC10PoolSpec) String() string {
	return fmt.Sprintf("%s timeout=%dms failureCodes=%v %s", p.Retry, p.TimeoutMs, p.FailureCodes, p.Breaker)
}

func (p vfC10PoolSpec) isFailureCode(c int) bool {
	for _, f := range p.FailureCodes {
		if f == c {
			return true
		}
	}
	return false
}

func (p vfC10PoolSpec) success(o vfC10Outcome) bool {
	return o.Kind == "code" && !p.isFailureCode(o.Code)
}

// vfC10Cancel says when the client's request context is cancelled.
type vfC10Cancel struct {
	Mode string // "none" | "before" (before the proxy is called) | "during" (inside attempt At, before it answers) | "after" (DelayPct % of base_At after attempt At answered)
	At   int
	// DelayPct of the (un-randomised) base wait after attempt At: < 100*(1-factor) falls inside the
	// guaranteed back-off, larger values fall near/after the next attempt.
	DelayPct int
	// End says HOW the client's request context ends at that point:
	//  "" / "cancel"   context.WithCancel, cancelled there (Err() == context.Canceled)
	//  "deadline"      a context that ends there with Err() == context.DeadlineExceeded (the request
	//                  carried a deadline that expires at the generated point; harness-driven so that the
	//                  point is exact)
	//  "realdeadline"  a genuine context.WithDeadline/WithTimeout: Mode "before" = deadline already in the
	//                  past; Mode "during" = timeout RealTimeoutMs from the start of the call, and attempt At
	//                  lasts until that deadline has expired (earlier expiry, e.g. inside a back-off, is
	//                  recorded by a watcher)
	End           string
	RealTimeoutMs int
}

func (c vfC10Cancel) byDeadline() bool { return c.End == "deadline" || c.End == "realdeadline" }

func (c vfC10Cancel) String() string {
	how := "cancelled"
	switch c.End {
	case "deadline":
		how = "deadline expires"
	case "realdeadline":
		how = fmt.Sprintf("real context.WithTimeout(%dms) expires", c.RealTimeoutMs)
		if c.Mode == "before" {
			how = "real context.WithDeadline(past) expired"
		}
	}
	switch c.Mode {
	case "none":
		return "cancel{none}"
	case "before":
		return fmt.Sprintf("cancel{%s before the call}", how)
	case "during":
		return fmt.Sprintf("cancel{%s during attempt %d}", how, c.At)
	}
	return fmt.Sprintf("cancel{%s %d%% of base wait after attempt %d}", how, c.DelayPct, c.At)
}

// vfC10EndCtx is a request context the harness ends at a chosen point with a chosen error
// (context.DeadlineExceeded: "the request's deadline expired exactly here").
type vfC10EndCtx struct {
	mu   sync.Mutex
	done chan struct{}
	err  error
}

func vfC10NewEndCtx() *vfC10EndCtx { return &vfC10EndCtx{done: make(chan struct{})} }

func (c *vfC10EndCtx) Deadline() (time.Time, bool)       { return time.Time{}, false }
func (c *vfC10EndCtx) Done() <-chan struct{}             { return c.done }
func (c *vfC10EndCtx) Value(key interface{}) interface{} { return nil }
func (c *vfC10EndCtx) Err() error {
	c.mu.Lock()
	defer c.mu.Unlock()
	return c.err
}
func (c *vfC10EndCtx) end(err error) {
	c.mu.Lock()
	if c.err == nil {
		c.err = err
		close(c.done)
	}
	c.mu.Unlock()
}

type vfC10Req struct {
	Script []vfC10Outcome // outcome of attempt i; attempts beyond the script get the last entry
	Stream bool
	Body   string
	Cancel vfC10Cancel
}

func (r vfC10Req) String() string {
	s := make([]string, len(r.Script))
	for i, o := range r.Script {
		s[i] = o.String()
	}
	kind := "buffered"
	if r.Stream {
		kind = "stream"
	}
	return fmt.Sprintf("req{%s body=%q script=[%s] %s}", kind, r.Body, strings.Join(s, " "), r.Cancel)
}

func (r vfC10Req) outcome(i int) vfC10Outcome {
	if i < len(r.Script) {
		return r.Script[i]
	}
	return r.Script[len(r.Script)-1]
}

// ---- ledger -------------------------------------------------------------------------------------

type vfC10Attempt struct {
	Idx        int
	Start, End time.Duration // since the case's t0 (monotonic); End is taken just before the stub returns
	BodyRead   string
	CtxErrIn   string // error state of the attempt's context when the attempt started
	Outcome    vfC10Outcome
	// Late: the backend stayed silent, the pool has a timeout, and the attempt's context had still not
	// ended after vfC10LateAfter(timeout); the stub then answered 200 so that the call can return.
	Late bool
}

// vfC10LateAfter is the bounded-liveness wait for the pool timeout to end a silent attempt:
// 150 x the configured timeout, at least 3 s.
func vfC10LateAfter(timeoutMs int) time.Duration {
	d := 150 * time.Duration(timeoutMs) * time.Millisecond
	if d < 3*time.Second {
		d = 3 * time.Second
	}
	return d
}

type vfC10Call struct {
	mu       sync.Mutex
	t0       time.Time
	plan     vfC10Req
	pool     vfC10PoolSpec
	cancel   func() // ends the client's request context now (the planned way, or forcibly for clean-up)
	// waitEnd != nil: the planned end is a real deadline; "ending" the context = waiting for it
	waitEnd  <-chan struct{}
	attempts []vfC10Attempt
	cancelAt time.Duration // when cancel() had returned; -1 = never cancelled
	giveup   chan struct{}
	hung     bool
	wg       sync.WaitGroup // cancel timers
}

func (c *vfC10Call) doCancel() {
	if c.waitEnd != nil {
		select {
		case <-c.waitEnd:
		case <-c.giveup:
		}
	} else {
		c.cancel()
	}
	at := time.Since(c.t0)
	c.mu.Lock()
	if c.cancelAt < 0 {
		c.cancelAt = at
	}
	c.mu.Unlock()
}

var vfC10Current atomic.Pointer[vfC10Call]

// vfC10Eventually polls cond for about 3 s of yielding sleeps (robust against a process-wide stall:
// every sleep gives overdue timers and their goroutines a chance to run first).
func vfC10Eventually(cond func() bool) bool {
	for k := 0; k < 30; k++ {
		if cond() {
			return true
		}
		time.Sleep(100 * time.Millisecond)
	}
	return cond()
}

// vfC10Send replaces fnSendRequest.
func vfC10Send(r *http.Request, client *http.Client) (*http.Response, error) {
	c := vfC10Current.Load()
	if c == nil {
		return nil, fmt.Errorf("vf: transport used outside a case")
	}
	start := time.Since(c.t0)
	ctxErr := ""
	if e := r.Context().Err(); e != nil {
		ctxErr = e.Error()
	}
	var body []byte
	if r.Body != nil {
		body, _ = io.ReadAll(r.Body)
		r.Body.Close()
	}
	c.mu.Lock()
	idx := len(c.attempts)
	o := c.plan.outcome(idx)
	c.attempts = append(c.attempts, vfC10Attempt{Idx: idx, Start: start, End: -1, BodyRead: string(body), CtxErrIn: ctxErr, Outcome: o})
	c.mu.Unlock()

	cn := c.plan.Cancel
	if cn.Mode == "during" && cn.At == idx {
		c.doCancel()
	}
	hung, late := false, false
	if o.Kind == "block" {
		var lateC <-chan time.Time
		if c.pool.TimeoutMs > 0 {
			lt := time.NewTimer(vfC10LateAfter(c.pool.TimeoutMs))
			defer lt.Stop()
			lateC = lt.C
		}
		select {
		case <-r.Context().Done():
		case <-lateC:
			// After a long stall of the whole process both timers are overdue and this select picks at
			// random; the context's own timer cancels from a goroutine that still has to be scheduled.
			// Only call the attempt "late" if its context is still alive after a further grace period
			// of yielding sleeps.
			late = !vfC10Eventually(func() bool { return r.Context().Err() != nil })
		case <-c.giveup:
			hung = true
		}
	}
	if cn.Mode == "after" && cn.At == idx {
		delay := time.Duration(c.pool.Retry.base(idx) * float64(cn.DelayPct) / 100)
		c.wg.Add(1)
		go func() {
			defer c.wg.Done()
			if delay > 0 {
				time.Sleep(delay)
			}
			c.doCancel()
		}()
	}
	c.mu.Lock()
	if hung {
		c.hung = true
	}
	c.attempts[idx].End = time.Since(c.t0)
	c.attempts[idx].Late = late
	c.mu.Unlock()
	if late {
		return &http.Response{StatusCode: 200, Proto: "HTTP/1.1", ProtoMajor: 1, ProtoMinor: 1,
			Header:        http.Header{"X-Vf-Attempt": []string{strconv.Itoa(idx) + "-late"}},
			ContentLength: 4, Body: io.NopCloser(strings.NewReader("late"))}, nil
	}
	switch o.Kind {
	case "code":
		b := fmt.Sprintf("attempt-%d", idx)
		return &http.Response{StatusCode: o.Code, Proto: "HTTP/1.1", ProtoMajor: 1, ProtoMinor: 1,
			Header:        http.Header{"X-Vf-Attempt": []string{strconv.Itoa(idx)}},
			ContentLength: int64(len(b)), Body: io.NopCloser(strings.NewReader(b))}, nil
	case "block":
		if e := r.Context().Err(); e != nil {
			return nil, e
		}
		return nil, fmt.Errorf("vf: harness gave up waiting for the attempt's context to end")
	}
	return nil, fmt.Errorf("vf: connection refused")
}

// ---- environment: a real Proxy with real resilience policies --------------------------------------

type vfC10Env struct {
	px   *Proxy
	pool vfC10PoolSpec
}

// vfC10BuildPolicies creates the pool's resilience policies from raw specs through
// resilience.NewPolicy (as Pipeline does) under the names "rt"+suffix / "cb"+suffix.
func vfC10BuildPolicies(rt *rapid.T, ps vfC10PoolSpec, suffix string, policies map[string]resilience.Policy) {
	if !ps.Retry.Disabled {
		rawRetry := ps.Retry.raw("rt" + suffix)
		rp, err := resilience.NewPolicy(rawRetry)
		if err != nil {
			rt.Fatalf("VF-INCONCLUSIVE retry policy rejected: %v (%v)", err, rawRetry)
		}
		policies["rt"+suffix] = rp
	}
	if ps.Breaker != nil {
		rawCB := map[string]interface{}{
			"kind": "CircuitBreaker", "name": "cb" + suffix, "slidingWindowType": "COUNT_BASED",
			"failureRateThreshold": ps.Breaker.Threshold, "slidingWindowSize": ps.Breaker.Window,
			"minimumNumberOfCalls": ps.Breaker.Minimum, "slowCallRateThreshold": 100,
			"slowCallDurationThreshold": "1h", "waitDurationInOpenState": ps.Breaker.waitOpen().String(),
			"permittedNumberOfCallsInHalfOpenState": ps.Breaker.permitted(),
		}
		cp, err := resilience.NewPolicy(rawCB)
		if err != nil {
			rt.Fatalf("VF-INCONCLUSIVE breaker policy rejected: %v (%v)", err, rawCB)
		}
		policies["cb"+suffix] = cp
	}
}

// vfC10NewProxy creates a Proxy whose main pool names the policies "rt"+suffix / "cb"+suffix and
// injects the whole policy map (as Pipeline does for every filter).
func vfC10NewProxy(rt *rapid.T, ps vfC10PoolSpec, suffix string, policies map[string]resilience.Policy) *vfC10Env {
	pool := map[string]interface{}{
		"servers":     []interface{}{map[string]interface{}{"url": "http://127.0.0.1:9095"}, map[string]interface{}{"url": "http://127.0.0.1:9096"}},
		"loadBalance": map[string]interface{}{"policy": "roundRobin"},
	}
	fc := make([]interface{}, len(ps.FailureCodes))
	for i, c := range ps.FailureCodes {
		fc[i] = c
	}
	pool["failureCodes"] = fc
	if ps.TimeoutMs > 0 {
		pool["timeout"] = fmt.Sprintf("%dms", ps.TimeoutMs)
	}
	if !ps.Retry.Disabled {
		pool["retryPolicy"] = "rt" + suffix
	}
	if ps.Breaker != nil {
		pool["circuitBreakerPolicy"] = "cb" + suffix
	}
	rawSpec := map[string]interface{}{"name": "proxy" + suffix, "kind": "Proxy", "pools": []interface{}{pool}}
	spec, err := filters.NewSpec(nil, "", rawSpec)
	if err != nil {
		rt.Fatalf("VF-INCONCLUSIVE proxy spec rejected: %v (%v)", err, rawSpec)
	}
	px := kind.CreateInstance(spec).(*Proxy)
	px.Init()
	px.InjectResiliencePolicy(policies)
	return &vfC10Env{px: px, pool: ps}
}

// vfC10NewEnv: one pool with its policies. In half of the cases two more policies with very
// different settings (a pipeline usually lists several) are created after the pool's own ones and
// before anything is injected; they are never used by the pool and must not influence it.
func vfC10NewEnv(rt *rapid.T, ps vfC10PoolSpec) *vfC10Env {
	policies := map[string]resilience.Policy{}
	vfC10BuildPolicies(rt, ps, "", policies)
	if rapid.Bool().Draw(rt, "unrelatedPoliciesInPipeline") {
		other := vfC10PoolSpec{
			Retry:   vfC10RetrySpec{MaxAttempts: 7, Wait: time.Nanosecond, Factor: 1, BackOff: "exponential"},
			Breaker: &vfC10BreakerSpec{Window: 100, Minimum: 100, Threshold: 100, Permitted: 10},
		}
		if ps.Retry.BackOff == "exponential" {
			other.Retry.BackOff = "random"
		}
		vfC10BuildPolicies(rt, other, "-unrelated", policies)
	}
	return vfC10NewProxy(rt, ps, "", policies)
}

func (e *vfC10Env) close() { e.px.Close() }

// vfC10Result is everything observed for one client request.
type vfC10Result struct {
	Attempts    []vfC10Attempt
	Result      string
	Status      int
	RespAttempt string
	RespBody    string
	HasResp     bool
	Panicked    bool
	PanicText   string
	CancelAt    time.Duration
	Hung        bool
	Stuck       bool
}

func (r vfC10Result) ledger(withTimes bool) string {
	var sb strings.Builder
	for _, a := range r.Attempts {
		if withTimes {
			fmt.Fprintf(&sb, "  attempt %d: start=%v end=%v outcome=%s bodySeen=%q ctxAtStart=%q late=%v\n", a.Idx, a.Start, a.End, a.Outcome, a.BodyRead, a.CtxErrIn, a.Late)
		} else {
			fmt.Fprintf(&sb, "%d:%s/%q;", a.Idx, a.Outcome, a.BodyRead)
		}
	}
	if withTimes {
		ca := "never"
		if r.CancelAt >= 0 {
			ca = r.CancelAt.String()
		}
		fmt.Fprintf(&sb, "  client context cancelled at: %s\n  client sees: result=%q status=%d X-Vf-Attempt=%q body=%q panicked=%v %s\n", ca, r.Result, r.Status, r.RespAttempt, r.RespBody, r.Panicked, r.PanicText)
	} else {
		fmt.Fprintf(&sb, "=>%q/%d/%s", r.Result, r.Status, r.RespAttempt)
	}
	return sb.String()
}

// vfC10WaitBound is the bounded-liveness wait for one client request. The longest legitimate
// request (5 attempts x (20 ms timeout + 8 ms * 1.5^4 * 2 back-off)) takes about 0.5 s.
const vfC10WaitBound = 40 * time.Second

// do runs one client request through Proxy.Handle.
func (e *vfC10Env) do(plan vfC10Req) vfC10Result {
	var cctx stdcontext.Context
	var cleanup func()
	call := &vfC10Call{t0: time.Now(), plan: plan, pool: e.pool, cancelAt: -1, giveup: make(chan struct{})}
	switch plan.Cancel.End {
	case "deadline":
		ec := vfC10NewEndCtx()
		cctx = ec
		call.cancel = func() { ec.end(stdcontext.DeadlineExceeded) }
		cleanup = func() { ec.end(stdcontext.Canceled) }
	case "realdeadline":
		base, baseCancel := stdcontext.WithCancel(stdcontext.Background())
		var dcancel stdcontext.CancelFunc
		if plan.Cancel.Mode == "before" {
			cctx, dcancel = stdcontext.WithDeadline(base, time.Now().Add(-time.Second))
		} else {
			cctx, dcancel = stdcontext.WithTimeout(base, time.Duration(plan.Cancel.RealTimeoutMs)*time.Millisecond)
		}
		call.waitEnd = cctx.Done()
		call.cancel = baseCancel
		// watcher: the deadline may expire anywhere (e.g. inside a back-off); record when it was seen
		watched := make(chan struct{})
		rc := cctx
		go func() {
			defer close(watched)
			<-rc.Done()
			if rc.Err() == stdcontext.DeadlineExceeded {
				at := time.Since(call.t0)
				call.mu.Lock()
				if call.cancelAt < 0 {
					call.cancelAt = at
				}
				call.mu.Unlock()
			}
		}()
		cleanup = func() { baseCancel(); dcancel(); <-watched }
	default:
		var cancel stdcontext.CancelFunc
		cctx, cancel = stdcontext.WithCancel(stdcontext.Background())
		call.cancel = cancel
		cleanup = cancel
	}
	defer cleanup()

	var stdr *http.Request
	if plan.Stream {
		// a body of unknown length behind a plain reader, as a streaming client would send it
		stdr, _ = http.NewRequestWithContext(cctx, http.MethodPost, "http://example.com/c10", io.NopCloser(strings.NewReader(plan.Body)))
		stdr.ContentLength = -1
	} else {
		stdr, _ = http.NewRequestWithContext(cctx, http.MethodPost, "http://example.com/c10", bytes.NewReader([]byte(plan.Body)))
	}
	req, _ := httpprot.NewRequest(stdr)
	if plan.Stream {
		_ = req.FetchPayload(-1)
	} else {
		_ = req.FetchPayload(0)
	}
	ctx := context.New(tracing.NoopSpan)
	ctx.SetRequest(context.DefaultNamespace, req)

	if plan.Cancel.Mode == "before" {
		call.doCancel()
	}
	vfC10Current.Store(call)
	var res vfC10Result
	done := make(chan struct{})
	go func() {
		defer close(done)
		defer func() {
			if r := recover(); r != nil {
				res.Panicked = true
				res.PanicText = fmt.Sprint(r)
			}
		}()
		res.Result = e.px.Handle(ctx)
		if resp, ok := ctx.GetOutputResponse().(*httpprot.Response); ok && resp != nil {
			res.HasResp = true
			res.Status = resp.StatusCode()
			res.RespAttempt = resp.HTTPHeader().Get("X-Vf-Attempt")
			if !resp.IsStream() {
				res.RespBody = string(resp.RawPayload())
			}
		}
	}()
	timer := time.NewTimer(vfC10WaitBound)
	select {
	case <-done:
		timer.Stop()
	case <-timer.C:
		isDone := func() bool {
			select {
			case <-done:
				return true
			default:
				return false
			}
		}
		if vfC10Eventually(isDone) { // both were ready after a stall: not a hang
			break
		}
		// release whatever is blocked so that the goroutine can be joined, then report
		close(call.giveup)
		call.cancel()
		t2 := time.NewTimer(vfC10WaitBound)
		select {
		case <-done:
			t2.Stop()
		case <-t2.C:
			call.mu.Lock()
			r := vfC10Result{Attempts: append([]vfC10Attempt(nil), call.attempts...), CancelAt: call.cancelAt, Hung: true, Stuck: true}
			call.mu.Unlock()
			return r
		}
		res.Hung = true
	}
	call.wg.Wait()
	vfC10Current.Store(nil)
	if plan.Cancel.End == "realdeadline" {
		cleanup() // joins the watcher (idempotent)
	}
	call.mu.Lock()
	res.Attempts = append([]vfC10Attempt(nil), call.attempts...)
	res.CancelAt = call.cancelAt
	if call.hung {
		res.Hung = true
	}
	call.mu.Unlock()
	return res
}

// ---- oracle -------------------------------------------------------------------------------------

// vfC10Expected: number of attempts the policy prescribes when nothing is cancelled, and the
// index of the attempt whose outcome the client must see.
func vfC10ExpectedAttempts(ps vfC10PoolSpec, plan vfC10Req) int {
	if plan.Stream {
		return 1
	}
	for i := 0; i < ps.Retry.max(); i++ {
		if ps.success(plan.outcome(i)) {
			return i + 1
		}
	}
	return ps.Retry.max()
}

type vfC10Reporter func(key, format string, args ...interface{}) bool

const (
	// vfC10KeyAfterCancel: a further attempt was made although the cancellation was complete before
	// the guaranteed part of the back-off could have elapsed, reproducibly.
	vfC10KeyAfterCancel = "further attempt after the client's request was cancelled"
	// vfC10KeyAfterDeadline: the same for a request whose context ended with DeadlineExceeded.
	vfC10KeyAfterDeadline = "further attempt after the deadline of the client's request had expired"
	// vfC10KeyCancelRace: same observation, but only when the back-off timer had already expired by
	// the time the retry loop looked at it (sub-microsecond waitDuration, or a scheduling stall):
	// the loop then picks between "timer" and "cancelled" at random and never re-checks the context.
	vfC10KeyCancelRace = "retry: further attempt after cancellation when the back-off timer has already expired (context not re-checked before the next attempt)"
	// waits below this are "already expired" by the time the retry loop selects on them
	vfC10TinyWait = 10 * time.Microsecond
)

// vfC10AttemptAfterCancel returns the index i of an attempt that was followed by another one
// although the cancellation had completed before attempt i answered, or inside the guaranteed part
// of the back-off after it; -1 if there is none.
func vfC10AttemptAfterCancel(pol vfC10RetrySpec, res vfC10Result) int {
	if res.CancelAt < 0 {
		return -1
	}
	for i := 0; i+1 < len(res.Attempts); i++ {
		a := res.Attempts[i]
		// (an attempt i+1 that started before the request was over can only be a back-off that was too
		// short: left to the lower-bound check)
		if (res.CancelAt <= a.End || res.CancelAt < a.End+pol.lowerBound(i)) && res.Attempts[i+1].Start > res.CancelAt {
			return i
		}
	}
	return -1
}

// vfC10Judge checks one admitted (not short-circuited) client request against the statement.
// It returns false when a violation was reported (known finding: case abandoned).
func vfC10Judge(vf *vfCollector, ps vfC10PoolSpec, plan vfC10Req, res vfC10Result, report vfC10Reporter) bool {
	pol := ps.Retry
	n := len(res.Attempts)
	cancelled := res.CancelAt >= 0

	if res.Panicked {
		return report("panic in Proxy.Handle: "+vfPanicClass(res.PanicText), "Handle panicked: %s", res.PanicText)
	}
	// --- time limit: a silent backend must not keep an attempt alive
	for _, a := range res.Attempts {
		if a.Late {
			return report("pool timeout did not end an attempt against a silent backend",
				"attempt %d: the backend stayed silent and the attempt's context had not ended %v after it started (pool timeout %dms)",
				a.Idx, vfC10LateAfter(ps.TimeoutMs), ps.TimeoutMs)
		}
	}
	// --- attempt count
	if n == 0 {
		if plan.Cancel.Mode == "before" {
			vf.Class("ambiguous-precancelled-no-attempt")
		} else {
			return report("no attempt reached the backend", "no attempt at all")
		}
	}
	if plan.Stream && n > 1 {
		return report("stream request attempted more than once", "%d attempts for a stream request", n)
	}
	if n > pol.max() {
		if pol.Disabled {
			return report("more than one attempt without a retry policy", "%d attempts", n)
		}
		return report("more attempts than maxAttempts", "%d attempts, maxAttempts=%d", n, pol.MaxAttempts)
	}
	// --- stops at the first success
	for i := 0; i+1 < n; i++ {
		if ps.success(res.Attempts[i].Outcome) {
			return report("further attempt after a successful one", "attempt %d succeeded (%s) and attempt %d followed", i, res.Attempts[i].Outcome, i+1)
		}
	}
	// --- no further attempt once the client's request is cancelled. Applicable when the
	// cancellation had completed before the guaranteed part of the back-off could have elapsed.
	if cancelled {
		if i := vfC10AttemptAfterCancel(pol, res); i >= 0 {
			a := res.Attempts[i]
			key := vfC10KeyAfterCancel
			if plan.Cancel.byDeadline() {
				key = vfC10KeyAfterDeadline
			}
			return report(key,
				"request over (%s) at %v; attempt %d ended at %v (guaranteed back-off %v) and attempt %d started at %v",
				plan.Cancel, res.CancelAt, i, a.End, pol.lowerBound(i), i+1, res.Attempts[i+1].Start)
		}
	} else {
		// --- retries do happen (doc: "maxAttempts: the maximum number of attempts (including the
		// initial one)"; "retry a failed request")
		if want := vfC10ExpectedAttempts(ps, plan); n < want {
			return report("fewer attempts than the policy prescribes", "%d attempts, want %d", n, want)
		}
	}
	// --- back-off lower bound (an attempt that must not have started at all was reported above)
	for i := 0; i+1 < n; i++ {
		gap := res.Attempts[i+1].Start - res.Attempts[i].End
		if lb := pol.lowerBound(i); gap < lb {
			return report(fmt.Sprintf("back-off shorter than the documented lower bound (backOff=%s)", pol.BackOff),
				"gap between attempt %d and %d is %v, lower bound base*(1-factor) = %v", i, i+1, gap, lb)
		}
	}
	// --- bodies: a buffered request carries its complete body on every attempt; a stream body is
	// sent once (n <= 1 was checked) and completely
	for _, a := range res.Attempts {
		if a.BodyRead != plan.Body {
			if plan.Stream {
				return report("stream body not delivered to the backend", "attempt %d saw body %q, want %q", a.Idx, a.BodyRead, plan.Body)
			}
			return report("buffered body incomplete on an attempt", "attempt %d saw body %q, want %q", a.Idx, a.BodyRead, plan.Body)
		}
	}
	if n == 0 {
		return true
	}
	// --- the client sees the outcome of the last attempt
	last := res.Attempts[n-1]
	type rs struct {
		result string
		status int
	}
	var accept []rs
	switch last.Outcome.Kind {
	case "code":
		r := ""
		if ps.isFailureCode(last.Outcome.Code) {
			r = resultFailureCode
		}
		accept = []rs{{r, last.Outcome.Code}}
	case "neterr":
		accept = []rs{{resultServerError, http.StatusServiceUnavailable}}
		if ps.TimeoutMs > 0 {
			// the error may surface just as the attempt's time limit expires
			accept = append(accept, rs{resultTimeout, http.StatusRequestTimeout})
		}
		if cancelled {
			accept = append(accept, rs{resultClientError, 499})
			if plan.Cancel.byDeadline() && ps.TimeoutMs == 0 {
				// the request's own deadline expired: reported as a timeout or as a client error
				accept = append(accept, rs{resultTimeout, http.StatusRequestTimeout})
			}
		}
	case "block":
		if ps.TimeoutMs > 0 {
			accept = append(accept, rs{resultTimeout, http.StatusRequestTimeout})
		}
		if cancelled {
			accept = append(accept, rs{resultClientError, 499})
			if plan.Cancel.byDeadline() && ps.TimeoutMs == 0 {
				accept = append(accept, rs{resultTimeout, http.StatusRequestTimeout})
			}
		}
	}
	ok := false
	for i, a := range accept {
		if res.Result == a.result && res.Status == a.status {
			ok = true
			if i > 0 {
				vf.Class("ambiguous-error-class:" + res.Result)
			}
		}
	}
	if !res.HasResp {
		return report("no response object for the client", "Handle returned %q without an output response", res.Result)
	}
	if !ok {
		return report(fmt.Sprintf("client does not see the outcome of the last attempt (last=%s got result=%q status=%d)", last.Outcome.Kind, res.Result, res.Status),
			"last attempt %d had outcome %s; acceptable (result,status): %v", last.Idx, last.Outcome, accept)
	}
	if last.Outcome.Kind == "code" {
		if res.RespAttempt != strconv.Itoa(last.Idx) || res.RespBody != fmt.Sprintf("attempt-%d", last.Idx) {
			return report("client sees the response of an earlier attempt",
				"last attempt is %d but the response carries X-Vf-Attempt=%q body=%q", last.Idx, res.RespAttempt, res.RespBody)
		}
	} else if res.RespAttempt != "" || res.RespBody != "" {
		return report("client sees the response of an earlier attempt",
			"last attempt %d produced no response (%s) but the client response carries X-Vf-Attempt=%q body=%q", last.Idx, last.Outcome, res.RespAttempt, res.RespBody)
	}
	return true
}

// ---- generators ---------------------------------------------------------------------------------

var vfC10Codes = []int{200, 201, 404, 429, 500, 503}

func vfC10GenRetry(rt *rapid.T) vfC10RetrySpec {
	return vfC10RetrySpec{
		MaxAttempts: rapid.IntRange(1, 5).Draw(rt, "maxAttempts"),
		Wait:        time.Duration(rapid.IntRange(1, 8).Draw(rt, "waitMs")) * time.Millisecond,
		Factor:      rapid.SampledFrom([]float64{0, 0.5, 1, 0.25}).Draw(rt, "factor"),
		BackOff:     rapid.SampledFrom([]string{"random", "exponential"}).Draw(rt, "backOff"),
	}
}

func vfC10GenFailureCodes(rt *rapid.T) []int {
	return rapid.SampledFrom([][]int{{500, 503}, {500}, {503, 429}, {500, 503, 429, 404}}).Draw(rt, "failureCodes")
}

// vfC10GenScript draws per-attempt outcomes for maxAttempts+2 attempts (the two extra entries are
// what an implementation that over-runs the bound would meet). shape steers towards the classes the
// property quantifies over: success at attempt i, all fail, mixed.
func vfC10GenScript(rt *rapid.T, ps vfC10PoolSpec, allowBlock func(i int) bool) []vfC10Outcome {
	n := ps.Retry.max() + 2
	var okCodes []int
	for _, c := range vfC10Codes {
		if !ps.isFailureCode(c) {
			okCodes = append(okCodes, c)
		}
	}
	genFail := func(i int) vfC10Outcome {
		k := rapid.IntRange(0, 9).Draw(rt, fmt.Sprintf("failKind%d", i))
		switch {
		case k < 5:
			return vfC10Outcome{Kind: "code", Code: rapid.SampledFrom(ps.FailureCodes).Draw(rt, fmt.Sprintf("failCode%d", i))}
		case k < 8 || !allowBlock(i):
			return vfC10Outcome{Kind: "neterr"}
		}
		return vfC10Outcome{Kind: "block"}
	}
	genOK := func(i int) vfC10Outcome {
		return vfC10Outcome{Kind: "code", Code: rapid.SampledFrom(okCodes).Draw(rt, fmt.Sprintf("okCode%d", i))}
	}
	script := make([]vfC10Outcome, n)
	switch rapid.SampledFrom([]string{"successAt", "successAt", "allFail", "mixed"}).Draw(rt, "shape") {
	case "successAt":
		at := rapid.IntRange(0, n-1).Draw(rt, "successAt")
		for i := range script {
			switch {
			case i < at:
				script[i] = genFail(i)
			case i == at:
				script[i] = genOK(i)
			default: // what follows the first success is arbitrary
				if rapid.Bool().Draw(rt, fmt.Sprintf("tailOK%d", i)) {
					script[i] = genOK(i)
				} else {
					script[i] = genFail(i)
				}
			}
		}
	case "allFail":
		for i := range script {
			script[i] = genFail(i)
		}
	default:
		for i := range script {
			if rapid.IntRange(0, 3).Draw(rt, fmt.Sprintf("mixOK%d", i)) == 0 {
				script[i] = genOK(i)
			} else {
				script[i] = genFail(i)
			}
		}
	}
	return script
}

func vfC10GenBody(rt *rapid.T, stream bool) string {
	min := 0
	if stream {
		min = 1 // a re-sent stream must be distinguishable from the original
	}
	return rapid.StringOfN(rapid.RuneFrom([]rune("abcxyz019 {}\"\n")), min, 24, -1).Draw(rt, "body")
}
