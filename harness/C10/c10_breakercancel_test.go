//go:build go1.21

package proxy

import (
	"fmt"
	"net/http"
	"os"
	"strings"
	"testing"
	"time"

	"pgregory.net/rapid"
)

// TestVerifC10BreakerCancel: "a CircuitBreaker wrapped around the call records exactly one outcome
// per client request" when client requests are cancelled (before the call, or in the middle of an
// attempt: the 499 path), in CLOSED and in HALF_OPEN state.
//
// A pool with a generated COUNT_BASED breaker (window, minimumNumberOfCalls, threshold,
// permittedNumberOfCallsInHalfOpenState <= minimumNumberOfCalls, waitDurationInOpenState either one
// hour or 20-30 ms) and optionally a retry policy receives a sequence of client requests, about half
// of them cancelled. The reference records exactly ONE outcome for every admitted client request,
// cancelled or not (failed iff the client-visible result is non-empty: doc "failed means that backend
// filter returns non-empty results"), in a window of the last `window` outcomes while CLOSED and in
// a list of `permitted` probe outcomes while HALF_OPEN, and says:
//   CLOSED: admit; OPEN after the outcome that brings total >= minimum and failures*100 >= thr*total.
//   OPEN: short-circuit while LESS than waitDurationInOpenState can have passed since the
//         transition (upper bound: since the opening request STARTED); admit as a probe once MORE
//         than the wait has certainly passed (lower bound: since the opening request RETURNED; the
//         harness sleeps the wait out); in between either is accepted and the reference follows.
//   HALF_OPEN: the first `permitted` requests are admitted; after their `permitted` outcomes the
//         breaker is CLOSED (fresh window) or OPEN again.
// Only lower/upper bounds measured around the calls are used; no decision depends on a sleep being
// short.
func TestVerifC10BreakerCancel(t *testing.T) {
	vf := vfBegin(t, "C10")
	defer vf.End()
	defer vfC10Install()()
	rapid.Check(t, func(rt *rapid.T) {
		ps := vfC10PoolSpec{FailureCodes: vfC10GenFailureCodes(rt)}
		ps.Retry = vfC10RetrySpec{
			MaxAttempts: rapid.IntRange(1, 3).Draw(rt, "maxAttempts"),
			Wait:        time.Duration(rapid.IntRange(1, 2).Draw(rt, "waitMs")) * time.Millisecond,
			Factor:      rapid.SampledFrom([]float64{0, 0.5, 1}).Draw(rt, "factor"),
			BackOff:     rapid.SampledFrom([]string{"random", "exponential"}).Draw(rt, "backOff"),
		}
		if rapid.IntRange(0, 2).Draw(rt, "noRetryPolicy") == 0 {
			ps.Retry.Disabled = true
		}
		w := rapid.IntRange(2, 6).Draw(rt, "window")
		mn := rapid.IntRange(1, w).Draw(rt, "minimum")
		br := &vfC10BreakerSpec{Window: w, Minimum: mn,
			Threshold: rapid.SampledFrom([]int{100, 50, 51, 34, 67, 75, 1}).Draw(rt, "threshold")}
		halfOpenMode := rapid.IntRange(0, 9).Draw(rt, "halfOpenMode") < 6
		if halfOpenMode {
			br.WaitOpenMs = rapid.IntRange(20, 30).Draw(rt, "waitOpenMs")
			maxP := mn
			if maxP > 3 {
				maxP = 3
			}
			br.Permitted = rapid.IntRange(1, maxP).Draw(rt, "permitted")
		}
		ps.Breaker = br
		nreq := rapid.IntRange(4, 12).Draw(rt, "nreq")
		failBias := rapid.SampledFrom([]int{100, 80, 50, 20}).Draw(rt, "failBias")
		cancelPct := rapid.SampledFrom([]int{30, 50, 70, 100}).Draw(rt, "cancelPct")

		env := vfC10NewEnv(rt, ps)
		defer env.close()
		t0 := time.Now()

		const (
			stClosed   = "CLOSED"
			stOpen     = "OPEN"
			stHalfOpen = "HALF_OPEN"
		)
		state := stClosed
		var window []bool // CLOSED: final outcomes (true = failed) of the last w admitted client requests
		var probes []bool // HALF_OPEN: outcomes of the probes so far
		var openStart, openReturn time.Duration
		var hist, keyHist []string
		waitsLeft := 3
		// statistics for the classes / non-triviality
		admitted, opened, cancelledFailedRecorded, cancelled499, probesCancelled, closedFromHO, reopenedFromHO, shorted, ambiguous := 0, 0, 0, 0, 0, 0, 0, 0, 0
		cancelMattered := false // a cancelled request's outcome was part of a window/probe list when a transition was decided

		goOpen := func(start, ret time.Duration) {
			state, probes = stOpen, nil
			openStart, openReturn = start, ret
			opened++
		}
		for j := 0; j < nreq; j++ {
			// sleep the OPEN state out (lower bound only: Sleep never returns early)
			if state == stOpen && halfOpenMode && waitsLeft > 0 && rapid.IntRange(0, 9).Draw(rt, "sleepOpenOut") < 7 {
				waitsLeft--
				time.Sleep(br.waitOpen() + 2*time.Millisecond)
				hist = append(hist, fmt.Sprintf("-- slept %v + 2ms", br.waitOpen()))
			}
			plan := vfC10Req{Cancel: vfC10Cancel{Mode: "none"}}
			// sensitivity knob (not used by the spec): cancel only half-open probes
			cancelAllowed := os.Getenv("VFC10_CANCEL_ONLY_IN_HALFOPEN") == "" || state == stHalfOpen || (state == stOpen && halfOpenMode)
			if rapid.IntRange(0, 99).Draw(rt, "cancelThis") < cancelPct && cancelAllowed {
				plan.Cancel.Mode = rapid.SampledFrom([]string{"during", "during", "during", "before"}).Draw(rt, "cancelMode")
				if plan.Cancel.Mode == "during" {
					plan.Cancel.At = rapid.IntRange(0, ps.Retry.max()-1).Draw(rt, "cancelAt")
				}
			}
			if plan.Cancel.Mode != "none" && rapid.IntRange(0, 2).Draw(rt, "endByDeadline") == 0 {
				plan.Cancel.End = "deadline" // the request's own deadline expires there
			}
			cn := plan.Cancel
			plan.Script = vfC10GenScript(rt, ps, func(i int) bool { return cn.Mode == "before" || (cn.Mode == "during" && cn.At == i) })
			probeOK := state != stClosed && rapid.IntRange(0, 9).Draw(rt, "probeOK") < 4
			if probeOK {
				// a probe the backend answers well (cancelled or not)
				for i := range plan.Script {
					plan.Script[i] = vfC10Outcome{Kind: "code", Code: 200}
				}
			} else if rapid.IntRange(0, 99).Draw(rt, "forceFail") < failBias {
				for i := range plan.Script {
					if ps.success(plan.Script[i]) {
						plan.Script[i] = vfC10Outcome{Kind: "code", Code: ps.FailureCodes[0]}
					}
				}
				// the classic 499: the client goes away while the backend is silent / the connection breaks
				if cn.Mode == "during" && rapid.IntRange(0, 2).Draw(rt, "silentWhenCancelled") > 0 {
					plan.Script[cn.At] = vfC10Outcome{Kind: rapid.SampledFrom([]string{"block", "neterr"}).Draw(rt, "silentKind")}
				}
			}
			plan.Body = vfC10GenBody(rt, false)

			tStart := time.Since(t0)
			res := env.do(plan)
			tEnd := time.Since(t0)
			if res.Hung {
				vfC10Inconclusive(rt, fmt.Sprintf("client request #%d", j), ps, plan, res)
			}
			hist = append(hist, fmt.Sprintf("#%d [reference %s] started %v returned %v %s\n%s", j, state, tStart, tEnd, plan, res.ledger(true)))
			keyHist = append(keyHist, state+plan.String()+res.ledger(false))
			report := func(key, format string, args ...interface{}) bool {
				vf.Violation(rt, key, "pool: %s\nhistory (one entry per client request):\n%s\n%s\nreference before request #%d: state=%s window(true=failed)=%v probes=%v; OPEN since a request that started at %v and returned at %v",
					ps, strings.Join(hist, "\n"), fmt.Sprintf(format, args...), j, state, window, probes, openStart, openReturn)
				return false
			}
			isShort := res.Result == resultShortCircuited

			if state == stOpen {
				mustAdmit := tStart-openReturn > br.waitOpen()
				mustShort := tEnd-openStart < br.waitOpen()
				switch {
				case mustAdmit && isShort:
					report("breaker: request short-circuited although waitDurationInOpenState has certainly elapsed (one outcome per admitted request)",
						"request #%d started %v after the opening request had returned (wait %v) and was short-circuited", j, tStart-openReturn, br.waitOpen())
					return
				case mustShort && !isShort:
					report("breaker: request admitted although one-record-per-request bookkeeping says OPEN",
						"request #%d returned %v after the opening request had started (wait %v) and was not short-circuited (result=%q status=%d attempts=%d)",
						j, tEnd-openStart, br.waitOpen(), res.Result, res.Status, len(res.Attempts))
					return
				}
				if !mustAdmit && !mustShort {
					ambiguous++
					vf.Class("ambiguous-open-wait-may-have-elapsed")
				}
				if !isShort {
					state, probes = stHalfOpen, nil
				}
			} else if isShort {
				// CLOSED, or HALF_OPEN with fewer than `permitted` probes issued
				report(fmt.Sprintf("breaker: request short-circuited although one-record-per-request bookkeeping says %s", state),
					"request #%d was short-circuited; reference: state=%s probes so far=%d of %d permitted", j, state, len(probes), br.permitted())
				return
			}
			if isShort {
				if res.Panicked || res.Status != http.StatusServiceUnavailable || len(res.Attempts) != 0 {
					report("breaker: short-circuited request contacted the backend or is not a 503",
						"request #%d: status=%d attempts=%d panicked=%v", j, res.Status, len(res.Attempts), res.Panicked)
					return
				}
				shorted++
				continue
			}
			if !vfC10Judge(vf, ps, plan, res, report) {
				return
			}
			// exactly one outcome for this admitted client request, cancelled or not
			admitted++
			failed := res.Result != ""
			wasCancelled := res.CancelAt >= 0
			if wasCancelled && failed {
				cancelledFailedRecorded++
				if res.Result == resultClientError {
					cancelled499++
				}
			}
			if state == stClosed {
				window = append(window, failed)
				if len(window) > br.Window {
					window = window[1:]
				}
				fails := 0
				for _, f := range window {
					if f {
						fails++
					}
				}
				if len(window) >= br.Minimum && fails*100 >= br.Threshold*len(window) {
					if wasCancelled && failed {
						cancelMattered = true
					}
					goOpen(tStart, tEnd)
					window = nil
				}
			} else { // HALF_OPEN
				probes = append(probes, failed)
				if wasCancelled && failed {
					probesCancelled++
					cancelMattered = true
				}
				if len(probes) >= br.permitted() {
					fails := 0
					for _, f := range probes {
						if f {
							fails++
						}
					}
					if fails*100 >= br.Threshold*len(probes) {
						reopenedFromHO++
						goOpen(tStart, tEnd)
					} else {
						closedFromHO++
						state, probes, window = stClosed, nil, nil
					}
				}
			}
		}
		if halfOpenMode {
			vf.Class("breakercancel-mode=half-open (waitOpen 20-30ms)")
		} else {
			vf.Class("breakercancel-mode=closed/open only (waitOpen 1h)")
		}
		if ps.Retry.Disabled {
			vf.Class("breakercancel-no-retry-policy")
		}
		if opened > 0 {
			vf.Class("breakercancel-opened")
		}
		if cancelled499 > 0 {
			vf.Class("breakercancel-499-recorded")
		}
		if cancelledFailedRecorded > 0 {
			vf.Class("breakercancel-cancelled-failed-request-admitted")
		}
		if probesCancelled > 0 {
			vf.Class("breakercancel-half-open-probe-cancelled")
		}
		if closedFromHO > 0 {
			vf.Class("breakercancel-closed-from-half-open")
		}
		if reopenedFromHO > 0 {
			vf.Class("breakercancel-reopened-from-half-open")
		}
		if shorted > 0 {
			vf.Class("breakercancel-short-circuit-observed")
		}
		if cancelMattered {
			vf.Class("breakercancel-cancelled-outcome-decided-a-transition")
		}
		// non-trivial: the outcome of a cancelled failed request was the one that decided a transition
		// (opened the breaker, or was one of the half-open probe verdicts)
		vf.Case(cancelMattered, ps.String()+"||"+strings.Join(keyHist, "|"), func() interface{} {
			return map[string]interface{}{"pool": ps.String(), "requests": nreq, "admitted": admitted, "short_circuited": shorted,
				"opened": opened, "ambiguous_waits": ambiguous, "history": hist}
		})
	})
}
