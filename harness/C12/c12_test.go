//go:build go1.21

package httpserver

import (
	"fmt"
	"testing"

	"pgregory.net/rapid"
)

// vfCollidingPair returns two requests whose host+method+path concatenations coincide although
// host/method (or method/path) differ. Go's server accepts any token as a method.
func vfCollidingPair(t *rapid.T, srv vfServer) []vfReq {
	host := rapid.SampledFrom([]string{"a.com", "b.com"}).Draw(t, "col.host")
	path := rapid.SampledFrom(vfPathsPool).Draw(t, "col.path")
	switch rapid.IntRange(0, 2).Draw(t, "col.kind") {
	case 0: // host/method split: "a.comP"+"UT" vs "a.com"+"PUT"
		return []vfReq{{Method: "PUT", Host: host, Path: path}, {Method: "UT", Host: host + "P", Path: path}}
	case 1: // "a.com"+"GET" vs "a.comG"+"ET"
		return []vfReq{{Method: "GET", Host: host, Path: path}, {Method: "ET", Host: host + "G", Path: path}}
	default: // host "a.com80" vs "a.com" + method "80GET"? methods are tokens: digits are allowed
		return []vfReq{{Method: "GET", Host: "a.com80", Path: path}, {Method: "80GET", Host: "a.com", Path: path}}
	}
}

// TestVerifC12Twin: the same request sequence is fed to a mux with the cache on and to a twin
// built from the same YAML with cacheSize 0; every position must agree.
func TestVerifC12Twin(t *testing.T) {
	vf := vfBegin(t, "C12")
	defer vf.End()
	rapid.Check(t, func(rt *rapid.T) {
		srv := vfGenServer(rt, vfGenOpts{IPFilters: rapid.Bool().Draw(rt, "ipf"), IPPool: vfIPPool, Bias12: true, BodyLimit: rapid.Bool().Draw(rt, "bodylimit")})
		srv.CacheSize = rapid.SampledFrom([]int{1, 2, 8, 64}).Draw(rt, "cache")
		twin := srv
		twin.CacheSize = 0
		y, y0 := srv.YAML(), twin.YAML()
		mapper, mapper0 := &vfMapper{live: vfLive}, &vfMapper{live: vfLive}
		m, err := vfNewMux(y, mapper)
		if err != nil {
			rt.Fatalf("VF-INCONCLUSIVE generator produced a spec that validation rejects: %v\n%s", err, y)
		}
		m0, err := vfNewMux(y0, mapper0)
		if err != nil {
			rt.Fatalf("VF-INCONCLUSIVE twin spec rejected: %v", err)
		}
		var extra []vfReq
		collide := rapid.IntRange(0, 3).Draw(rt, "collide") == 0
		if collide {
			extra = vfCollidingPair(rt, srv)
		}
		seq, _ := vfGenSeq(rt, srv, 5, 40, extra)
		if rapid.Bool().Draw(rt, "bodies") {
			// request bodies around the generated clientMaxBodySize values (10 / 1000 / -1 / default)
			for i := range seq {
				seq[i].BodyLen = rapid.SampledFrom([]int{0, 5, 20, 20, 2000}).Draw(rt, "bodylen")
			}
			vf.Class("sequence-with-bodies")
		}

		// shadow computation of the documented cache key (host+method+path): who populated it
		firstByKey := map[string]vfReq{}
		distinctKeys := map[string]bool{}
		hitOther, collisionHit := false, false
		for i, req := range seq {
			got := vfServe(m, mapper, req)
			want := vfServe(m0, mapper0, req)
			ck := req.Host + req.Method + req.Path
			distinctKeys[ck] = true
			if prev, ok := firstByKey[ck]; ok {
				if prev.String() != req.String() {
					hitOther = true
				}
				if prev.Host != req.Host || prev.Method != req.Method {
					collisionHit = true
				}
			} else {
				firstByKey[ck] = req
			}
			if got.key() != want.key() || got.Calls != want.Calls || got.BodyLen != want.BodyLen {
				key := vfC12Classify(srv, seq[:i+1], got, want)
				vf.Violation(rt, key, "cache=%d position #%d\nspec:\n%s\nsequence:\n%swith cache: %s (calls %d)   without cache: %s (calls %d)",
					srv.CacheSize, i, y, vfSeqString(seq[:i+1]), got.key(), got.Calls, want.key(), want.Calls)
				return
			}
		}
		if hitOther {
			vf.Class("hit-by-different-request")
		}
		if collisionHit {
			vf.Class("hit-by-colliding-key")
		}
		if srv.CacheSize < len(distinctKeys) {
			vf.Class("eviction")
		}
		vf.Class(fmt.Sprintf("cache=%d", srv.CacheSize))
		vf.Case(hitOther, y+vfSeqString(seq), func() interface{} {
			return map[string]interface{}{"spec": y, "sequence": vfSeqString(seq)}
		})
	})
}

// vfC12Classify names the failing class (the key of a finding), from the shape of the failure.
func vfC12Classify(srv vfServer, seq []vfReq, got, want vfObserved) string {
	last := seq[len(seq)-1]
	ck := last.Host + last.Method + last.Path
	var prev *vfReq
	for i := range seq[:len(seq)-1] {
		if seq[i].Host+seq[i].Method+seq[i].Path == ck {
			prev = &seq[i]
			break
		}
	}
	switch {
	case got.Status == 413 || want.Status == 413 || (got.Status == 200 && want.Status == 200 && got.Backend == want.Backend && got.Path == want.Path):
		return "cached-route-applies-other-body-limit"
	case prev != nil && (prev.Host != last.Host || prev.Method != last.Method):
		return "cache-key-collision"
	case want.Status == 403 && got.Status != 403:
		return fmt.Sprintf("cached-%d-hides-ipfilter-403", got.Status)
	case got.Status == 403 && want.Status != 403:
		return "cache-hit-403-where-uncached-routes"
	case want.Status == 200 && got.Status == 200 && (want.Backend != got.Backend || want.Path != got.Path):
		return "header-conditioned-entry-shadowed-by-cached-entry"
	case want.Status == 400 && got.Status == 200, want.Status == 200 && got.Status == 400:
		return "header-condition-skipped-by-cached-entry"
	}
	return fmt.Sprintf("twin-mismatch-%d-vs-%d", got.Status, want.Status)
}
