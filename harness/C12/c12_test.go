//go:build go1.21

package httpserver

import (
	"fmt"
	"testing"

	"github.com/megaease/easegress/pkg/supervisor"

	"pgregory.net/rapid"
)

// vfCollidingPair returns two requests whose host+method+path concatenations coincide although
// host/method (or method/path) differ. Go's server accepts any token as a method.
func vfCollidingPair(t *rapid.T, srv vfServer) []vfReq {
	host := rapid.SampledFrom([]string{"a.com", "b.com"}).Draw(t, "col.host")
	path := rapid.SampledFrom(vfPathsPool).Draw(t, "col.path")
	switch rapid.IntRange(0, 2).Draw(t, "col.kind") {
	case 0: // host/method split: "a.comP"+"UT" vs "a.com"+"PUT"
		return []vfReq{{Method: "PUT", Host: host, Path: path}, {Method: "UT", Host: host + "P", Path: path}}
	case 1: // "a.com"+"GET" vs "a.comG"+"ET"
		return []vfReq{{Method: "GET", Host: host, Path: path}, {Method: "ET", Host: host + "G", Path: path}}
	default: // host "a.com80" vs "a.com" + method "80GET"? methods are tokens: digits are allowed
		return []vfReq{{Method: "GET", Host: "a.com80", Path: path}, {Method: "80GET", Host: "a.com", Path: path}}
	}
}

// TestVerifC12Twin: the same request sequence is fed to a mux with the cache on and to a twin
// built from the same YAML with cacheSize 0; every position must agree.
func TestVerifC12Twin(t *testing.T) {
	vf := vfBegin(t, "C12")
	defer vf.End()
	rapid.Check(t, func(rt *rapid.T) {
		srv := vfGenServer(rt, vfGenOpts{IPFilters: rapid.Bool().Draw(rt, "ipf"), IPPool: vfIPPool, Bias12: true, BodyLimit: rapid.Bool().Draw(rt, "bodylimit"),
			NoHeaders: rapid.IntRange(0, 3).Draw(rt, "noheaders") == 0, ServerIPF: rapid.Bool().Draw(rt, "serveripf")})
		srv.CacheSize = rapid.SampledFrom([]int{1, 2, 8, 64}).Draw(rt, "cache")
		// by construction, in a fifth of the cases: a host rule whose only entry for a path is
		// header-conditioned, ahead of a catch-all rule that serves the same path unconditionally, and the
		// same key requested without and with the header (what is cached for the one must not decide the other)
		var crossExtra []vfReq
		if rapid.IntRange(0, 4).Draw(rt, "crosshdr") == 0 {
			h := rapid.SampledFrom([]string{"a.com", "b.com", "x.a.com"}).Draw(rt, "crosshdr.host")
			P := rapid.SampledFrom(vfPathsPool).Draw(rt, "crosshdr.path")
			ruleA := vfRule{Host: h, Paths: []vfPath{{Path: P, Backend: "p1", Headers: []vfHdr{{Key: "X-A", Values: []string{"1"}}}}}}
			ruleB := vfRule{Paths: []vfPath{{Path: P, Backend: "p2"}}}
			if rapid.Bool().Draw(rt, "crosshdr.prefix") {
				ruleB.Paths[0] = vfPath{Prefix: "/", Backend: "p2"}
			}
			srv.Rules = append([]vfRule{ruleA, ruleB}, srv.Rules...)
			crossExtra = []vfReq{{Method: "GET", Host: h, Path: P}, {Method: "GET", Host: h, Path: P, Headers: [][2]string{{"X-A", "1"}}},
				{Method: "GET", Host: h, Path: P, Headers: [][2]string{{"X-A", "2"}}}}
			vf.Class("header-conditioned-entry-of-a-host-rule-ahead-of-a-catch-all-rule")
		}
		twin := srv
		twin.CacheSize = 0
		y, y0 := srv.YAML(), twin.YAML()
		mapper, mapper0 := &vfMapper{live: vfLive}, &vfMapper{live: vfLive}
		m, err := vfNewMux(y, mapper)
		if err != nil {
			rt.Fatalf("VF-INCONCLUSIVE generator produced a spec that validation rejects: %v\n%s", err, y)
		}
		m0, err := vfNewMux(y0, mapper0)
		if err != nil {
			rt.Fatalf("VF-INCONCLUSIVE twin spec rejected: %v", err)
		}
		var extra []vfReq
		collide := rapid.IntRange(0, 3).Draw(rt, "collide") == 0
		if collide {
			extra = vfCollidingPair(rt, srv)
		}
		extra = append(extra, crossExtra...)
		seq, _ := vfGenSeq(rt, srv, 5, 40, extra)
		// clients whose real IP is empty or not an address (X-Forwarded-For with private hops only and no
		// X-Real-Ip; a junk X-Real-Ip): whatever the filters decide for them, both twins must decide alike
		noIP := 0
		for i := range seq {
			if rapid.IntRange(0, 6).Draw(rt, "noip") != 0 {
				continue
			}
			var hs [][2]string
			for _, kv := range seq[i].Headers {
				if kv[0] != "X-Real-Ip" && kv[0] != "X-Forwarded-For" {
					hs = append(hs, kv)
				}
			}
			hs = append(hs, rapid.SampledFrom([][2]string{{"X-Forwarded-For", "10.1.2.3, 192.168.0.1"}, {"X-Real-Ip", "junk"},
				{"X-Forwarded-For", "unknown"}, {"X-Real-Ip", "10.0.0.300"}, {"X-Forwarded-For", "fe80::1"}}).Draw(rt, "noipform"))
			seq[i].Headers = hs
			seq[i].Remote = "192.0.2.7:4321"
			noIP++
		}
		if noIP > 0 {
			vf.Class("sequence-with-client-without-a-parseable-real-ip")
		}
		var reloadSpecs [2]*supervisor.Spec
		if rapid.Bool().Draw(rt, "bodies") {
			// request bodies around the generated clientMaxBodySize values (10 / 1000 / -1 / default)
			for i := range seq {
				seq[i].BodyLen = rapid.SampledFrom([]int{0, 5, 20, 20, 2000}).Draw(rt, "bodylen")
			}
			vf.Class("sequence-with-bodies")
		}

		// optional hot update in the middle: both servers are reloaded with the same new spec (same
		// rules, server-level options / IP filters changed) - the cache must not carry anything over
		reloadAt := -1
		var y2 string
		if rapid.IntRange(0, 2).Draw(rt, "reload") == 0 && len(seq) > 2 {
			reloadAt = rapid.IntRange(1, len(seq)-1).Draw(rt, "reloadAt")
			srv2 := srv
			srv2.IPF = nil
			switch rapid.IntRange(0, 4).Draw(rt, "srv2.ipf") {
			case 0, 4: // filter removed (or still none)
			case 1: // relaxed: one block entry dropped / one allow entry added
				if srv.IPF != nil {
					f := *srv.IPF
					if len(f.Block) > 0 {
						f.Block = append([]string{}, f.Block[1:]...)
					} else {
						f.BlockByDefault = false
					}
					srv2.IPF = &f
				}
			default:
				srv2.IPF = vfGenIPF(rt, "srv2.ipf", vfIPPool)
			}
			srv2.XFF = !srv.XFF
			if rapid.Bool().Draw(rt, "srv2.maxbody") {
				srv2.MaxBody = rapid.SampledFrom([]int64{0, 10, 1000}).Draw(rt, "srv2.maxbodyv")
			}
			y2 = srv2.YAML()
			tw2 := srv2
			tw2.CacheSize = 0
			ss2, err := supervisor.NewSpec(y2)
			ss20, err0 := supervisor.NewSpec(tw2.YAML())
			if err != nil || err0 != nil {
				rt.Fatalf("VF-INCONCLUSIVE reload spec rejected: %v %v", err, err0)
			}
			defer func() { _ = ss2; _ = ss20 }()
			vf.Class("sequence-with-reload")
			reloadSpecs = [2]*supervisor.Spec{ss2, ss20}
		}

		// shadow computation of the documented cache key (host+method+path): who populated it
		firstByKey := map[string]vfReq{}
		distinctKeys := map[string]bool{}
		hitOther, collisionHit := false, false
		for i, req := range seq {
			if i == reloadAt {
				m.reload(reloadSpecs[0], mapper)
				m0.reload(reloadSpecs[1], mapper0)
				y += "--- both reloaded at #" + fmt.Sprint(i) + " with\n" + y2
				firstByKey = map[string]vfReq{}
			}
			got := vfServe(m, mapper, req)
			want := vfServe(m0, mapper0, req)
			ck := req.Host + req.Method + req.Path
			distinctKeys[ck] = true
			if prev, ok := firstByKey[ck]; ok {
				if prev.String() != req.String() {
					hitOther = true
				}
				if prev.Host != req.Host || prev.Method != req.Method {
					collisionHit = true
				}
			} else {
				firstByKey[ck] = req
			}
			if got.key() != want.key() || got.Calls != want.Calls || got.BodyLen != want.BodyLen {
				key := vfC12Classify(srv, seq[:i+1], got, want)
				vf.Violation(rt, key, "cache=%d position #%d\nspec:\n%s\nsequence:\n%swith cache: %s (calls %d)   without cache: %s (calls %d)",
					srv.CacheSize, i, y, vfSeqString(seq[:i+1]), got.key(), got.Calls, want.key(), want.Calls)
				return
			}
		}
		if hitOther {
			vf.Class("hit-by-different-request")
		}
		if collisionHit {
			vf.Class("hit-by-colliding-key")
		}
		if srv.CacheSize < len(distinctKeys) {
			vf.Class("eviction")
		}
		vf.Class(fmt.Sprintf("cache=%d", srv.CacheSize))
		vf.Case(hitOther, y+vfSeqString(seq), func() interface{} {
			return map[string]interface{}{"spec": y, "sequence": vfSeqString(seq)}
		})
	})
}

// vfC12Classify names the failing class (the key of a finding), from the shape of the failure.
func vfC12Classify(srv vfServer, seq []vfReq, got, want vfObserved) string {
	last := seq[len(seq)-1]
	ck := last.Host + last.Method + last.Path
	var prev *vfReq
	for i := range seq[:len(seq)-1] {
		if seq[i].Host+seq[i].Method+seq[i].Path == ck {
			prev = &seq[i]
			break
		}
	}
	switch {
	case got.Status == 413 || want.Status == 413 || (got.Status == 200 && want.Status == 200 && got.Backend == want.Backend && got.Path == want.Path):
		return "cached-route-applies-other-body-limit"
	case prev != nil && (prev.Host != last.Host || prev.Method != last.Method):
		return "cache-key-collision"
	case want.Status == 403 && got.Status != 403:
		return fmt.Sprintf("cached-%d-hides-ipfilter-403", got.Status)
	case got.Status == 403 && want.Status != 403:
		return "cache-hit-403-where-uncached-routes"
	case want.Status == 200 && got.Status == 200 && (want.Backend != got.Backend || want.Path != got.Path):
		return "header-conditioned-entry-shadowed-by-cached-entry"
	case want.Status == 400 && got.Status == 200, want.Status == 200 && got.Status == 400:
		return "header-condition-skipped-by-cached-entry"
	}
	return fmt.Sprintf("twin-mismatch-%d-vs-%d", got.Status, want.Status)
}
