//go:build go1.21

// vfxrig: loopback rig shared by the C03 and C07 harnesses.
//
//	raw-socket client  --->  http.Server{Handler: mux}  --->  real Pipeline  --->  httptest backend
//	(own HTTP/1.1 parser       (as runtime.startServer          (RequestAdaptor? ->       (records what it
//	 + framing validator)       builds it, 127.0.0.1:0)          Proxy -> ResponseAdaptor?) receives, answers a script)
//
// Everything is prefixed vfx (the stamped helper uses vf…).
package httpserver

import (
	"bufio"
	"bytes"
	"compress/gzip"
	"errors"
	"fmt"
	"io"
	"log"
	"net"
	"net/http"
	"net/http/httptest"
	"os"
	"strconv"
	"strings"
	"sync"
	"time"

	egcontext "github.com/megaease/easegress/pkg/context"
	_ "github.com/megaease/easegress/pkg/filters/mock"
	_ "github.com/megaease/easegress/pkg/filters/proxy"
	_ "github.com/megaease/easegress/pkg/filters/requestadaptor"
	_ "github.com/megaease/easegress/pkg/filters/responseadaptor"
	"github.com/megaease/easegress/pkg/logger"
	"github.com/megaease/easegress/pkg/object/pipeline"
	"github.com/megaease/easegress/pkg/protocols/httpprot/httpstat"
	"github.com/megaease/easegress/pkg/supervisor"
	"github.com/megaease/easegress/pkg/util/limitlistener"
)

func init() { logger.InitNop() }

// vfxIOTimeout is the per-request I/O deadline. Its expiry is never a verdict (VF-INCONCLUSIVE).
const vfxIOTimeout = 60 * time.Second

// ---------------------------------------------------------------------------------------------
// deterministic payloads

// vfxBody returns n deterministic bytes. kind 0: text-like (compressible), kind 1: noise.
func vfxBody(seed uint32, n int, kind int) []byte {
	out := make([]byte, n)
	x := seed*2654435761 + 0x9e3779b9
	if x == 0 {
		x = 1
	}
	next := func() uint32 {
		x ^= x << 13
		x ^= x >> 17
		x ^= x << 5
		return x
	}
	if kind == 1 {
		for i := range out {
			out[i] = byte(next() >> 11)
		}
		return out
	}
	const alpha = "etaoin shrdlu\n{}\":,0123456789ETAOIN"
	i := 0
	for i < n {
		r := next()
		c := alpha[int(r>>8)%len(alpha)]
		run := 1 + int(r>>20)%5
		for j := 0; j < run && i < n; j++ {
			out[i] = c
			i++
		}
	}
	return out
}

func vfxGzip(b []byte) []byte {
	var buf bytes.Buffer
	zw := gzip.NewWriter(&buf)
	_, _ = zw.Write(b)
	_ = zw.Close()
	return buf.Bytes()
}

func vfxGunzip(b []byte) ([]byte, error) {
	zr, err := gzip.NewReader(bytes.NewReader(b))
	if err != nil {
		return nil, err
	}
	defer zr.Close()
	return io.ReadAll(zr)
}

// vfxBrief renders a body for messages without flooding them.
func vfxBrief(b []byte) string {
	if len(b) <= 48 {
		return fmt.Sprintf("%d bytes %q", len(b), b)
	}
	return fmt.Sprintf("%d bytes %q…%q", len(b), b[:24], b[len(b)-16:])
}

// ---------------------------------------------------------------------------------------------
// configuration -> YAML (always pushed through supervisor.NewSpec)

type vfxPathCfg struct {
	Prefix    string
	ClientMax int64
	// Local: the path's backend is a second pipeline that answers by itself (a Mock filter: 200,
	// body "local") and, unlike the Proxy, never looks at the request context or the body
	Local bool
}

type vfxPoolCfg struct {
	ServerMax   int64
	FilterValue string // "" = main pool; otherwise candidate pool selected by header X-Vf-Pool == value
}

type vfxCfg struct {
	ServerClientMax int64
	Paths           []vfxPathCfg

	ReqAdaptor      string // "", body, compress, decompress, body+compress
	ReqAdaptorBody  string
	RespAdaptor     string // "", body, compress, decompress, body+compress
	RespAdaptorBody string

	ProxyServerMax int64
	Pools          []vfxPoolCfg
	Compression    int // -1 absent, else minLength
	ByHostName     bool
	KeepHost       bool
	PoolTimeout    string // "" or a duration (outside the stated quantifier; thorough-only dimension)

	RetryAttempts int   // > 0: a Retry policy with that many attempts (waitDuration 1ms) on every pool
	FailureCodes  []int // failureCodes of every pool

	CacheSize uint32       // route cache of the HTTPServer (0 = off)
	MemCache  *vfxMemCache // memoryCache of every pool (nil = none)

	// Mirror: the Proxy gets a mirrorPool that matches requests carrying the header
	// "X-Vf-Mirror: 1"; its server is the same loopback backend under the path prefix /vfmirror, so
	// that mirrored copies are recorded apart from what the selected backend receives
	Mirror bool
}

// vfxKeyMirrorCancel: key of the finding "a request after a mirrored one is answered 503 although
// the backend answered it" (shared by C03 and C07, see harness/C03/proposed_known.jsonl).
const vfxKeyMirrorCancel = "mirrorPool-copy-cancelled-with-its-front-request-tears-down-reused-backend-connection-next-request-503-although-backend-answered"

const (
	vfxMirrorPrefix = "/vfmirror"
	vfxMirrorHeader = "X-Vf-Mirror"
)

// vfxMemCache is the memoryCache section of a pool.
type vfxMemCache struct {
	Expiration    string
	MaxEntryBytes int
	Codes         []int
	Methods       []string
}

func (c *vfxCfg) serverYAML() string {
	var b strings.Builder
	b.WriteString("kind: HTTPServer\nname: vfx-server\nport: 10080\nkeepAlive: true\nhttps: false\n")
	fmt.Fprintf(&b, "cacheSize: %d\n", c.CacheSize)
	if c.ServerClientMax != 0 {
		fmt.Fprintf(&b, "clientMaxBodySize: %d\n", c.ServerClientMax)
	}
	b.WriteString("rules:\n- paths:\n")
	for _, p := range c.Paths {
		backend := "pipe"
		if p.Local {
			backend = "local"
		}
		fmt.Fprintf(&b, "  - pathPrefix: %s\n    backend: %s\n", strconv.Quote(p.Prefix), backend)
		if p.ClientMax != 0 {
			fmt.Fprintf(&b, "    clientMaxBodySize: %d\n", p.ClientMax)
		}
	}
	return b.String()
}

func (c *vfxCfg) pipelineYAML(backendHostPort string) string {
	var b strings.Builder
	b.WriteString("name: pipe\nkind: Pipeline\n")
	if c.RetryAttempts > 0 {
		fmt.Fprintf(&b, "resilience:\n- name: vfretry\n  kind: Retry\n  maxAttempts: %d\n  waitDuration: 1ms\n", c.RetryAttempts)
	}
	b.WriteString("filters:\n")
	if c.ReqAdaptor != "" {
		b.WriteString("- name: reqadapt\n  kind: RequestAdaptor\n")
		switch c.ReqAdaptor {
		case "body":
			fmt.Fprintf(&b, "  body: %s\n", strconv.Quote(c.ReqAdaptorBody))
		case "compress":
			b.WriteString("  compress: gzip\n")
		case "decompress":
			b.WriteString("  decompress: gzip\n")
		case "body+compress":
			fmt.Fprintf(&b, "  body: %s\n  compress: gzip\n", strconv.Quote(c.ReqAdaptorBody))
		}
	}
	b.WriteString("- name: proxy\n  kind: Proxy\n")
	if c.ProxyServerMax != 0 {
		fmt.Fprintf(&b, "  serverMaxBodySize: %d\n", c.ProxyServerMax)
	}
	if c.Compression >= 0 {
		fmt.Fprintf(&b, "  compression:\n    minLength: %d\n", c.Compression)
	}
	b.WriteString("  pools:\n")
	for _, p := range c.Pools {
		b.WriteString("  - servers:\n")
		fmt.Fprintf(&b, "    - url: http://%s\n", backendHostPort)
		if c.KeepHost {
			b.WriteString("      keepHost: true\n")
		}
		if p.ServerMax != 0 {
			fmt.Fprintf(&b, "    serverMaxBodySize: %d\n", p.ServerMax)
		}
		if c.PoolTimeout != "" {
			fmt.Fprintf(&b, "    timeout: %s\n", c.PoolTimeout)
		}
		if c.RetryAttempts > 0 {
			b.WriteString("    retryPolicy: vfretry\n")
		}
		if len(c.FailureCodes) > 0 {
			fmt.Fprintf(&b, "    failureCodes: %s\n", strings.ReplaceAll(fmt.Sprint(c.FailureCodes), " ", ", "))
		}
		if m := c.MemCache; m != nil {
			fmt.Fprintf(&b, "    memoryCache:\n      expiration: %s\n      maxEntryBytes: %d\n      codes: %s\n      methods: [%s]\n",
				m.Expiration, m.MaxEntryBytes, strings.ReplaceAll(fmt.Sprint(m.Codes), " ", ", "), strings.Join(m.Methods, ", "))
		}
		if p.FilterValue != "" {
			fmt.Fprintf(&b, "    filter:\n      headers:\n        X-Vf-Pool:\n          exact: %s\n", strconv.Quote(p.FilterValue))
		}
	}
	if c.Mirror {
		fmt.Fprintf(&b, "  mirrorPool:\n    servers:\n    - url: http://%s%s\n    filter:\n      headers:\n        %s:\n          exact: \"1\"\n",
			backendHostPort, vfxMirrorPrefix, vfxMirrorHeader)
	}
	if c.RespAdaptor != "" {
		b.WriteString("- name: respadapt\n  kind: ResponseAdaptor\n")
		switch c.RespAdaptor {
		case "body":
			fmt.Fprintf(&b, "  body: %s\n", strconv.Quote(c.RespAdaptorBody))
		case "compress":
			b.WriteString("  compress: gzip\n")
		case "decompress":
			b.WriteString("  decompress: gzip\n")
		case "body+compress":
			fmt.Fprintf(&b, "  body: %s\n  compress: gzip\n", strconv.Quote(c.RespAdaptorBody))
		}
	}
	return b.String()
}

// ---------------------------------------------------------------------------------------------
// backend

// vfxScript is what the backend answers.
type vfxScript struct {
	Status   int
	Headers  [][2]string
	Body     []byte // bytes put on the wire (already encoded when the script labels them)
	Framing  string // "cl" (declared length) | "chunked" (no length, flushed) | "lying" (declared length > bytes sent, then close)
	LieExtra int
	Split    int // flush position for chunked
	// "cut" framing: the backend promises the whole body (Content-Length when CutDeclared, else
	// chunked), sends the first CutAt bytes (the last chunk torn in the middle) and drops the connection
	CutAt       int
	CutDeclared bool
	// CutNoTerminator (chunked promise only): every chunk is complete, the connection is dropped
	// where the terminating zero-length chunk should come (CutAt is ignored)
	CutNoTerminator bool
	// Pre: what the backend does with the first len(Pre) arrivals of the request (attempts):
	// a status code (answered with a tiny body) or 0 = read the request, then drop the connection
	Pre []int
}

// vfxSeen is what the backend received.
type vfxSeen struct {
	Method     string
	RequestURI string
	Path       string
	RawQuery   string
	Host       string
	Header     http.Header
	Body       []byte
	BodyErr    error
	TE         []string
	CL         int64
}

func (s *vfxSeen) String() string {
	return fmt.Sprintf("%s %s host=%q hdr=%v body=%s bodyErr=%v te=%v cl=%d", s.Method, s.RequestURI, s.Host, s.Header, vfxBrief(s.Body), s.BodyErr, s.TE, s.CL)
}

type vfxMapper struct {
	mu    sync.Mutex
	h     egcontext.Handler
	local egcontext.Handler
}

func (m *vfxMapper) GetHandler(name string) (egcontext.Handler, bool) {
	m.mu.Lock()
	defer m.mu.Unlock()
	if name == "pipe" && m.h != nil {
		return m.h, true
	}
	if name == "local" && m.local != nil {
		return m.local, true
	}
	return nil, false
}

const vfxLocalPipelineYAML = "name: local\nkind: Pipeline\nfilters:\n- name: mock\n  kind: Mock\n  rules:\n  - match:\n      pathPrefix: /\n    code: 200\n    body: local\n"

// vfxHub: the two listeners of a test process. They are opened once and shared by all cases (a
// listener pair per case exhausts the ephemeral ports of a busy machine); a case installs its own
// mux / pipeline / backend script behind them.
type vfxHub struct {
	backend     *httptest.Server
	backendPort string

	front *http.Server
	addr  string

	mu       sync.Mutex
	cur      *vfxRig
	reqID    int // process-wide request counter (tag X-Vf-Req-Id)
	inflight sync.WaitGroup

	conn *vfxConn // client connection kept across requests and cases while it stays reusable

	frontLog vfxLogBuf // what net/http's ErrorLog of the front server printed (handler panics end up here)
}

var (
	vfxHubOnce sync.Once
	vfxTheHub  *vfxHub
	vfxHubErr  error
)

func (h *vfxHub) current() *vfxRig {
	h.mu.Lock()
	defer h.mu.Unlock()
	return h.cur
}

func vfxGetHub() (*vfxHub, error) {
	vfxHubOnce.Do(func() {
		h := &vfxHub{}
		h.backend = httptest.NewUnstartedServer(http.HandlerFunc(func(w http.ResponseWriter, req *http.Request) {
			if r := h.current(); r != nil {
				r.backendHandler(w, req)
				return
			}
			w.WriteHeader(598)
		}))
		h.backend.Config.ErrorLog = log.New(io.Discard, "", 0)
		h.backend.Start()
		_, h.backendPort, _ = net.SplitHostPort(h.backend.Listener.Addr().String())

		// exactly what runtime.startServer builds (minus the fixed port); the handler is the mux of
		// the current case
		ln, err := net.Listen("tcp", "127.0.0.1:0")
		if err != nil {
			vfxHubErr = err
			return
		}
		h.addr = ln.Addr().String()
		h.front = &http.Server{
			Handler: http.HandlerFunc(func(w http.ResponseWriter, req *http.Request) {
				h.mu.Lock()
				r := h.cur
				if r != nil {
					h.inflight.Add(1)
				}
				h.mu.Unlock()
				if r == nil {
					w.WriteHeader(597)
					return
				}
				defer h.inflight.Done()
				r.mux.ServeHTTP(w, req)
			}),
			IdleTimeout: 60 * time.Second,
			ErrorLog:    log.New(&h.frontLog, "", 0),
		}
		h.front.SetKeepAlivesEnabled(true)
		go func() { _ = h.front.Serve(limitlistener.NewLimitListener(ln, 10240)) }()
		vfxTheHub = h
	})
	return vfxTheHub, vfxHubErr
}

type vfxLogBuf struct {
	mu sync.Mutex
	b  bytes.Buffer
}

func (l *vfxLogBuf) Write(p []byte) (int, error) {
	l.mu.Lock()
	defer l.mu.Unlock()
	if l.b.Len() < 64<<10 {
		l.b.Write(p)
	}
	return len(p), nil
}

// take returns and clears the collected log text.
func (l *vfxLogBuf) take() string {
	l.mu.Lock()
	defer l.mu.Unlock()
	s := l.b.String()
	l.b.Reset()
	return s
}

// vfxPanicSite extracts "panic text @ first easegress frame" from a net/http "panic serving" log.
func vfxPanicSite(logText string) string {
	i := strings.Index(logText, "panic serving")
	if i < 0 {
		return ""
	}
	t := logText[i:]
	first := t
	if j := strings.IndexByte(first, '\n'); j >= 0 {
		first = first[:j]
	}
	if j := strings.Index(first, ": "); j >= 0 {
		first = first[j+2:]
	}
	site := "?"
	lines := strings.Split(t, "\n")
	for k := 0; k+1 < len(lines); k++ {
		if strings.HasPrefix(lines[k], "github.com/megaease/easegress/pkg/") && !strings.Contains(lines[k+1], "zz_vf") {
			fn := lines[k]
			if j := strings.LastIndex(fn, "("); j > 0 {
				fn = fn[:j]
			}
			if j := strings.LastIndex(fn, "/"); j >= 0 {
				fn = fn[j+1:]
			}
			site = fn
			break
		}
	}
	return first + " @ " + site
}

// vfxRig is one case's chain behind the hub's listeners.
type vfxRig struct {
	hub      *vfxHub
	cfg      *vfxCfg
	srvYAML  string
	pipeYAML string

	backendHost string // what the pipeline was told (127.0.0.1:port or localhost:port)

	pipe  *pipeline.Pipeline
	local *pipeline.Pipeline // backend of the paths marked Local (nil when there is none)
	mux   *mux

	mu         sync.Mutex
	script     *vfxScript
	seen       []*vfxSeen
	arrivals   map[string]int // request id -> how many times it reached the backend
	mapper     *vfxMapper
	mirrorSeen []*vfxSeen // what arrived under /vfmirror (copies sent by the mirrorPool)
	// mirroredBefore: an exchange before the latest one carried the mirror header (a copy of it may
	// still be around); mirroredNow: the latest one does
	mirroredBefore, mirroredNow bool
	lastReused                  bool // the latest request went out on a kept-alive connection
	reqID                       int  // id of the latest request sent (tag X-Vf-Req-Id); received() only returns its records
}

func (r *vfxRig) backendHandler(w http.ResponseWriter, req *http.Request) {
	body, err := io.ReadAll(req.Body)
	s := &vfxSeen{Method: req.Method, RequestURI: req.RequestURI, Path: req.URL.Path, RawQuery: req.URL.RawQuery,
		Host: req.Host, Header: req.Header.Clone(), Body: body, BodyErr: err,
		TE: append([]string(nil), req.TransferEncoding...), CL: req.ContentLength}
	if req.URL.Path == vfxMirrorPrefix || strings.HasPrefix(req.URL.Path, vfxMirrorPrefix+"/") {
		// a copy sent by the mirrorPool: recorded apart, never part of the script
		r.mu.Lock()
		r.mirrorSeen = append(r.mirrorSeen, s)
		r.mu.Unlock()
		w.Header().Set("Content-Length", "1")
		w.WriteHeader(200)
		_, _ = w.Write([]byte("m"))
		return
	}
	r.mu.Lock()
	r.seen = append(r.seen, s)
	sc := r.script
	id := s.Header.Get("X-Vf-Req-Id")
	if r.arrivals == nil {
		r.arrivals = map[string]int{}
	}
	arrival := r.arrivals[id]
	r.arrivals[id]++
	r.mu.Unlock()
	if sc == nil {
		w.WriteHeader(599)
		return
	}
	hijackClose := func(write func(bw *bufio.ReadWriter)) {
		hj, ok := w.(http.Hijacker)
		if !ok {
			panic(http.ErrAbortHandler)
		}
		c, bw, err := hj.Hijack()
		if err != nil {
			return
		}
		if write != nil {
			write(bw)
			_ = bw.Flush()
		}
		_ = c.Close()
	}
	if arrival < len(sc.Pre) {
		if code := sc.Pre[arrival]; code != 0 {
			w.Header().Set("Content-Length", "4")
			w.Header().Set("X-Vf-Failed-Attempt", strconv.Itoa(arrival))
			w.WriteHeader(code)
			_, _ = w.Write([]byte("fail"))
		} else {
			hijackClose(nil)
		}
		return
	}
	if sc.Framing == "cut" {
		hijackClose(func(bw *bufio.ReadWriter) {
			fmt.Fprintf(bw, "HTTP/1.1 %d Scripted\r\n", sc.Status)
			for _, kv := range sc.Headers {
				fmt.Fprintf(bw, "%s: %s\r\n", kv[0], kv[1])
			}
			cut := sc.CutAt
			if cut < 0 || cut > len(sc.Body) {
				cut = len(sc.Body)
			}
			if sc.CutDeclared {
				fmt.Fprintf(bw, "Content-Length: %d\r\n\r\n", len(sc.Body))
				_, _ = bw.Write(sc.Body[:cut])
				return
			}
			bw.WriteString("Transfer-Encoding: chunked\r\n\r\n")
			if sc.CutNoTerminator {
				first := len(sc.Body) / 2
				for _, part := range [][]byte{sc.Body[:first], sc.Body[first:]} {
					if len(part) > 0 {
						fmt.Fprintf(bw, "%x\r\n", len(part))
						_, _ = bw.Write(part)
						bw.WriteString("\r\n")
					}
				}
				return
			}
			first := cut / 2
			if first > 0 {
				fmt.Fprintf(bw, "%x\r\n", first)
				_, _ = bw.Write(sc.Body[:first])
				bw.WriteString("\r\n")
			}
			// a chunk that announces the rest of the body but is torn
			fmt.Fprintf(bw, "%x\r\n", len(sc.Body)-first)
			_, _ = bw.Write(sc.Body[first:cut])
		})
		return
	}
	h := w.Header()
	for _, kv := range sc.Headers {
		h.Add(kv[0], kv[1])
	}
	noBody := req.Method == "HEAD" || sc.Status == 204 || sc.Status == 304 || sc.Status < 200
	switch sc.Framing {
	case "cl":
		if sc.Status != 204 && sc.Status != 304 {
			h.Set("Content-Length", strconv.Itoa(len(sc.Body)))
		}
		w.WriteHeader(sc.Status)
		if !noBody {
			_, _ = w.Write(sc.Body)
		}
	case "lying":
		h.Set("Content-Length", strconv.Itoa(len(sc.Body)+sc.LieExtra))
		w.WriteHeader(sc.Status)
		if !noBody {
			_, _ = w.Write(sc.Body)
		}
		// returning with fewer bytes written than declared makes net/http close the connection
	default: // chunked
		w.WriteHeader(sc.Status)
		if noBody {
			return
		}
		split := sc.Split
		if split < 0 || split > len(sc.Body) {
			split = len(sc.Body)
		}
		_, _ = w.Write(sc.Body[:split])
		if f, ok := w.(http.Flusher); ok {
			f.Flush()
		}
		_, _ = w.Write(sc.Body[split:])
	}
}

// vfxNewRig builds the chain for one configuration and installs it behind the hub's listeners.
// An error means the configuration was rejected by the real acceptance path (a generator bug for
// the callers here) or the hub could not be started.
func vfxNewRig(cfg *vfxCfg) (rig *vfxRig, err error) {
	hub, err := vfxGetHub()
	if err != nil {
		return nil, fmt.Errorf("hub: %v", err)
	}
	r := &vfxRig{hub: hub, cfg: cfg}
	if cfg.ByHostName {
		r.backendHost = "localhost:" + hub.backendPort
	} else {
		r.backendHost = "127.0.0.1:" + hub.backendPort
	}
	defer func() {
		if p := recover(); p != nil {
			err = fmt.Errorf("panic while building the rig: %v", p)
		}
		if err != nil && r.pipe != nil {
			r.pipe.Close()
		}
		if err != nil && r.local != nil {
			r.local.Close()
		}
	}()

	r.pipeYAML = cfg.pipelineYAML(r.backendHost)
	pspec, err := supervisor.NewSpec(r.pipeYAML)
	if err != nil {
		return nil, fmt.Errorf("pipeline spec: %v", err)
	}
	r.pipe = &pipeline.Pipeline{}
	r.pipe.Init(pspec, nil)

	r.srvYAML = cfg.serverYAML()
	sspec, err := supervisor.NewSpec(r.srvYAML)
	if err != nil {
		return nil, fmt.Errorf("server spec: %v", err)
	}
	mapper := &vfxMapper{h: r.pipe}
	for _, p := range cfg.Paths {
		if p.Local && r.local == nil {
			lspec, err := supervisor.NewSpec(vfxLocalPipelineYAML)
			if err != nil {
				return nil, fmt.Errorf("local pipeline spec: %v", err)
			}
			r.local = &pipeline.Pipeline{}
			r.local.Init(lspec, nil)
			mapper.local = r.local
		}
	}
	r.mapper = mapper
	r.mux = newMux(httpstat.New(), httpstat.NewTopN(10), mapper)
	r.mux.reload(sspec, mapper)

	hub.frontLog.take()
	hub.mu.Lock()
	hub.cur = r
	hub.mu.Unlock()
	return r, nil
}

// update replaces the pipeline by a new generation built from cfg, the way the supervisor does it:
// a new Pipeline object inherits from the running one (Pipeline.Inherit closes the old generation).
// The HTTPServer side (mux, its limits, its route cache) is left alone.
func (r *vfxRig) update(cfg *vfxCfg) (err error) {
	defer func() {
		if p := recover(); p != nil {
			err = fmt.Errorf("panic while updating the pipeline: %v", p)
		}
	}()
	r.hub.inflight.Wait() // requests are sent one at a time; let the last handler finish its epilogue
	y := cfg.pipelineYAML(r.backendHost)
	pspec, err := supervisor.NewSpec(y)
	if err != nil {
		return fmt.Errorf("pipeline spec: %v", err)
	}
	np := &pipeline.Pipeline{}
	np.Inherit(pspec, r.pipe, nil)
	r.mapper.mu.Lock()
	r.mapper.h = np
	r.mapper.mu.Unlock()
	r.pipe, r.cfg, r.pipeYAML = np, cfg, y
	return nil
}

// updateServer reloads the HTTPServer side with the spec built from cfg, the way runtime.reload
// does it on a spec update of the HTTPServer object (same mux, new generation of rules, limits and
// route cache). The pipeline is left alone.
func (r *vfxRig) updateServer(cfg *vfxCfg) (err error) {
	defer func() {
		if p := recover(); p != nil {
			err = fmt.Errorf("panic while reloading the mux: %v", p)
		}
	}()
	r.hub.inflight.Wait()
	y := cfg.serverYAML()
	sspec, err := supervisor.NewSpec(y)
	if err != nil {
		return fmt.Errorf("server spec: %v", err)
	}
	r.mux.reload(sspec, r.mapper)
	r.srvYAML = y
	return nil
}

// Close uninstalls the case, waits for its handlers and closes what it built.
func (r *vfxRig) Close() {
	h := r.hub
	h.mu.Lock()
	h.cur = nil
	h.mu.Unlock()
	done := make(chan struct{})
	go func() { h.inflight.Wait(); close(done) }()
	select {
	case <-done:
	case <-time.After(vfxIOTimeout):
		// a handler of this case is stuck; it cannot influence a later case (cur is nil / replaced)
		// but the client connection it may be bound to must not be reused
		h.dropConn()
	}
	r.pipe.Close()
	if r.local != nil {
		r.local.Close()
	}
	// the Proxy's transport is gone with the pipeline: let the backend close its idle connections
	// (server side closes first, so no ephemeral port lingers in TIME_WAIT on the client side)
	h.backend.CloseClientConnections()
	r.mux.close()
}

func (r *vfxRig) dropConn() { r.hub.dropConn() }

func (h *vfxHub) dropConn() {
	if h.conn != nil {
		_ = h.conn.c.Close()
		h.conn = nil
	}
}

// setScript installs the backend script and clears the record of received requests.
func (r *vfxRig) setScript(sc *vfxScript) {
	r.mu.Lock()
	r.script = sc
	r.seen = nil
	r.mirrorSeen = nil
	r.mu.Unlock()
}

// vfxMirrorJoinWait bounds the wait for the mirrored copy of a request (never a verdict).
const vfxMirrorJoinWait = 30 * time.Millisecond

// joinMirror: the mirrorPool sends its copy from a goroutine of its own, with the context of the
// front request (the copy is cancelled when that request ends). A case must not leave goroutines
// behind that interfere with the next request, so the rig waits until the copy has arrived at the
// mirror server (it then owns a connection) or a short bound expires (about a tenth of the copies are
// cancelled before they got a connection and never arrive; their goroutine has long returned by then). Without this, on a loaded machine a late copy that is
// cancelled while it waits for an idle connection can be handed the connection on which the
// answer to the next request has just arrived and tear it down (see proposed_known.jsonl of C03).
func (r *vfxRig) joinMirror(q *vfxRequest, proxyRan bool) {
	if r.cfg == nil || !r.cfg.Mirror {
		return
	}
	carries := false
	for _, kv := range q.Headers {
		carries = carries || (strings.EqualFold(kv[0], vfxMirrorHeader) && kv[1] == "1")
	}
	if !carries {
		return
	}
	bound := vfxMirrorJoinWait
	if !proxyRan {
		bound = 5 * time.Millisecond // rejected in front of the pipeline (no copy), or answered by a cache
	}
	deadline := time.Now().Add(bound)
	for len(r.mirrored()) == 0 && time.Now().Before(deadline) {
		time.Sleep(200 * time.Microsecond)
	}
}

// mirrored returns the copies of the latest request that arrived under /vfmirror so far (the
// mirrorPool works asynchronously: a copy may arrive later or, when the request context ends
// first, never).
func (r *vfxRig) mirrored() []*vfxSeen {
	r.mu.Lock()
	defer r.mu.Unlock()
	var out []*vfxSeen
	id := strconv.Itoa(r.reqID)
	for _, s := range r.mirrorSeen {
		if s.Header.Get("X-Vf-Req-Id") == id {
			out = append(out, s)
		}
	}
	return out
}

// received returns what the backend recorded for the latest request sent with do (records of
// earlier requests whose backend handler finished late are not mixed in).
func (r *vfxRig) received() []*vfxSeen {
	r.mu.Lock()
	defer r.mu.Unlock()
	var out []*vfxSeen
	id := strconv.Itoa(r.reqID)
	for _, s := range r.seen {
		if s.Header.Get("X-Vf-Req-Id") == id {
			out = append(out, s)
		}
	}
	return out
}

// ---------------------------------------------------------------------------------------------
// raw client

// vfxRequest is one client request as it is put on the wire.
type vfxRequest struct {
	Method   string
	Target   string // request-target: raw path [ "?" raw query ]
	Host     string
	Headers  [][2]string // everything except Host and the framing header
	Body     []byte      // bytes on the wire (already encoded when labelled)
	Framing  string      // "none" | "cl" | "chunked" | "lying" | "chunked-cut"
	Chunks   []int       // chunk sizes for chunked (last one takes the remainder)
	LieExtra int
	// "chunked-cut": the body bytes are sent in chunks, then the client half-closes without the
	// terminating zero-length chunk; with CutTornChunk the last chunk announces LieExtra more bytes
	// than are sent (torn inside a chunk)
	CutTornChunk bool
}

func (q *vfxRequest) wire() []byte {
	var b bytes.Buffer
	fmt.Fprintf(&b, "%s %s HTTP/1.1\r\nHost: %s\r\n", q.Method, q.Target, q.Host)
	for _, kv := range q.Headers {
		fmt.Fprintf(&b, "%s: %s\r\n", kv[0], kv[1])
	}
	switch q.Framing {
	case "cl":
		fmt.Fprintf(&b, "Content-Length: %d\r\n\r\n", len(q.Body))
		b.Write(q.Body)
	case "lying":
		fmt.Fprintf(&b, "Content-Length: %d\r\n\r\n", len(q.Body)+q.LieExtra)
		b.Write(q.Body)
	case "chunked", "chunked-cut":
		b.WriteString("Transfer-Encoding: chunked\r\n\r\n")
		rest := q.Body
		cut := q.Framing == "chunked-cut"
		for _, n := range q.Chunks {
			if n <= 0 || len(rest) == 0 {
				continue
			}
			if n > len(rest) {
				n = len(rest)
			}
			fmt.Fprintf(&b, "%x\r\n", n)
			b.Write(rest[:n])
			b.WriteString("\r\n")
			rest = rest[n:]
		}
		if cut && q.CutTornChunk {
			extra := q.LieExtra
			if extra <= 0 {
				extra = 1
			}
			fmt.Fprintf(&b, "%X\r\n", len(rest)+extra)
			b.Write(rest)
			break
		}
		if len(rest) > 0 {
			fmt.Fprintf(&b, "%X\r\n", len(rest))
			b.Write(rest)
			b.WriteString("\r\n")
		}
		if !cut {
			b.WriteString("0\r\n\r\n")
		}
	default:
		b.WriteString("\r\n")
	}
	return b.Bytes()
}

func (q *vfxRequest) String() string {
	return fmt.Sprintf("%s %s host=%q hdr=%q framing=%s chunks=%v lie=+%d torn-chunk=%v body=%s", q.Method, q.Target, q.Host, q.Headers, q.Framing, q.Chunks, q.LieExtra, q.CutTornChunk, vfxBrief(q.Body))
}

// vfxResponse is a parsed response plus the verdict of the framing validator.
type vfxResponse struct {
	Proto   string
	Status  int
	Reason  string
	Headers [][2]string
	Body    []byte // payload after the transfer framing was removed
	Framing string // none | cl | chunked | close
	// FramingErr != "" : the bytes on the socket are not a well-framed HTTP/1.1 response
	FramingErr string
	Closed     bool // the server closed the connection after this response
	Extra      int  // bytes that followed a complete response before the close (must be 0)
}

func (p *vfxResponse) Get(key string) []string {
	var out []string
	for _, kv := range p.Headers {
		if strings.EqualFold(kv[0], key) {
			out = append(out, kv[1])
		}
	}
	return out
}

func (p *vfxResponse) String() string {
	return fmt.Sprintf("%s %d hdr=%q framing=%s framingErr=%q closed=%v extra=%d body=%s", p.Proto, p.Status, p.Headers, p.Framing, p.FramingErr, p.Closed, p.Extra, vfxBrief(p.Body))
}

type vfxConn struct {
	c  net.Conn
	br *bufio.Reader
}

var errVfxTimeout = errors.New("i/o deadline expired")

func vfxIsTimeout(err error) bool {
	var ne net.Error
	return errors.Is(err, os.ErrDeadlineExceeded) || (errors.As(err, &ne) && ne.Timeout())
}

func vfxReadLine(br *bufio.Reader) (string, error) {
	var line []byte
	for {
		part, err := br.ReadSlice('\n')
		line = append(line, part...)
		if err == bufio.ErrBufferFull {
			if len(line) > 1<<20 {
				return "", fmt.Errorf("line longer than 1 MiB")
			}
			continue
		}
		if err != nil {
			return string(line), err
		}
		break
	}
	if !bytes.HasSuffix(line, []byte("\r\n")) {
		return string(line), fmt.Errorf("line %q not terminated by CRLF", line)
	}
	return string(line[:len(line)-2]), nil
}

// vfxReadResponse parses one response from br. A returned error is an I/O problem that prevented
// any judgement (timeout); protocol problems are reported in FramingErr.
func vfxReadResponse(br *bufio.Reader, method string) (*vfxResponse, error) {
	p := &vfxResponse{}
	fail := func(format string, a ...interface{}) (*vfxResponse, error) {
		p.FramingErr = fmt.Sprintf(format, a...)
		return p, nil
	}
	for {
		line, err := vfxReadLine(br)
		if err != nil {
			if vfxIsTimeout(err) {
				return nil, errVfxTimeout
			}
			if line == "" && (err == io.EOF || strings.Contains(err.Error(), "reset")) {
				p.Closed = true
				return fail("connection closed before any response byte (%v)", err)
			}
			return fail("bad status line %q: %v", line, err)
		}
		// HTTP-version SP 3DIGIT SP reason-phrase
		if len(line) < 12 || !strings.HasPrefix(line, "HTTP/1.") || line[8] != ' ' || (len(line) > 12 && line[12] != ' ') {
			return fail("malformed status line %q", line)
		}
		code, cerr := strconv.Atoi(line[9:12])
		if cerr != nil || code < 100 {
			return fail("malformed status code in %q", line)
		}
		p.Proto, p.Status = line[:8], code
		if len(line) > 13 {
			p.Reason = line[13:]
		}
		p.Headers = nil
		for {
			hl, err := vfxReadLine(br)
			if err != nil {
				if vfxIsTimeout(err) {
					return nil, errVfxTimeout
				}
				return fail("bad header line %q: %v", hl, err)
			}
			if hl == "" {
				break
			}
			if hl[0] == ' ' || hl[0] == '\t' {
				return fail("obsolete line folding %q", hl)
			}
			i := strings.IndexByte(hl, ':')
			if i <= 0 {
				return fail("header line without a name %q", hl)
			}
			name := hl[:i]
			for j := 0; j < len(name); j++ {
				c := name[j]
				if c <= ' ' || c >= 0x7f || strings.IndexByte("()<>@,;:\\\"/[]?={}", c) >= 0 {
					return fail("header name %q is not a token", name)
				}
			}
			p.Headers = append(p.Headers, [2]string{name, strings.Trim(hl[i+1:], " \t")})
		}
		if code >= 100 && code < 200 && code != 101 {
			continue // interim response
		}
		break
	}

	cls := p.Get("Content-Length")
	tes := p.Get("Transfer-Encoding")
	if len(cls) > 0 && len(tes) > 0 {
		return fail("both Content-Length %q and Transfer-Encoding %q", cls, tes)
	}
	declared := int64(-1)
	for _, v := range cls {
		n, err := strconv.ParseInt(v, 10, 64)
		if err != nil || n < 0 || (len(v) > 0 && (v[0] == '+' || v[0] == '-')) {
			return fail("Content-Length %q is not a number", v)
		}
		if declared >= 0 && declared != n {
			return fail("conflicting Content-Length values %q", cls)
		}
		declared = n
	}
	noBody := method == "HEAD" || p.Status == 204 || p.Status == 304 || p.Status == 101
	switch {
	case noBody:
		p.Framing = "none"
	case len(tes) > 0:
		if len(tes) != 1 || !strings.EqualFold(tes[0], "chunked") {
			return fail("unsupported Transfer-Encoding %q", tes)
		}
		p.Framing = "chunked"
		for {
			sl, err := vfxReadLine(br)
			if err != nil {
				if vfxIsTimeout(err) {
					return nil, errVfxTimeout
				}
				p.Closed = err == io.EOF
				return fail("chunked body torn after %d bytes: bad chunk-size line %q: %v", len(p.Body), sl, err)
			}
			hex := sl
			if i := strings.IndexByte(hex, ';'); i >= 0 {
				hex = hex[:i]
			}
			hex = strings.TrimRight(hex, " \t")
			n, perr := strconv.ParseUint(hex, 16, 32)
			if perr != nil || hex == "" {
				return fail("bad chunk size %q", sl)
			}
			if n == 0 {
				// trailer section
				for {
					tl, err := vfxReadLine(br)
					if err != nil {
						if vfxIsTimeout(err) {
							return nil, errVfxTimeout
						}
						p.Closed = err == io.EOF
						return fail("chunked body: missing final CRLF: %v", err)
					}
					if tl == "" {
						break
					}
				}
				break
			}
			buf := make([]byte, n)
			m, err := io.ReadFull(br, buf)
			p.Body = append(p.Body, buf[:m]...)
			if err != nil {
				if vfxIsTimeout(err) {
					return nil, errVfxTimeout
				}
				p.Closed = true
				return fail("chunk of %d bytes torn after %d bytes: %v", n, m, err)
			}
			crlf := make([]byte, 2)
			if _, err := io.ReadFull(br, crlf); err != nil || string(crlf) != "\r\n" {
				if vfxIsTimeout(err) {
					return nil, errVfxTimeout
				}
				return fail("chunk data not followed by CRLF (%q, %v)", crlf, err)
			}
		}
	case declared >= 0:
		p.Framing = "cl"
		buf := make([]byte, declared)
		m, err := io.ReadFull(br, buf)
		p.Body = buf[:m]
		if err != nil {
			if vfxIsTimeout(err) {
				return nil, errVfxTimeout
			}
			p.Closed = true
			return fail("Content-Length declares %d bytes but only %d arrived before the connection ended (%v)", declared, m, err)
		}
	default:
		p.Framing = "close"
		b, err := io.ReadAll(br)
		p.Body = b
		p.Closed = true
		if err != nil {
			if vfxIsTimeout(err) {
				return nil, errVfxTimeout
			}
			if !strings.Contains(err.Error(), "reset") {
				return fail("close-delimited body: read error %v", err)
			}
		}
	}
	return p, nil
}

func vfxHasToken(vals []string, tok string) bool {
	for _, v := range vals {
		for _, f := range strings.Split(v, ",") {
			if strings.EqualFold(strings.TrimSpace(f), tok) {
				return true
			}
		}
	}
	return false
}

// probeBackend tells whether this process can open a TCP connection to the loopback backend at all
// (on a machine that ran out of ephemeral ports it cannot, and the Proxy cannot either).
func (r *vfxRig) probeBackend() error {
	c, err := net.DialTimeout("tcp", "127.0.0.1:"+r.hub.backendPort, 10*time.Second)
	if err != nil {
		return err
	}
	return c.Close()
}

// exchange installs the script, sends q and collects what both ends saw. When the proxy answers
// 503 without having reached the backend, the environment is probed: an unreachable loopback
// backend is reported as an error (inconclusive); otherwise the request is sent once more and the
// second outcome is the one that is judged (transient = true).
func (r *vfxRig) exchange(q *vfxRequest, sc *vfxScript) (resp *vfxResponse, seen []*vfxSeen, frontLog string, transient bool, err error) {
	r.mirroredBefore = r.mirroredBefore || r.mirroredNow
	r.mirroredNow = false
	if r.cfg != nil && r.cfg.Mirror {
		for _, kv := range q.Headers {
			r.mirroredNow = r.mirroredNow || (strings.EqualFold(kv[0], vfxMirrorHeader) && kv[1] == "1")
		}
	}
	for attempt := 0; ; attempt++ {
		r.setScript(sc)
		resp, err = r.do(q)
		if err != nil {
			return
		}
		seen = r.received()
		frontLog = r.hub.frontLog.take()
		r.joinMirror(q, len(seen) > 0)
		if attempt == 0 && resp.Status == 503 && len(seen) == 0 {
			if perr := r.probeBackend(); perr != nil {
				err = fmt.Errorf("environment: the loopback backend cannot be reached from this process: %v", perr)
				return
			}
			transient = true
			continue
		}
		return
	}
}

// do sends q and reads the response. The connection is reused when the previous exchange left
// it reusable. Returns errVfxTimeout when the I/O deadline expired.
func (r *vfxRig) do(q *vfxRequest) (*vfxResponse, error) {
	r.hub.mu.Lock()
	r.hub.reqID++
	id := r.hub.reqID
	r.hub.mu.Unlock()
	r.mu.Lock()
	r.reqID = id
	r.mu.Unlock()
	tagged := *q
	tagged.Headers = append(append([][2]string{}, q.Headers...), [2]string{"X-Vf-Req-Id", strconv.Itoa(id)})
	return r.do1(&tagged, true)
}

func (r *vfxRig) do1(q *vfxRequest, mayRetry bool) (*vfxResponse, error) {
	h := r.hub
	reused := h.conn != nil
	r.lastReused = reused
	if h.conn == nil {
		c, err := net.DialTimeout("tcp", h.addr, vfxIOTimeout)
		if err != nil {
			return nil, fmt.Errorf("dial front server: %v", err)
		}
		h.conn = &vfxConn{c: c, br: bufio.NewReaderSize(c, 64<<10)}
	}
	conn := h.conn
	_ = conn.c.SetDeadline(time.Now().Add(vfxIOTimeout))
	wire := q.wire()

	var wg sync.WaitGroup
	var werr error
	wg.Add(1)
	go func() {
		defer wg.Done()
		_, werr = conn.c.Write(wire)
		if (q.Framing == "lying" || q.Framing == "chunked-cut") && werr == nil {
			if tc, ok := conn.c.(*net.TCPConn); ok {
				werr = tc.CloseWrite()
			}
		}
	}()
	resp, rerr := vfxReadResponse(conn.br, q.Method)
	// A response may arrive while the request body is still being written (the body was replaced
	// or rejected). Like a real client the writer finishes its request: the mux drains the rest of
	// the body after it has answered, and a client that stopped half-way while keeping the
	// connection open would block that handler forever. If the server closes instead, the write
	// fails and the writer ends; the connection deadline bounds everything.
	wg.Wait()
	if rerr != nil {
		r.dropConn()
		return nil, rerr
	}
	if reused && mayRetry && resp.Status == 0 && resp.Closed && len(resp.Headers) == 0 && len(r.received()) == 0 {
		// the server may close an idle keep-alive connection at any time: retry once on a fresh one
		r.dropConn()
		return r.do1(q, false)
	}
	reusable := werr == nil && resp.FramingErr == "" && !resp.Closed && q.Framing != "lying" && q.Framing != "chunked-cut" &&
		resp.Proto == "HTTP/1.1" && !vfxHasToken(resp.Get("Connection"), "close")
	for _, kv := range q.Headers {
		if strings.EqualFold(kv[0], "Connection") && vfxHasToken([]string{kv[1]}, "close") {
			reusable = false
		}
	}
	if !reusable {
		if resp.FramingErr == "" && !resp.Closed {
			// the exchange is over for this connection: whatever still arrives before the close
			// does not belong to the response
			if vfxHasToken(resp.Get("Connection"), "close") {
				_ = conn.c.SetReadDeadline(time.Now().Add(vfxIOTimeout))
				n, err := io.Copy(io.Discard, conn.br)
				if err != nil && vfxIsTimeout(err) {
					r.dropConn()
					return nil, errVfxTimeout
				}
				resp.Extra = int(n)
				resp.Closed = true
			}
		}
		r.dropConn()
	}
	return resp, nil
}
