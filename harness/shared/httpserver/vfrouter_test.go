//go:build go1.21

// Shared by the C01 / C05 / C11 / C12 harnesses: rule-set model + generator, YAML rendering,
// an independent reference router written from the property statements, and a recording mapper.
package httpserver

import (
	"fmt"
	"io"
	"net"
	"net/http"
	"net/http/httptest"
	"net/url"
	"regexp"
	"sort"
	"strconv"
	"strings"
	"sync/atomic"

	"github.com/megaease/easegress/pkg/context"
	"github.com/megaease/easegress/pkg/logger"
	"github.com/megaease/easegress/pkg/protocols/httpprot"
	"github.com/megaease/easegress/pkg/protocols/httpprot/httpstat"
	"github.com/megaease/easegress/pkg/supervisor"
	"pgregory.net/rapid"
)

func init() { logger.InitNop() }

// ---------------------------------------------------------------- model

type vfHdr struct {
	Key    string
	Values []string
	Regexp string
}

type vfIPF struct {
	BlockByDefault bool
	Allow, Block   []string
}

type vfPath struct {
	Path, Prefix, Regexp string
	Rewrite              string
	Methods              []string
	Backend              string
	Headers              []vfHdr
	MatchAll             bool
	IPF                  *vfIPF
	MaxBody              int64
}

type vfRule struct {
	Host, HostRegexp string
	Paths            []vfPath
	IPF              *vfIPF
}

type vfServer struct {
	Rules     []vfRule
	IPF       *vfIPF
	CacheSize int
	XFF       bool
	MaxBody   int64
}

type vfReq struct {
	Method  string
	Host    string
	Path    string
	Headers [][2]string // in order; keys canonical
	Remote  string      // RemoteAddr "ip:port"
	BodyLen int         // request body of that many bytes (declared Content-Length)
}

func (r vfReq) String() string {
	b := ""
	if r.BodyLen > 0 {
		b = fmt.Sprintf(" body=%dB", r.BodyLen)
	}
	return fmt.Sprintf("%s host=%q path=%q hdr=%v remote=%s%s", r.Method, r.Host, r.Path, r.Headers, r.Remote, b)
}

func vfQ(s string) string { return strconv.Quote(s) }

func vfQList(l []string) string {
	q := make([]string, len(l))
	for i, s := range l {
		q[i] = vfQ(s)
	}
	return "[" + strings.Join(q, ", ") + "]"
}

func (f *vfIPF) yaml(ind string) string {
	if f == nil {
		return ""
	}
	var b strings.Builder
	b.WriteString(ind + "ipFilter:\n")
	b.WriteString(fmt.Sprintf("%s  blockByDefault: %v\n", ind, f.BlockByDefault))
	if len(f.Allow) > 0 {
		b.WriteString(fmt.Sprintf("%s  allowIPs: %s\n", ind, vfQList(f.Allow)))
	}
	if len(f.Block) > 0 {
		b.WriteString(fmt.Sprintf("%s  blockIPs: %s\n", ind, vfQList(f.Block)))
	}
	return b.String()
}

// YAML renders the server as the YAML an operator would post to the admin API.
func (s vfServer) YAML() string {
	var b strings.Builder
	b.WriteString("kind: HTTPServer\nname: vf\nport: 18080\nkeepAlive: true\nhttps: false\n")
	b.WriteString(fmt.Sprintf("cacheSize: %d\n", s.CacheSize))
	if s.XFF {
		b.WriteString("xForwardedFor: true\n")
	}
	if s.MaxBody != 0 {
		b.WriteString(fmt.Sprintf("clientMaxBodySize: %d\n", s.MaxBody))
	}
	b.WriteString(s.IPF.yaml(""))
	if len(s.Rules) == 0 {
		b.WriteString("rules: []\n")
		return b.String()
	}
	b.WriteString("rules:\n")
	for _, r := range s.Rules {
		first := true
		item := func(line string) {
			if first {
				b.WriteString("- " + line + "\n")
				first = false
			} else {
				b.WriteString("  " + line + "\n")
			}
		}
		if r.Host != "" {
			item("host: " + vfQ(r.Host))
		}
		if r.HostRegexp != "" {
			item("hostRegexp: " + vfQ(r.HostRegexp))
		}
		if r.IPF != nil {
			lines := strings.Split(strings.TrimRight(r.IPF.yaml(""), "\n"), "\n")
			for _, l := range lines {
				item(l)
			}
		}
		if len(r.Paths) == 0 {
			item("paths: []")
			continue
		}
		item("paths:")
		for _, p := range r.Paths {
			b.WriteString("  - backend: " + vfQ(p.Backend) + "\n")
			if p.Path != "" {
				b.WriteString("    path: " + vfQ(p.Path) + "\n")
			}
			if p.Prefix != "" {
				b.WriteString("    pathPrefix: " + vfQ(p.Prefix) + "\n")
			}
			if p.Regexp != "" {
				b.WriteString("    pathRegexp: " + vfQ(p.Regexp) + "\n")
			}
			if p.Rewrite != "" {
				b.WriteString("    rewriteTarget: " + vfQ(p.Rewrite) + "\n")
			}
			if len(p.Methods) > 0 {
				b.WriteString("    methods: " + vfQList(p.Methods) + "\n")
			}
			if p.MatchAll {
				b.WriteString("    matchAllHeader: true\n")
			}
			if p.MaxBody != 0 {
				b.WriteString(fmt.Sprintf("    clientMaxBodySize: %d\n", p.MaxBody))
			}
			if p.IPF != nil {
				b.WriteString(p.IPF.yaml("    "))
			}
			if len(p.Headers) > 0 {
				b.WriteString("    headers:\n")
				for _, h := range p.Headers {
					b.WriteString("    - key: " + vfQ(h.Key) + "\n")
					if len(h.Values) > 0 {
						b.WriteString("      values: " + vfQList(h.Values) + "\n")
					}
					if h.Regexp != "" {
						b.WriteString("      regexp: " + vfQ(h.Regexp) + "\n")
					}
				}
			}
		}
	}
	return b.String()
}

// ---------------------------------------------------------------- generators

var (
	vfHostsBare   = []string{"a.com", "b.com", "x.a.com", "10.0.0.1", "a.com80", "B.com"}
	vfHostRegexps = []string{`^[^.]+\.a\.com$`, `a`, `.*`, `^b\.com$`, `^10\.`, `80$`, `^a\.com$`, `^::1$`}
	vfPathsPool   = []string{"/", "/a", "/a/b", "/ab", "/b", "/a/", "/a/b/c", "/b/a", "/a b", "/.well-known/a"}
	vfPathRegexps = []string{`^/a/(.*)$`, `/([a-z]+)`, `^/b$`, `^/(a|b)/?`, `.*`, `^/a`, `b$`}
	vfRewrites    = []string{"/r", "/r/$1", "/", "/x${1}y", "/r/"}
	vfMethodsAll  = []string{"GET", "HEAD", "POST", "PUT", "PATCH", "DELETE", "CONNECT", "OPTIONS", "TRACE"}
	vfHdrKeys     = []string{"X-A", "X-B"}
	vfHdrValues   = []string{"1", "2", "", "a b"}
	vfHdrRegexps  = []string{"^$", ".*", "^1", "2$", "^a b$"}
	vfBackends    = []string{"p0", "p1", "p2", "p3", "missing"}
)

type vfGenOpts struct {
	IPFilters bool     // generate ip filters at the three levels
	IPPool    []string // allow/block entries to draw from
	Bias12    bool     // bias towards the shapes C12 names
	BodyLimit bool     // generate clientMaxBodySize at path and server level
	NoHeaders bool     // no header-conditioned entries at all
	ServerIPF bool     // always generate a server-level ip filter
}

func vfSubset(t *rapid.T, pool []string, label string, maxN int) []string {
	var out []string
	for i, s := range pool {
		if len(out) >= maxN {
			break
		}
		if rapid.Bool().Draw(t, fmt.Sprintf("%s[%d]", label, i)) {
			out = append(out, s)
		}
	}
	return out
}

func vfGenIPF(t *rapid.T, label string, pool []string) *vfIPF {
	f := &vfIPF{BlockByDefault: rapid.IntRange(0, 3).Draw(t, label+".bbd") == 0}
	na := rapid.IntRange(0, 2).Draw(t, label+".na")
	nb := rapid.IntRange(0, 2).Draw(t, label+".nb")
	for i := 0; i < na; i++ {
		if e := rapid.SampledFrom(pool).Draw(t, label+".allow"); !vfIn(e, f.Allow) { // uniqueItems
			f.Allow = append(f.Allow, e)
		}
	}
	for i := 0; i < nb; i++ {
		if e := rapid.SampledFrom(pool).Draw(t, label+".block"); !vfIn(e, f.Block) {
			f.Block = append(f.Block, e)
		}
	}
	return f
}

func vfGenHeaders(t *rapid.T, label string) []vfHdr {
	n := rapid.IntRange(1, 2).Draw(t, label+".n")
	var hs []vfHdr
	for i := 0; i < n; i++ {
		h := vfHdr{Key: rapid.SampledFrom(vfHdrKeys).Draw(t, label+".key")}
		mode := rapid.IntRange(0, 4).Draw(t, label+".mode") // 0,1 values; 2,3 regexp; 4 both
		if mode <= 1 || mode == 4 {
			k := rapid.IntRange(1, 2).Draw(t, label+".nv")
			seen := map[string]bool{}
			for j := 0; j < k; j++ {
				v := rapid.SampledFrom(vfHdrValues).Draw(t, label+".v")
				if !seen[v] { // uniqueItems
					seen[v] = true
					h.Values = append(h.Values, v)
				}
			}
		}
		if mode >= 2 {
			h.Regexp = rapid.SampledFrom(vfHdrRegexps).Draw(t, label+".re")
		}
		hs = append(hs, h)
	}
	return hs
}

func vfGenPath(t *rapid.T, label string, o vfGenOpts) vfPath {
	p := vfPath{Backend: rapid.SampledFrom(vfBackends).Draw(t, label+".backend")}
	// which matchers: bit0 exact, bit1 prefix, bit2 regexp; 0 = match all
	kind := rapid.SampledFrom([]int{1, 1, 1, 2, 2, 4, 4, 0, 3, 5, 6, 7}).Draw(t, label+".kind")
	if kind&1 != 0 {
		p.Path = rapid.SampledFrom(vfPathsPool).Draw(t, label+".path")
	}
	if kind&2 != 0 {
		p.Prefix = rapid.SampledFrom(vfPathsPool).Draw(t, label+".prefix")
	}
	if kind&4 != 0 {
		p.Regexp = rapid.SampledFrom(vfPathRegexps).Draw(t, label+".regexp")
	}
	if kind != 0 && rapid.IntRange(0, 2).Draw(t, label+".rw") == 0 {
		p.Rewrite = rapid.SampledFrom(vfRewrites).Draw(t, label+".rewrite")
	}
	switch rapid.IntRange(0, 3).Draw(t, label+".mkind") {
	case 0:
	case 1:
		p.Methods = []string{rapid.SampledFrom(vfMethodsAll[:5]).Draw(t, label+".m1")}
	default:
		p.Methods = vfSubset(t, vfMethodsAll[:5], label+".ms", 3)
	}
	hdrChance := 3
	if o.Bias12 {
		hdrChance = 1
	}
	if !o.NoHeaders && rapid.IntRange(0, hdrChance).Draw(t, label+".hashdr") == 0 {
		p.Headers = vfGenHeaders(t, label+".h")
		p.MatchAll = rapid.Bool().Draw(t, label+".matchall")
	}
	if o.IPFilters && rapid.IntRange(0, 2).Draw(t, label+".hasipf") == 0 {
		p.IPF = vfGenIPF(t, label+".ipf", o.IPPool)
	}
	if o.BodyLimit {
		p.MaxBody = rapid.SampledFrom([]int64{0, 0, 10, -1, 1000}).Draw(t, label+".maxbody")
	}
	return p
}

func vfGenServer(t *rapid.T, o vfGenOpts) vfServer {
	s := vfServer{}
	nr := rapid.IntRange(1, 4).Draw(t, "nrules")
	// "stacked" rule sets: every rule matches the same hosts, the leading ones carry IP filters and
	// paths that rarely match, so requests fall through several filtered rules before being routed
	stacked := o.IPFilters && rapid.IntRange(0, 3).Draw(t, "stacked") == 0
	if stacked {
		nr = rapid.IntRange(3, 5).Draw(t, "nrules-stacked")
	}
	for i := 0; i < nr; i++ {
		r := vfRule{}
		l := fmt.Sprintf("r%d", i)
		hk := rapid.IntRange(0, 5).Draw(t, l+".hostkind")
		if stacked {
			hk = rapid.SampledFrom([]int{0, 0, 6, 7}).Draw(t, l+".hostkind-stacked")
		}
		switch hk {
		case 6:
			r.Host = "a.com"
		case 7:
			r.HostRegexp = "a"
		}
		switch hk {
		case 0: // match all
		case 1, 2:
			r.Host = rapid.SampledFrom(append(vfHostsBare, "::1")).Draw(t, l+".host")
		case 3, 4:
			r.HostRegexp = rapid.SampledFrom(vfHostRegexps).Draw(t, l+".hostre")
		case 5:
			r.Host = rapid.SampledFrom(vfHostsBare).Draw(t, l+".host")
			r.HostRegexp = rapid.SampledFrom(vfHostRegexps).Draw(t, l+".hostre")
		}
		np := rapid.IntRange(0, 4).Draw(t, l+".npaths")
		for j := 0; j < np; j++ {
			p := vfGenPath(t, fmt.Sprintf("%s.p%d", l, j), o)
			if o.Bias12 && j > 0 && rapid.IntRange(0, 2).Draw(t, l+".shadow") == 0 {
				// same matcher as the previous entry, which is header-conditioned
				prev := r.Paths[j-1]
				p.Path, p.Prefix, p.Regexp = prev.Path, prev.Prefix, prev.Regexp
				if p.Rewrite != "" && p.Path == "" && p.Prefix == "" && p.Regexp == "" {
					p.Rewrite = ""
				}
			}
			r.Paths = append(r.Paths, p)
		}
		if o.IPFilters && (rapid.IntRange(0, 2).Draw(t, l+".hasipf") == 0 || (stacked && i < nr-1)) {
			r.IPF = vfGenIPF(t, l+".ipf", o.IPPool)
		}
		if stacked && i < nr-1 && rapid.Bool().Draw(t, l+".nopaths") {
			r.Paths = nil
		}
		s.Rules = append(s.Rules, r)
	}
	if o.IPFilters && (rapid.IntRange(0, 2).Draw(t, "srv.hasipf") == 0 || o.ServerIPF) {
		s.IPF = vfGenIPF(t, "srv.ipf", o.IPPool)
	}
	if o.BodyLimit {
		s.MaxBody = rapid.SampledFrom([]int64{0, 0, 10, 1000}).Draw(t, "srv.maxbody")
	}
	return s
}

func vfGenReqHost(t *rapid.T) string {
	h := rapid.SampledFrom(append(vfHostsBare, "c.org")).Draw(t, "req.host")
	switch rapid.IntRange(0, 5).Draw(t, "req.port") {
	case 0:
		return h + ":80"
	case 1:
		return h + ":8080"
	case 2:
		return "[::1]:80"
	}
	return h
}

// vfGenReqFor biases host and path towards what the rule set mentions, so that most requests
// reach the method/header stage instead of ending in 404.
func vfGenReqFor(t *rapid.T, s vfServer, remotes []string) vfReq {
	r := vfGenReq(t, remotes)
	var hosts, paths []string
	for _, rule := range s.Rules {
		if rule.Host != "" {
			hosts = append(hosts, rule.Host)
		}
		for _, p := range rule.Paths {
			for _, x := range []string{p.Path, p.Prefix} {
				if x != "" {
					paths = append(paths, x)
				}
			}
			if p.Prefix != "" {
				paths = append(paths, p.Prefix+"/b", p.Prefix+"b")
			}
		}
	}
	if len(hosts) > 0 && rapid.IntRange(0, 2).Draw(t, "req.usehost") > 0 {
		h := rapid.SampledFrom(hosts).Draw(t, "req.rulehost")
		if h == "::1" {
			h = "[::1]:80"
		} else if rapid.Bool().Draw(t, "req.addport") {
			h += ":8080"
		}
		r.Host = h
	}
	if len(paths) > 0 && rapid.IntRange(0, 2).Draw(t, "req.usepath") > 0 {
		r.Path = rapid.SampledFrom(paths).Draw(t, "req.rulepath")
	}
	return r
}

func vfGenReq(t *rapid.T, remotes []string) vfReq {
	r := vfReq{}
	r.Method = rapid.SampledFrom(append(append([]string{}, vfMethodsAll[:6]...), "GET", "GET", "PURGE")).Draw(t, "req.method")
	r.Host = vfGenReqHost(t)
	r.Path = rapid.SampledFrom(append(append([]string{}, vfPathsPool...), "/a/b/c/d", "/c", "/abc", "/a//b", "/a%20b", "/a b", "/a%2520b", "/.well-known/a", "/.well-known/b/c")).Draw(t, "req.path")
	for _, k := range vfHdrKeys {
		switch rapid.IntRange(0, 6).Draw(t, "req.h."+k) {
		case 0, 1: // absent
		case 2:
			r.Headers = append(r.Headers, [2]string{k, "1"})
		case 3:
			r.Headers = append(r.Headers, [2]string{k, "2"})
		case 4:
			r.Headers = append(r.Headers, [2]string{k, rapid.SampledFrom([]string{"12", "", "a b", "3"}).Draw(t, "req.hv")})
		case 5:
			r.Headers = append(r.Headers, [2]string{k, "1"}, [2]string{k, "2"})
		case 6:
			r.Headers = append(r.Headers, [2]string{k, "2"}, [2]string{k, "2"})
		}
	}
	if len(remotes) == 0 {
		r.Remote = "192.0.2.1:1234"
	} else {
		r.Remote = rapid.SampledFrom(remotes).Draw(t, "req.remote")
	}
	return r
}

// ---------------------------------------------------------------- reference router

// vfChoice enumerates the readings the statement and the docs leave open.
type vfChoice struct {
	lastValue  bool // a repeated request header: use the last value instead of the first
	bothAnd    bool // header entry with values AND regexp under matchAllHeader: require both (else: either)
	bothAndAny bool // same, for entries without matchAllHeader
}

var vfAllChoices = func() []vfChoice {
	var out []vfChoice
	for i := 0; i < 8; i++ {
		out = append(out, vfChoice{i&1 != 0, i&2 != 0, i&4 != 0})
	}
	return out
}()

type vfOutcome struct {
	Status  int
	Backend string // handler that ran ("" = none)
	Path    string // path the handler saw
	rule    int    // index of chosen rule/path (-1 none)
	path    int
}

func (o vfOutcome) key() string { return fmt.Sprintf("%d|%s|%s", o.Status, o.Backend, o.Path) }

// vfStripPort is the reference's own host splitter ("port ignored").
func vfStripPort(h string) string {
	if strings.HasPrefix(h, "[") {
		if i := strings.Index(h, "]"); i > 0 {
			return h[1:i]
		}
		return h
	}
	if strings.Count(h, ":") == 1 {
		return h[:strings.Index(h, ":")]
	}
	return h
}

func vfHeaderValue(r vfReq, key string, last bool) string {
	v, found := "", false
	for _, kv := range r.Headers {
		if strings.EqualFold(kv[0], key) {
			if !found || last {
				v = kv[1]
			}
			found = true
		}
	}
	return v
}

func vfIn(s string, l []string) bool {
	for _, x := range l {
		if x == s {
			return true
		}
	}
	return false
}

func vfHdrEntryMatches(h vfHdr, v string, and bool) bool {
	vm := len(h.Values) > 0 && vfIn(v, h.Values)
	rm := h.Regexp != "" && regexp.MustCompile(h.Regexp).MatchString(v)
	switch {
	case len(h.Values) > 0 && h.Regexp != "":
		if and {
			return vm && rm
		}
		return vm || rm
	case len(h.Values) > 0:
		return vm
	default:
		return rm
	}
}

func vfHeadersMatch(p vfPath, r vfReq, c vfChoice) bool {
	if len(p.Headers) == 0 {
		return true
	}
	if p.MatchAll {
		for _, h := range p.Headers {
			if !vfHdrEntryMatches(h, vfHeaderValue(r, h.Key, c.lastValue), c.bothAnd) {
				return false
			}
		}
		return true
	}
	for _, h := range p.Headers {
		if vfHdrEntryMatches(h, vfHeaderValue(r, h.Key, c.lastValue), c.bothAndAny) {
			return true
		}
	}
	return false
}

func vfPathMatches(p vfPath, path string) bool {
	if p.Path == "" && p.Prefix == "" && p.Regexp == "" {
		return true
	}
	if p.Path != "" && p.Path == path {
		return true
	}
	if p.Prefix != "" && strings.HasPrefix(path, p.Prefix) {
		return true
	}
	if p.Regexp != "" && regexp.MustCompile(p.Regexp).MatchString(path) {
		return true
	}
	return false
}

// vfRewriteSet: every rewriting a matcher of the entry that matches the request specifies.
// (With a single matcher configured this is one value; with several the docs do not say
// which wins, so all are acceptable.)
func vfRewriteSet(p vfPath, path string) []string {
	if p.Rewrite == "" {
		return []string{path}
	}
	var out []string
	if p.Path != "" && p.Path == path {
		out = append(out, p.Rewrite)
	}
	if p.Prefix != "" && strings.HasPrefix(path, p.Prefix) {
		out = append(out, p.Rewrite+path[len(p.Prefix):])
	}
	if p.Regexp != "" {
		re := regexp.MustCompile(p.Regexp)
		if re.MatchString(path) {
			out = append(out, re.ReplaceAllString(path, p.Rewrite))
		}
	}
	return out
}

func vfHostMatches(r vfRule, host string) bool {
	if r.Host == "" && r.HostRegexp == "" {
		return true
	}
	h := vfStripPort(host)
	if r.Host != "" && r.Host == h {
		return true
	}
	if r.HostRegexp != "" && regexp.MustCompile(r.HostRegexp).MatchString(h) {
		return true
	}
	return false
}

// vfRouteNoIP is the reference router of C01 (no IP filter is consulted).
func vfRouteNoIP(s vfServer, r vfReq, live map[string]bool, c vfChoice) []vfOutcome {
	hdrMiss, methMiss := false, false
	for i, rule := range s.Rules {
		if !vfHostMatches(rule, r.Host) {
			continue
		}
		for j, p := range rule.Paths {
			if !vfPathMatches(p, r.Path) {
				continue
			}
			if len(p.Methods) > 0 && !vfIn(r.Method, p.Methods) {
				methMiss = true
				continue
			}
			if !vfHeadersMatch(p, r, c) {
				hdrMiss = true
				continue
			}
			if !live[p.Backend] {
				return []vfOutcome{{Status: 503, rule: i, path: j}}
			}
			var outs []vfOutcome
			for _, rp := range vfRewriteSet(p, r.Path) {
				outs = append(outs, vfOutcome{Status: 200, Backend: p.Backend, Path: rp, rule: i, path: j})
			}
			return outs
		}
	}
	switch {
	case hdrMiss:
		return []vfOutcome{{Status: 400, rule: -1, path: -1}}
	case methMiss:
		return []vfOutcome{{Status: 405, rule: -1, path: -1}}
	}
	return []vfOutcome{{Status: 404, rule: -1, path: -1}}
}

// vfAcceptable returns the set of outcomes acceptable under every open reading.
func vfAcceptable(s vfServer, r vfReq, live map[string]bool) (map[string]vfOutcome, bool) {
	acc := map[string]vfOutcome{}
	for _, c := range vfAllChoices {
		for _, o := range vfRouteNoIP(s, r, live, c) {
			acc[o.key()] = o
		}
	}
	return acc, len(acc) > 1
}

// vfConsistent filters the readings that explain an observed outcome: whatever the open readings
// are, the code implements ONE of them, so all answers of one server must fit a single choice.
func vfConsistent(choices []vfChoice, s vfServer, r vfReq, live map[string]bool, got string) []vfChoice {
	var out []vfChoice
	for _, c := range choices {
		for _, o := range vfRouteNoIP(s, r, live, c) {
			if o.key() == got {
				out = append(out, c)
				break
			}
		}
	}
	return out
}

// vfBothProbes builds, for every path entry with a header condition that has values AND a regexp,
// requests aimed at that entry (its rule's host, its path, an allowed method) whose header value is
// (a) listed but rejected by the regexp, (b) accepted by the regexp but not listed, (c) both, (d)
// neither: together they tell the readings of such a condition apart.
func vfBothProbes(s vfServer) []vfReq {
	cands := []string{"1", "2", "", "a b", "12", "3", "21", "a"}
	var out []vfReq
	for _, rule := range s.Rules {
		host := rule.Host
		if host == "" {
			host = "c.org"
			if rule.HostRegexp != "" {
				host = ""
				for _, h := range append(append([]string{}, vfHostsBare...), "::1", "c.org") {
					if vfHostMatches(rule, h) {
						host = h
						break
					}
				}
				if host == "" {
					continue
				}
			}
		}
		if host == "::1" {
			host = "[::1]:80"
		}
		for _, p := range rule.Paths {
			path := p.Path
			if path == "" {
				path = p.Prefix
			}
			if path == "" {
				for _, c := range vfPathsPool {
					if vfPathMatches(p, c) {
						path = c
						break
					}
				}
			}
			if path == "" {
				continue
			}
			method := "GET"
			if len(p.Methods) > 0 {
				method = p.Methods[0]
			}
			for hi, h := range p.Headers {
				if len(h.Values) == 0 || h.Regexp == "" {
					continue
				}
				re := regexp.MustCompile(h.Regexp)
				seen := map[[2]bool]bool{}
				for _, v := range append(append([]string{}, h.Values...), cands...) {
					k := [2]bool{vfIn(v, h.Values), re.MatchString(v)}
					if seen[k] {
						continue
					}
					seen[k] = true
					r := vfReq{Method: method, Host: host, Path: path, Remote: "192.0.2.1:1234"}
					r.Headers = append(r.Headers, [2]string{h.Key, v})
					// the other conditions of a matchAll entry get a value they accept under every reading
					for oi, o := range p.Headers {
						if oi == hi || o.Key == h.Key {
							continue
						}
						for _, ov := range append(append([]string{}, o.Values...), cands...) {
							okV := len(o.Values) == 0 || vfIn(ov, o.Values)
							okR := o.Regexp == "" || regexp.MustCompile(o.Regexp).MatchString(ov)
							if okV && okR {
								r.Headers = append(r.Headers, [2]string{o.Key, ov})
								break
							}
						}
					}
					out = append(out, r)
				}
			}
		}
	}
	return out
}

func vfKeys(m map[string]vfOutcome) []string {
	var k []string
	for x := range m {
		k = append(k, x)
	}
	sort.Strings(k)
	return k
}

// ---------------------------------------------------------------- real mux rig

type vfMapper struct {
	live  map[string]bool
	calls int64
}

type vfHandler struct {
	name string
	m    *vfMapper
}

func (h *vfHandler) Handle(ctx *context.Context) string {
	atomic.AddInt64(&h.m.calls, 1)
	req := ctx.GetInputRequest().(*httpprot.Request)
	resp, _ := httpprot.NewResponse(nil)
	resp.SetStatusCode(200)
	resp.HTTPHeader().Set("X-Vf-Backend", h.name)
	resp.HTTPHeader().Set("X-Vf-Path", url.QueryEscape(req.Path()))
	resp.HTTPHeader().Set("X-Vf-Host", req.Host())
	resp.HTTPHeader().Set("X-Vf-Xff", req.HTTPHeader().Get("X-Forwarded-For"))
	resp.HTTPHeader().Set("X-Vf-Bodylen", strconv.Itoa(int(req.PayloadSize())))
	ctx.SetResponse(context.DefaultNamespace, resp)
	return ""
}

func (m *vfMapper) GetHandler(name string) (context.Handler, bool) {
	if !m.live[name] {
		return nil, false
	}
	return &vfHandler{name: name, m: m}, true
}

var vfLive = map[string]bool{"p0": true, "p1": true, "p2": true, "p3": true}

// vfNewMux builds a real mux from YAML through the real acceptance path.
func vfNewMux(yamlSpec string, mapper *vfMapper) (*mux, error) {
	superSpec, err := supervisor.NewSpec(yamlSpec)
	if err != nil {
		return nil, err
	}
	m := newMux(httpstat.New(), httpstat.NewTopN(10), mapper)
	m.reload(superSpec, mapper)
	return m, nil
}

func (r vfReq) std() *http.Request {
	h := http.Header{}
	for _, kv := range r.Headers {
		h[http.CanonicalHeaderKey(kv[0])] = append(h[http.CanonicalHeaderKey(kv[0])], kv[1])
	}
	req := &http.Request{
		Method: r.Method, URL: &url.URL{Path: r.Path}, Host: r.Host, Header: h,
		Proto: "HTTP/1.1", ProtoMajor: 1, ProtoMinor: 1, Body: http.NoBody, RemoteAddr: r.Remote,
		RequestURI: r.Path,
	}
	if r.BodyLen > 0 {
		req.Body = io.NopCloser(strings.NewReader(strings.Repeat("b", r.BodyLen)))
		req.ContentLength = int64(r.BodyLen)
	}
	return req
}

type vfObserved struct {
	Status  int
	Backend string
	Path    string
	Host    string
	Calls   int64
	BodyLen string // body length the handler saw
}

func (o vfObserved) key() string { return fmt.Sprintf("%d|%s|%s", o.Status, o.Backend, o.Path) }

// vfServe drives one request through the real mux (sequential use).
func vfServe(m *mux, mapper *vfMapper, r vfReq) vfObserved {
	before := atomic.LoadInt64(&mapper.calls)
	w := httptest.NewRecorder()
	m.ServeHTTP(w, r.std())
	p, _ := url.QueryUnescape(w.Header().Get("X-Vf-Path"))
	return vfObserved{Status: w.Code, Backend: w.Header().Get("X-Vf-Backend"), Path: p,
		Host: w.Header().Get("X-Vf-Host"), Calls: atomic.LoadInt64(&mapper.calls) - before, BodyLen: w.Header().Get("X-Vf-Bodylen")}
}

// vfClientIP is what the statement calls "the client IP" for the one-unambiguous-source requests
// the harnesses generate (RemoteAddr only, or X-Real-IP only, or one public X-Forwarded-For only).
func vfClientIP(r vfReq) string {
	for _, kv := range r.Headers {
		if strings.EqualFold(kv[0], "X-Real-Ip") || strings.EqualFold(kv[0], "X-Forwarded-For") {
			return strings.TrimSpace(kv[1])
		}
	}
	h, _, err := net.SplitHostPort(r.Remote)
	if err != nil {
		return r.Remote
	}
	return h
}
