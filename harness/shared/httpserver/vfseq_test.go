//go:build go1.21

// Shared by C05(b) and C12: request sequences from several clients, deny decisions of the
// three-level IP filters computed with the standard library.
package httpserver

import (
	"fmt"
	"net"
	"net/url"
	"strings"

	"pgregory.net/rapid"
)

// clients: one unambiguous IP source each
type vfClient struct {
	IP     string
	Source string // remote | xrealip | xff
	Text   string // spelling put into the header ("" = canonical)
}

var vfClients = []vfClient{
	{"10.0.0.1", "remote", ""}, {"10.0.0.2", "xrealip", ""}, {"8.8.8.8", "xff", ""}, {"2001:db8::1", "remote", ""}, {"10.0.1.1", "remote", ""},
	// the same clients in legal non-canonical spellings, as front proxies write them
	{"8.8.8.8", "xff", "::ffff:8.8.8.8"}, {"2001:db8::1", "xrealip", "2001:DB8:0:0:0:0:0:1"}, {"10.0.0.2", "xrealip", "::ffff:10.0.0.2"},
	// X-Forwarded-For lists with exactly ONE public address among private / loopback / link-local hops
	// (leftmost-public and rightmost-public readings coincide, so the client IP is unambiguous)
	{"8.8.8.8", "xff", "169.254.10.20, 8.8.8.8"}, {"8.8.8.8", "xff", "8.8.8.8, 10.9.9.9"}, {"8.8.8.8", "xff", "fe80::1, 192.168.3.4, 8.8.8.8"},
	{"2001:db8::1", "xff", "127.0.0.1, 2001:db8::1, ::1"}, {"8.8.8.8", "xff", "fc00::7, 8.8.8.8, 169.254.0.1"},
}

var vfIPPool = []string{"10.0.0.1", "10.0.0.0/24", "10.0.0.0/31", "8.8.8.8", "8.8.8.0/24", "2001:db8::/32",
	"2001:db8::1", "0.0.0.0/0", "10.0.0.2/32", "::/0", "10.0.1.1", "10.0.0.0/8"}

func (c vfClient) text() string {
	if c.Text != "" {
		return c.Text
	}
	return c.IP
}

func (c vfClient) apply(r *vfReq) {
	switch c.Source {
	case "remote":
		r.Remote = net.JoinHostPort(c.IP, "4321")
	case "xrealip":
		r.Remote = "192.0.2.7:4321"
		r.Headers = append(r.Headers, [2]string{"X-Real-Ip", c.text()})
	case "xff":
		r.Remote = "192.0.2.7:4321"
		r.Headers = append(r.Headers, [2]string{"X-Forwarded-For", c.text()})
	}
}

func vfDenied(f *vfIPF, ipstr string) bool {
	if f == nil {
		return false
	}
	ip := net.ParseIP(ipstr)
	in := func(list []string) bool {
		for _, e := range list {
			if x := net.ParseIP(e); x != nil {
				if x.Equal(ip) {
					return true
				}
				continue
			}
			if _, n, err := net.ParseCIDR(e); err == nil && n.Contains(ip) {
				return true
			}
		}
		return false
	}
	a, b := in(f.Allow), in(f.Block)
	return (b && !a) || ((a == b) && f.BlockByDefault)
}

// vfGenSeq draws a request sequence from a small pool so that repeats (cache hits) are frequent.
func vfGenSeq(t *rapid.T, srv vfServer, minLen, maxLen int, extra []vfReq) ([]vfReq, []vfClient) {
	npool := rapid.IntRange(2, 5).Draw(t, "npool")
	var pool []vfReq
	for i := 0; i < npool; i++ {
		pool = append(pool, vfGenReqFor(t, srv, nil))
	}
	pool = append(pool, extra...)
	n := rapid.IntRange(minLen, maxLen).Draw(t, "seqlen")
	var seq []vfReq
	var who []vfClient
	for i := 0; i < n; i++ {
		base := pool[rapid.IntRange(0, len(pool)-1).Draw(t, "pick")]
		r := vfReq{Method: base.Method, Host: base.Host, Path: base.Path, BodyLen: base.BodyLen}
		r.Headers = append(r.Headers, base.Headers...)
		// vary the headers sometimes: same cache key, other header values
		if rapid.IntRange(0, 3).Draw(t, "varyhdr") == 0 {
			r.Headers = nil
			for _, k := range vfHdrKeys {
				if v := rapid.SampledFrom([]string{"-", "1", "2", ""}).Draw(t, "hv"); v != "-" {
					r.Headers = append(r.Headers, [2]string{k, v})
				}
			}
		}
		// near-duplicates: requests that a "normalising" cache key could conflate with the base
		// although the router tells them apart (host case, trailing dot, port, path case / slash,
		// method case)
		switch rapid.IntRange(0, 11).Draw(t, "neardup") {
		case 0:
			r.Host = strings.ToUpper(r.Host)
		case 1:
			if h := vfStripPort(r.Host); h == r.Host {
				r.Host += "."
			}
		case 2:
			if h := vfStripPort(r.Host); h == r.Host {
				r.Host += ":80"
			} else if !strings.HasPrefix(r.Host, "[") {
				r.Host = h
			}
		case 3:
			r.Path = strings.ToUpper(r.Path)
		case 4:
			if !strings.HasSuffix(r.Path, "/") {
				r.Path += "/"
			}
		case 5:
			r.Method = strings.ToLower(r.Method)
		case 6, 7:
			// the percent-escaped spelling of the base path requested literally: another path for the
			// router ("/a b" vs "/a%20b"), the same string for a cache keyed on one form and read by the other
			if e := (&url.URL{Path: r.Path}).EscapedPath(); e != r.Path {
				r.Path = e
			} else if r.Path == "/a" || r.Path == "/b/a" {
				r.Path += " b"
			}
		}
		c := rapid.SampledFrom(vfClients).Draw(t, "client")
		c.apply(&r)
		seq = append(seq, r)
		who = append(who, c)
	}
	return seq, who
}

func vfSeqString(seq []vfReq) string {
	s := ""
	for i, r := range seq {
		s += fmt.Sprintf("  #%d %s\n", i, r)
	}
	return s
}
