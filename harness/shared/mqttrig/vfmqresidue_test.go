//go:build go1.21

package mqttproxy

// vfmqresidue: "no residue after any way a connection can end", on the real Broker.
//
// C14 says: after any history of subscribe / unsubscribe / disconnect operations the routed set of
// a topic is exactly the clients holding a live matching subscription, no residue. C14's own
// harness models "disconnect" on the TopicManager; this check drives the whole broker so that the
// disconnect is whatever Client/Broker really do for each way a connection can end:
//
//   client DISCONNECT, half-closed socket (network drop),
//   broker-initiated close: session deleted through the HTTP admin endpoint or by a store delete
//   event (delete watcher -> Broker.deleteSession -> Client.close), a backend pipeline answering
//   "disconnect" (Client.runPipeline -> Client.close), a same-id takeover (handleConn ->
//   oldClient.close); in all of these the connection itself ends later, when its read loop
//   notices (next packet, half-close), and the harness chooses that moment,
//
// followed by further steps (reconnect with either cleanSession value, a fresh client reusing the
// id, more subscribes). It is shared by C14 (TestVerifC14BrokerResidue) and C16
// (TestVerifC16Residue); the two wrappers only differ in the property id they report under.
//
// Reference (2-3 client ids): id is routed for topic T  <=>  id has a live (registered) connection
// whose session holds a filter matching T (reference matcher). A persistent session's filters
// count only while a connection of that id is live: closeAndDelSession unsubscribes them,
// handleConn re-subscribes them on a cleanSession=false reconnect. While an id has no live
// connection but a broker-closed connection whose read loop has not ended yet, the id is skipped
// (its filters are legitimately still in the trie until that teardown). After every quiesced step
// both the trie (findSubscribers) and real delivery of QoS0 probes are compared with the reference.

import (
	"fmt"
	"sort"
	"strings"
	"testing"
	"time"

	"github.com/eclipse/paho.mqtt.golang/packets"
	"pgregory.net/rapid"
)

var (
	vfMqResBadFilters = []string{"a+", "#/a", "a/#/b", "+b", "a/b#"}
	vfMqResFilters    = []string{"a", "a/b", "a/+", "a/#", "+/b", "#", "b"}
	vfMqResTopics     = []string{"a", "a/b", "b", "b/b", "a/b/c"}
)

// vfMqResIDFamilies: the client ids of a script (the first nIDs of one family). Client ids are
// arbitrary UTF-8 strings; the families put ids side by side that are plain names, that look
// like paths (what multi-tenant naming produces; the session store key is a prefix + the id) and
// that are related to each other: one id is the last / the first path element of another one,
// or differs only by a leading or trailing '/'. Whatever happens to one id must leave the others alone.
var vfMqResIDFamilies = [][]string{
	{"d0", "d1", "d2"},
	{"gw", "plant-7/gw", "plant-7"},
	{"a/b", "b", "a"},
	{"x/", "x", "/x"},
	{"t/u/v", "u/v", "v"},
	{"site-1/dev", "site-2/dev", "dev"},
	{"d0", "d0/d0", "d0d0"},
	{"room 1/#", "#", "room 1"},
}

// vfMqResLastElem: the last '/'-separated element of an id ("" when the id ends in '/').
func vfMqResLastElem(id string) string {
	return id[strings.LastIndex(id, "/")+1:]
}

type vfMqResSess struct {
	clean   bool
	deleted bool // its stored record was deleted while a connection of it was still open
	topics  map[string]byte
}

type vfMqResPending struct {
	c      *vfMqClient
	why    string // "takeover" | "admin" | "store-event"
	hadSub bool
	topics map[string]byte // filters of its session when the broker closed it
	clean  bool            // its session was a clean one
}

// vfMqResKeyLostEntry: an earlier connection of the id ended while nobody was registered for the
// id and dropped the session entry of a later, broker-closed connection that was still open; the
// next connection of the id then finds no previous session to discard and inherits its filters.
const vfMqResKeyLostEntry = "older-connection-end-dropped-pending-session:its-filters-routed-to-next-connection"

// vfMqResKeyLostRecord: same root cause, other symptom. An older, broker-closed connection (superseded
// or closed by a session delete) with a clean
// session ends while nobody is registered for the id and deletes the stored record of the id
// (delDB), which by then belongs to the persistent session of a later connection.
const vfMqResKeyLostRecord = "older-clean-connection-end-deleted-stored-session-of-later-connection"

type vfMqResID struct {
	cid     string
	sess    *vfMqResSess
	live    *vfMqClient
	pending []*vfMqResPending // closed by the broker, read loop not ended yet
	lastEnd string            // how the most recent connection of this id ended
	// filters of broker-closed connections that were still open when another connection of the id
	// ran its end-of-connection cleanup with nobody registered (see vfMqResKeyLostEntry)
	orphaned map[string]byte
	// a superseded clean-session connection ended while nobody was registered and the id's
	// persistent session was waiting in the store (see vfMqResKeyLostRecord)
	recordLost bool
	// filters the current session unsubscribed (and did not subscribe again): they must stay gone
	// when the session is resumed by a later connection
	dropped map[string]bool
	// the current persistent session saw an UNSUBSCRIBE list mixing held and not-held filters
	mixedUnsub bool
	// the current persistent session saw an acknowledged UNSUBSCRIBE list with a malformed filter
	// next to filters it held
	badUnsub bool
	// a connection of the persistent session with subscriptions died through a broker write failure
	// and is still registered (its read loop has not ended)
	zombieWithSubs bool
	// held filters of an UNSUBSCRIBE the broker did not acknowledge (refused: still live)
	refused map[string]bool
}

type vfMqResRun struct {
	rt   *rapid.T
	vf   *vfCollector
	rig  *vfMqRig
	ids  []*vfMqResID
	hist []string
	seq  int
	nt   bool
	// abandon: a listed known finding was hit, the script stops
	abandon bool
	profile string
	// profile "resume": every connection's broker side can be made to fail its writes
	faults map[*vfMqClient]*vfMqFaultConn
	// stalled: the session store does not complete writes (as etcd under load): session records
	// queue up in the broker until the stall ends (before the next CONNECT at the latest)
	stalled     bool
	stallWrites map[string]int // subscription changes per client id since the stall began
	stallID     *vfMqResID     // the id whose step began the stall: the script stays with it
}

// stall: from now on puts block in the store; the broker keeps working (session writes queue up).
func (r *vfMqResRun) stall(d *vfMqResID) {
	r.stallID = d
	r.log("store-stalls")
	r.vf.Class("step:store-stalls")
	r.rig.store.hold()
	r.stalled = true
	r.stallWrites = map[string]int{}
}

// unstall: the store completes the writes again; returns when everything queued was handled.
func (r *vfMqResRun) unstall() {
	if !r.stalled {
		return
	}
	r.log("store-catches-up")
	r.stalled = false
	r.stallWrites = nil
	if err := r.rig.Quiesce(); err != nil {
		r.inconclusive("quiesce after store stall", err)
	}
}

// writeFailure: the peer of the live connection vanished: the broker's next write to it fails
// (PINGRESP to the client's PINGREQ, or a message for one of its filters). The writer runs the
// end-of-connection cleanup while the reader still blocks on the socket, so the dead connection
// stays registered until its read loop notices (end-pending); the client may reconnect before.
func (r *vfMqResRun) writeFailure(d *vfMqResID) {
	c := d.live
	fc := r.faults[c]
	variant, topic := "ping", ""
	if d.sess != nil && rapid.Bool().Draw(r.rt, "writeFailureNoticedByPublish") {
		for _, t := range vfMqResTopics {
			for f := range d.sess.topics {
				if topic == "" && vfMqMatch(f, t) {
					variant, topic = "publish", t
				}
			}
		}
	}
	r.log("%s: write-failure(noticed through %s)", d.cid, variant)
	r.vf.Class("step:write-failure-" + variant)
	bc := r.rig.registered(d.cid)
	fc.FailWrites()
	if variant == "ping" {
		if err := c.write(packets.NewControlPacket(packets.Pingreq)); err != nil {
			r.liveGone(d, "write-failure", err)
			return
		}
	} else {
		r.seq++
		if code := r.rig.Publish(topic, 0, fmt.Sprintf("lost%d", r.seq)); code != 200 {
			r.inconclusive("http publish", fmt.Errorf("status %d", code))
		}
		if err := r.rig.FanoutBarrier(); err != nil {
			r.inconclusive("fan-out barrier", err)
		}
	}
	deadline := time.Now().Add(vfMqWait)
	for bc != nil && !bc.disconnected() {
		if time.Now().After(deadline) {
			r.inconclusive("write failure", fmt.Errorf("broker did not give up %s after its write failed", c.Label))
		}
		time.Sleep(200 * time.Microsecond)
	}
	hadSub := d.sess != nil && len(d.sess.topics) > 0
	if hadSub && d.sess != nil && !d.sess.clean {
		d.zombieWithSubs = true
	}
	// its filters left the tree with the writer's cleanup: nothing of it is routed any more
	d.pending = append(d.pending, &vfMqResPending{c: c, why: "write-failure", hadSub: hadSub, topics: map[string]byte{}})
	d.live = nil
	d.lastEnd = "write-failure, dead connection still registered"
	if d.sess != nil && d.sess.clean {
		d.sess = nil
	}
}

func (r *vfMqResRun) log(format string, args ...interface{}) {
	r.hist = append(r.hist, fmt.Sprintf(format, args...))
}

func (r *vfMqResRun) dump() string {
	var sb strings.Builder
	fmt.Fprintf(&sb, "script: %s\n", strings.Join(r.hist, " ; "))
	for _, d := range r.ids {
		fmt.Fprintf(&sb, "  %s:", d.cid)
		if d.sess != nil {
			fmt.Fprintf(&sb, " model session clean=%v deleted=%v topics=%v;", d.sess.clean, d.sess.deleted, d.sess.topics)
		} else {
			sb.WriteString(" model session none;")
		}
		if d.live != nil {
			fmt.Fprintf(&sb, " live %s log: %s;", d.live.Label, vfMqFmtEvents(d.live.Events()))
		} else {
			fmt.Fprintf(&sb, " no live connection (last end: %s);", d.lastEnd)
		}
		for _, p := range d.pending {
			fmt.Fprintf(&sb, " pending %s (closed by broker: %s, socket closed: %v);", p.c.Label, p.why, p.c.EOF())
		}
		sb.WriteString("\n")
	}
	return sb.String()
}

func (r *vfMqResRun) inconclusive(what string, err error) {
	r.rt.Fatalf("VF-INCONCLUSIVE %s: %v\n%s", what, err, r.dump())
}

func (r *vfMqResRun) violation(key, format string, args ...interface{}) bool {
	if r.vf.Violation(r.rt, key, format+"\n%s", append(args, r.dump())...) {
		r.abandon = true
		return true
	}
	return false
}

// sweep drops pending connections whose teardown has finished (also on their own, see C16).
func (r *vfMqResRun) sweep() {
	for _, d := range r.ids {
		kept := d.pending[:0:0]
		ended := 0
		for _, p := range d.pending {
			if p.c.EOF() {
				ended++
				if p.clean && d.live == nil && d.sess != nil && !d.sess.clean && !d.sess.deleted {
					d.recordLost = true
				}
				if p.hadSub && p.why != "takeover" {
					r.nt = true
					r.vf.Class("nontrivial:broker-closed-connection-with-subscriptions-ended")
				}
				if d.live == nil {
					d.lastEnd = "broker-closed(" + p.why + ")"
				}
			} else {
				kept = append(kept, p)
			}
		}
		d.pending = kept
		if ended > 0 && d.live == nil && len(d.pending) > 0 {
			if d.orphaned == nil {
				d.orphaned = map[string]byte{}
			}
			for _, p := range d.pending {
				for f, q := range p.topics {
					d.orphaned[f] = q
				}
			}
		}
		if d.live == nil && len(d.pending) == 0 && d.sess != nil && (d.sess.clean || d.sess.deleted) {
			// the last connection of a clean or deleted session is gone: so is the session
			d.sess = nil
		}
	}
}

func (r *vfMqResRun) connect(d *vfMqResID, clean bool) {
	takeover := d.live != nil
	label := fmt.Sprintf("%s.conn%d", d.cid, len(r.rig.clients)+1)
	var oldBroker *Client
	if takeover {
		oldBroker = r.rig.registered(d.cid)
	}
	r.unstall() // a CONNECT reads the stored record: the store has caught up by then
	var c *vfMqClient
	var err error
	if r.profile == "resume" {
		var fc *vfMqFaultConn
		if c, fc, err = r.rig.DialFault(label); err == nil {
			if r.faults == nil {
				r.faults = map[*vfMqClient]*vfMqFaultConn{}
			}
			r.faults[c] = fc
		}
	} else {
		c, err = r.rig.Dial(label)
	}
	if err != nil {
		r.inconclusive("dial", err)
	}
	code, err := c.Connect(d.cid, clean)
	if err != nil || code != packets.Accepted {
		r.inconclusive("connect", fmt.Errorf("code=%d err=%v", code, err))
	}
	if takeover {
		r.log("%s: takeover(clean=%v)", d.cid, clean)
		r.vf.Class("step:takeover")
		deadline := time.Now().Add(vfMqWait)
		for oldBroker != nil && !oldBroker.disconnected() {
			if time.Now().After(deadline) {
				r.inconclusive("takeover", fmt.Errorf("superseded connection never flagged as closed"))
			}
			time.Sleep(200 * time.Microsecond)
		}
		d.pending = append(d.pending, &vfMqResPending{c: d.live, why: "takeover", hadSub: d.sess != nil && len(d.sess.topics) > 0, topics: vfMqResCopy(d.sess), clean: d.sess != nil && d.sess.clean})
	} else {
		r.log("%s: connect(clean=%v)", d.cid, clean)
		r.vf.Class("step:connect")
	}
	d.live = c
	defer func() { d.recordLost = false }()
	if _, err := c.Ping(); err != nil { // the read loop starts after handleConn re-subscribed the session
		if c.EOF() {
			r.violation("connection-closed-by-broker", "%s was closed by the broker right after CONNACK", label)
			d.live = nil
			return
		}
		r.inconclusive("ping after connect", err)
	}
	switch {
	case !clean && d.sess != nil && !d.sess.clean && d.sess.deleted:
		// The stored record was deleted, but a connection of the session is still open on the broker
		// side, so the session object is still in memory. Whether the new connection continues it or
		// starts fresh is not specified: look which one the broker chose and follow it.
		r.vf.Class("ambiguous-nonclean-connect-after-session-delete")
		got := map[string]byte{}
		if bc := r.rig.registered(d.cid); bc != nil {
			ts, qs, _ := bc.session.allSubscribes()
			for i, t := range ts {
				got[t] = qs[i]
			}
		}
		if len(got) == 0 {
			d.sess = &vfMqResSess{clean: false, topics: map[string]byte{}}
		} else if vfMqResSame(got, d.sess.topics) {
			d.sess.deleted = false
		} else {
			r.violation("session-after-delete-neither-kept-nor-fresh", "the connection's session holds %v; expected the deleted session's %v or nothing", got, d.sess.topics)
			d.sess = &vfMqResSess{clean: false, topics: got}
		}
	case !clean && d.sess != nil && !d.sess.clean:
		if len(d.dropped) > 0 {
			r.vf.Class("session-resumed-after-unsubscribe")
		}
		if d.zombieWithSubs && len(d.pending) > 0 && len(d.sess.topics) > 0 {
			r.nt = true
			r.vf.Class("nontrivial:persistent-session-resumed-while-its-write-failed-connection-is-still-registered")
		}
		d.zombieWithSubs = false
		if d.badUnsub {
			r.nt = true
			r.vf.Class("nontrivial:persistent-session-resumed-after-unsubscribe-list-with-malformed-and-held-filters")
		}
		if d.mixedUnsub {
			r.nt = true
			r.vf.Class("nontrivial:persistent-session-resumed-after-unsubscribe-list-mixing-held-and-not-held-filters")
		}
		if len(d.sess.topics) > 0 {
			r.vf.Class("reconnect-restores-subscriptions")
			if d.recordLost {
				if bc := r.rig.registered(d.cid); bc != nil {
					if ts, _, _ := bc.session.allSubscribes(); len(ts) == 0 {
						r.violation(vfMqResKeyLostRecord, "cleanSession=false reconnect of %s got an empty session, the persistent session held %v", d.cid, d.sess.topics)
						d.sess = &vfMqResSess{clean: false, topics: map[string]byte{}}
					}
				}
			}
		}
	default:
		if d.sess != nil && len(d.sess.topics) > 0 {
			r.vf.Class("connect-discards-subscriptions")
		}
		d.sess = &vfMqResSess{clean: clean, topics: map[string]byte{}}
		d.dropped, d.mixedUnsub, d.badUnsub, d.refused = nil, false, false, nil
	}
}

func vfMqResCopy(s *vfMqResSess) map[string]byte {
	out := map[string]byte{}
	if s != nil {
		for k, v := range s.topics {
			out[k] = v
		}
	}
	return out
}

func vfMqResSame(a, b map[string]byte) bool {
	if len(a) != len(b) {
		return false
	}
	for k, v := range a {
		if w, ok := b[k]; !ok || w != v {
			return false
		}
	}
	return true
}

// liveGone handles a failed operation on a live connection.
func (r *vfMqResRun) liveGone(d *vfMqResID, what string, err error) {
	if d.live.EOF() {
		r.violation("connection-closed-by-broker", "%s: the broker closed live connection %s (%v)", what, d.live.Label, err)
		d.live = nil
		return
	}
	r.inconclusive(what, err)
}

func (r *vfMqResRun) subscribe(d *vfMqResID) {
	n := rapid.IntRange(1, 2).Draw(r.rt, "nFilters")
	var fs []string
	var qs []byte
	var held []string
	for f := range d.sess.topics {
		held = append(held, f)
	}
	sort.Strings(held)
	resub := false
	for i := 0; i < n; i++ {
		if len(held) > 0 && rapid.IntRange(0, 2).Draw(r.rt, "resubscribeHeld?") == 0 {
			// re-subscribe a filter the session holds with the other QoS (MQTT 3.1.1 3.8.4: the new
			// subscription replaces the old one); may share the list with a new filter
			f := rapid.SampledFrom(held).Draw(r.rt, "heldFilter")
			fs = append(fs, f)
			qs = append(qs, 1-d.sess.topics[f])
			resub = true
			continue
		}
		fs = append(fs, rapid.SampledFrom(vfMqResFilters).Draw(r.rt, "filter"))
		qs = append(qs, byte(rapid.IntRange(0, 1).Draw(r.rt, "qos")))
	}
	r.log("%s: sub(%s)", d.cid, vfC16FmtSubsShared(fs, qs))
	r.vf.Class("step:subscribe")
	if resub {
		r.vf.Class("step:resubscribe-held-filter-with-other-qos")
		if n > 1 {
			r.vf.Class("resubscribe-in-a-list-with-another-filter")
		}
	}
	if err := d.live.Subscribe(fs, qs); err != nil {
		r.liveGone(d, "subscribe", err)
		return
	}
	if r.stalled {
		r.stallWrites[d.cid]++
	}
	for i, f := range fs {
		d.sess.topics[f] = qs[i]
		delete(d.dropped, f)
		delete(d.refused, f)
	}
}

func vfC16FmtSubsShared(fs []string, qs []byte) string {
	var parts []string
	for i, f := range fs {
		if qs != nil {
			parts = append(parts, fmt.Sprintf("%s@%d", f, qs[i]))
		} else {
			parts = append(parts, f)
		}
	}
	return strings.Join(parts, ",")
}

// unsubscribe sends one UNSUBSCRIBE with a list of 1-3 filters mixing, in drawn order, filters
// the session holds and filters it never subscribed (MQTT 3.1.1 3.10.4: every listed filter is
// deleted, filters that match nothing are skipped). After the UNSUBACK none of them is live,
// now and after any later resumption of the session.
func (r *vfMqResRun) unsubscribe(d *vfMqResID) {
	var liveF []string
	for f := range d.sess.topics {
		liveF = append(liveF, f)
	}
	sort.Strings(liveF)
	var notHeld []string
	for _, f := range vfMqResFilters {
		if _, ok := d.sess.topics[f]; !ok {
			notHeld = append(notHeld, f)
		}
	}
	// every position is a held or a not-held filter by an (unbiased) coin; a list of two or three
	// that came out uniform gets one position flipped half of the time, so that lists mixing both
	// kinds, in every order, are the common case whenever the session holds something
	wantHeld := rapid.SliceOfN(rapid.Bool(), 1, 3).Draw(r.rt, "unsubHeldPattern")
	n := len(wantHeld)
	if n > 1 && len(liveF) > 0 && len(notHeld) > 0 {
		uniform := true
		for _, h := range wantHeld {
			uniform = uniform && h == wantHeld[0]
		}
		if uniform && rapid.Bool().Draw(r.rt, "mixUniformList") {
			i := rapid.IntRange(0, n-1).Draw(r.rt, "flipPos")
			wantHeld[i] = !wantHeld[i]
		}
	}
	var fs []string
	for i := 0; i < n; i++ {
		if len(liveF) > 0 && (wantHeld[i] || len(notHeld) == 0) {
			fs = append(fs, rapid.SampledFrom(liveF).Draw(r.rt, "filter"))
		} else if len(notHeld) > 0 {
			fs = append(fs, rapid.SampledFrom(notHeld).Draw(r.rt, "filter"))
		} else {
			fs = append(fs, rapid.SampledFrom(vfMqResFilters).Draw(r.rt, "filter"))
		}
	}
	// every other list also carries one malformed filter (wildcard misplaced) at a drawn position:
	// first, last, or between two others, so that held filters stand before and after it
	badAt := -1
	if rapid.Bool().Draw(r.rt, "unsubWithMalformedFilter") {
		badAt = rapid.IntRange(0, len(fs)).Draw(r.rt, "malformedPos")
		bad := rapid.SampledFrom(vfMqResBadFilters).Draw(r.rt, "malformedFilter")
		fs = append(fs[:badAt:badAt], append([]string{bad}, fs[badAt:]...)...)
	}
	r.log("%s: unsub(%s)", d.cid, vfC16FmtSubsShared(fs, nil))
	r.vf.Class("step:unsubscribe")
	heldBeforeBad, heldAfterBad := false, false
	if badAt >= 0 {
		for i, f := range fs {
			if _, ok := d.sess.topics[f]; ok {
				heldBeforeBad = heldBeforeBad || i < badAt
				heldAfterBad = heldAfterBad || i > badAt
			}
		}
		switch {
		case heldBeforeBad && heldAfterBad:
			r.vf.Class("unsubscribe-list:malformed-filter-between-held-filters")
		case heldBeforeBad:
			r.vf.Class("unsubscribe-list:malformed-filter-after-a-held-one")
		case heldAfterBad:
			r.vf.Class("unsubscribe-list:malformed-filter-before-a-held-one")
		default:
			r.vf.Class("unsubscribe-list:malformed-filter-without-held-filter")
		}
	}
	// shape of the list: where the not-held filters stand relative to the held ones
	firstHeld, lastHeld, firstNot, lastNot := -1, -1, -1, -1
	for i, f := range fs {
		if _, ok := d.sess.topics[f]; ok {
			if firstHeld < 0 {
				firstHeld = i
			}
			lastHeld = i
		} else {
			if firstNot < 0 {
				firstNot = i
			}
			lastNot = i
		}
	}
	mixed := false
	switch {
	case firstHeld < 0:
		r.vf.Class("unsubscribe-list:only-filters-not-held")
	case firstNot < 0:
		r.vf.Class("unsubscribe-list:only-held-filters")
	default:
		mixed = true
		if firstNot < lastHeld {
			r.vf.Class("unsubscribe-list:not-held-filter-before-a-held-one")
		}
		if firstHeld < lastNot {
			r.vf.Class("unsubscribe-list:held-filter-before-a-not-held-one")
		}
	}
	if badAt < 0 {
		if err := d.live.Unsubscribe(fs); err != nil {
			r.liveGone(d, "unsubscribe", err)
			return
		}
	} else {
		// A list with a malformed filter: the broker acknowledges it and forgets every listed filter
		// (DESIGN 8.4 reading). Should it not acknowledge (PINGRESP of a following PINGREQ arrives,
		// UNSUBACK did not: packets are handled in order), the UNSUBSCRIBE was refused as a whole and
		// everything the client held is still live. Either way the routing must follow.
		acked, err := vfMqResUnsubscribeMaybe(d.live, fs)
		if err != nil {
			r.liveGone(d, "unsubscribe", err)
			return
		}
		if !acked {
			r.vf.Class("ambiguous-unsubscribe-with-malformed-filter-not-acknowledged")
			for _, f := range fs {
				if _, ok := d.sess.topics[f]; ok {
					if d.refused == nil {
						d.refused = map[string]bool{}
					}
					d.refused[f] = true
				}
			}
			return
		}
		r.vf.Class("unsubscribe-with-malformed-filter-acknowledged")
		if (heldBeforeBad || heldAfterBad) && !d.sess.clean {
			d.badUnsub = true
		}
	}
	if r.stalled {
		r.stallWrites[d.cid]++
	}
	for _, f := range fs {
		delete(d.refused, f)
		if _, ok := d.sess.topics[f]; ok {
			delete(d.sess.topics, f)
			if d.dropped == nil {
				d.dropped = map[string]bool{}
			}
			d.dropped[f] = true
		}
	}
	if mixed && !d.sess.clean {
		d.mixedUnsub = true
	}
}

// vfMqResUnsubscribeMaybe sends an UNSUBSCRIBE followed by a PINGREQ and reports whether the
// UNSUBACK had arrived when the PINGRESP did.
func vfMqResUnsubscribeMaybe(c *vfMqClient, filters []string) (acked bool, err error) {
	id := c.newID()
	if err := c.write(vfMqUnsubscribePacket(id, filters)); err != nil {
		return false, err
	}
	if _, err := c.Ping(); err != nil {
		return false, err
	}
	c.mu.Lock()
	defer c.mu.Unlock()
	return c.countLocked(packets.Unsuback, int(id)) > 0, nil
}

// endLive: the client ends its connection (DISCONNECT / half-close), or a backend pipeline asks
// the broker to disconnect it (the connection then ends without anything else from the client).
func (r *vfMqResRun) endLive(d *vfMqResID) {
	how := rapid.SampledFrom([]string{"disconnect", "halfclose", "kick", "kick"}).Draw(r.rt, "endHow")
	r.log("%s: end(%s)", d.cid, how)
	r.vf.Class("step:end-" + how)
	if r.stalled && r.stallWrites[d.cid] >= 2 && d.sess != nil && !d.sess.clean {
		// the record of the last change is queued behind an earlier one when the connection ends
		r.nt = true
		r.vf.Class("nontrivial:persistent-connection-ended-with-session-records-still-queued")
	}
	c := d.live
	var err error
	switch how {
	case "disconnect":
		err = c.Disconnect()
	case "halfclose":
		err = c.HalfClose()
	case "kick":
		err = c.write(vfMqPublishPacket(0, "a", 0, fmt.Sprintf("KICK%d", r.seq)))
		if len(d.sess.topics) > 0 {
			r.nt = true
			r.vf.Class("nontrivial:pipeline-disconnect-of-connection-with-subscriptions")
		}
	}
	if err != nil {
		r.liveGone(d, "end", err)
		return
	}
	if !c.WaitEOF(vfMqWait) {
		r.inconclusive("end", fmt.Errorf("broker did not close %s after %s", c.Label, how))
	}
	d.live = nil
	d.lastEnd = how
	if d.sess != nil && d.sess.clean {
		d.sess = nil
	}
}

// adminDelete: the session of an id is deleted (HTTP endpoint, or a delete event as another
// cluster member's delete would produce). The broker closes the id's registered connection,
// whose socket stays open until its read loop notices.
func (r *vfMqResRun) adminDelete(d *vfMqResID) {
	via := rapid.SampledFrom([]string{"admin", "store-event"}).Draw(r.rt, "deleteVia")
	r.log("%s: delete-session(%s)", d.cid, via)
	r.vf.Class("step:delete-session-" + via)
	if strings.Contains(d.cid, "/") {
		r.vf.Class("delete-session-of-id-containing-slash:" + map[bool]string{true: "connected", false: "not-connected"}[d.live != nil])
		for _, o := range r.ids {
			if o != d && (o.cid == vfMqResLastElem(d.cid) || o.cid == strings.TrimSuffix(d.cid, "/")) {
				r.vf.Class("delete-session-of-id-whose-last-path-element-is-another-id:other-" + map[bool]string{true: "connected", false: "not-connected"}[o.live != nil])
			}
		}
	}
	if err := r.rig.Quiesce(); err != nil {
		r.inconclusive("quiesce", err)
	}
	if via == "admin" {
		if code := r.rig.DeleteSessions(d.cid); code != 200 {
			r.inconclusive("admin delete", fmt.Errorf("status %d", code))
		}
	} else {
		r.rig.store.delete(sessionStoreKey(d.cid))
	}
	if _, err := r.rig.FlushWatch(); err != nil {
		r.inconclusive("flush watch", err)
	}
	if d.live != nil {
		// deleteSession closed and unregistered it
		deadline := time.Now().Add(vfMqWait)
		for r.rig.registered(d.cid) != nil {
			if time.Now().After(deadline) {
				r.violation("session-delete-did-not-unregister-client", "%s is still registered after its session was deleted", d.cid)
				break
			}
			time.Sleep(200 * time.Microsecond)
		}
		d.pending = append(d.pending, &vfMqResPending{c: d.live, why: via, hadSub: d.sess != nil && len(d.sess.topics) > 0, topics: vfMqResCopy(d.sess), clean: d.sess != nil && d.sess.clean})
		d.live = nil
		d.lastEnd = "session-delete(" + via + "), connection not ended yet"
	}
	if d.sess != nil {
		d.sess.deleted = true
	}
}

// endPending lets the read loop of a broker-closed connection notice its end.
func (r *vfMqResRun) endPending(d *vfMqResID) {
	i := 0 // mostly the oldest one
	if rapid.IntRange(0, 2).Draw(r.rt, "oldestFirst") == 0 {
		i = rapid.IntRange(0, len(d.pending)-1).Draw(r.rt, "which")
	}
	how := rapid.SampledFrom([]string{"ping", "halfclose", "disconnect"}).Draw(r.rt, "pendingEndHow")
	p := d.pending[i]
	r.log("%s: end-of-%s-closed-connection(%s via %s)", d.cid, p.why, p.c.Label, how)
	r.vf.Class("step:end-pending-" + p.why)
	switch how {
	case "halfclose":
		p.c.HalfClose()
	case "disconnect":
		p.c.Disconnect()
	default:
		deadline := time.Now().Add(vfMqWait)
		for !p.c.EOF() && time.Now().Before(deadline) {
			if err := p.c.write(packets.NewControlPacket(packets.Pingreq)); err != nil {
				break
			}
			p.c.WaitEOF(50 * time.Millisecond)
		}
	}
	if !p.c.WaitEOF(vfMqWait) {
		r.inconclusive("end pending", fmt.Errorf("broker did not close %s", p.c.Label))
	}
}

// check compares trie and delivery with the reference.
func (r *vfMqResRun) check() {
	if r.stalled {
		// routing does not depend on the store: compare now, the store catches up later
		if _, err := r.rig.FlushWatch(); err != nil {
			r.inconclusive("flush watch", err)
		}
	} else if err := r.rig.Quiesce(); err != nil {
		r.inconclusive("quiesce", err)
	}
	r.sweep()
	// live connections still there?
	for _, d := range r.ids {
		if d.live == nil {
			continue
		}
		if _, err := d.live.Ping(); err != nil {
			if !d.live.EOF() {
				r.inconclusive("ping", err)
			}
			r.violation("connection-closed-by-broker", "the broker closed live connection %s", d.live.Label)
			d.live = nil
		}
	}
	type probe struct {
		topic, payload string
		q              int
	}
	var probes []probe
	for _, t := range vfMqResTopics {
		want := map[string]bool{}
		skip := map[string]bool{}
		for _, d := range r.ids {
			if d.live == nil && len(d.pending) > 0 {
				skip[d.cid] = true // teardown of a broker-closed connection still to come
				r.vf.Class("id-skipped-while-its-teardown-is-pending")
				continue
			}
			if d.live != nil && d.sess != nil {
				for f := range d.sess.topics {
					if vfMqMatch(f, t) {
						want[d.cid] = true
					}
				}
			}
		}
		subs, _ := r.rig.broker.topicMgr.findSubscribers(t)
		for _, d := range r.ids {
			if skip[d.cid] {
				continue
			}
			_, got := subs[d.cid]
			switch {
			case got && !want[d.cid]:
				key := "routed-without-live-subscription"
				if d.live == nil {
					key = "routed-after-connection-ended:" + strings.SplitN(d.lastEnd, ",", 2)[0]
				} else {
					for f := range d.dropped {
						if vfMqMatch(f, t) {
							key = "unsubscribed-filter-routed-again"
						}
					}
					for f := range d.orphaned {
						if vfMqMatch(f, t) {
							key = vfMqResKeyLostEntry
						}
					}
				}
				if r.violation(key, "findSubscribers(%s) contains %s, reference %v", t, d.cid, vfMqResKeys(want)) {
					return
				}
			case !got && want[d.cid]:
				lkey := "live-subscription-not-routed"
				for _, p := range d.pending {
					if p.why == "write-failure" {
						lkey = "resumed-session-not-routed-while-its-write-failed-connection-is-still-registered"
					}
				}
				for f := range d.refused {
					if vfMqMatch(f, t) {
						lkey = "unacknowledged-unsubscribe-removed-filter-from-routing"
					}
				}
				if r.violation(lkey, "findSubscribers(%s) lacks %s, reference %v", t, d.cid, vfMqResKeys(want)) {
					return
				}
			case got:
				// C14: the QoS associated with a routed client is the QoS of one of its own matching
				// (current) subscriptions
				ok := false
				var own []int
				for f, q := range d.sess.topics {
					if vfMqMatch(f, t) {
						own = append(own, int(q))
						if q == subs[d.cid] {
							ok = true
						}
					}
				}
				if !ok {
					sort.Ints(own)
					qkey := "routed-qos-not-of-a-live-matching-subscription"
					for f := range d.dropped {
						if vfMqMatch(f, t) { // the QoS of a filter the session unsubscribed earlier
							qkey = "unsubscribed-filter-routed-again"
						}
					}
					if r.violation(qkey, "findSubscribers(%s) reports QoS %d for %s, its matching subscriptions have QoS %v", t, subs[d.cid], d.cid, own) {
						return
					}
				}
				r.vf.Class("routed-as-expected")
			default:
				r.vf.Class("not-routed-as-expected")
			}
		}
		r.seq++
		probes = append(probes, probe{t, fmt.Sprintf("r%d", r.seq), rapid.IntRange(0, 1).Draw(r.rt, "probeQoS")})
	}
	for _, p := range probes {
		if code := r.rig.Publish(p.topic, p.q, p.payload); code != 200 {
			r.inconclusive("http publish", fmt.Errorf("status %d", code))
		}
	}
	if err := r.rig.FanoutBarrier(); err != nil {
		r.inconclusive("fan-out barrier", err)
	}
	for _, d := range r.ids {
		if d.live == nil {
			continue
		}
		if _, err := d.live.Ping(); err != nil {
			if !d.live.EOF() {
				r.inconclusive("ping", err)
			}
			r.violation("connection-closed-by-broker", "the broker closed live connection %s", d.live.Label)
			d.live = nil
			continue
		}
		for _, p := range probes {
			want, lowerOnly := false, false
			for f, q := range d.sess.topics {
				if vfMqMatch(f, p.topic) {
					if int(q) >= p.q {
						want = true
					} else {
						lowerOnly = true
					}
				}
			}
			got := len(d.live.Publishes(p.payload)) > 0
			switch {
			case got && !want && lowerOnly:
				// C15 leaves open what a subscriber below the message QoS gets
				r.vf.Class("ambiguous-lower-qos-subscriber-got-a-copy")
			case got && !want:
				key := "delivered-without-subscription"
				for f := range d.orphaned {
					if vfMqMatch(f, p.topic) {
						key = vfMqResKeyLostEntry
					}
				}
				if r.violation(key, "%s received probe %s (%s) without a matching filter", d.live.Label, p.topic, p.payload) {
					return
				}
			case !got && want:
				if r.violation("subscription-not-delivered", "%s did not receive probe %s (%s) although it holds a matching filter", d.live.Label, p.topic, p.payload) {
					return
				}
			case got:
				r.vf.Class(fmt.Sprintf("probe-delivered-q%d", p.q))
			}
		}
	}
}

func vfMqResKeys(m map[string]bool) []string {
	var out []string
	for k := range m {
		out = append(out, k)
	}
	sort.Strings(out)
	return out
}

// vfMqResidueCheck is the test body shared by the C14 and C16 wrappers.
func vfMqResidueCheck(t *testing.T, property string) { vfMqResidueCheckProfile(t, property, "all") }

// vfMqResidueCheckProfile: profile "all" = every way a connection can end; profile "resume" =
// only subscribe lists / unsubscribe lists / client-side ends / reconnects, mostly with
// cleanSession=false, so that nearly every script resumes a kept session after UNSUBSCRIBEs and
// the routing of the resumed connection (handleConn re-subscribes what the session lists) is
// compared with what the client still holds.
func vfMqResidueCheckProfile(t *testing.T, property, profile string) {
	vf := vfBegin(t, property)
	defer vf.End()
	rapid.Check(t, func(rt *rapid.T) {
		rig, err := vfMqNewRig(nil)
		if err != nil {
			rt.Fatalf("VF-INCONCLUSIVE start broker: %v", err)
		}
		defer rig.Close()
		r := &vfMqResRun{rt: rt, vf: vf, rig: rig, profile: profile}
		defer func() { rig.store.release() }()
		nIDs := rapid.IntRange(2, 3).Draw(rt, "nIDs")
		if profile == "resume" {
			nIDs = rapid.IntRange(1, 2).Draw(rt, "nIDsResume") // fewer ids: longer per-session histories
		}
		fam := 0
		for _, b := range rapid.SliceOfN(rapid.Bool(), 3, 3).Draw(rt, "idFamilyBits") { // unbiased
			fam <<= 1
			if b {
				fam |= 1
			}
		}
		family := vfMqResIDFamilies[fam%len(vfMqResIDFamilies)]
		vf.Class(fmt.Sprintf("ids:%s", strings.Join(family[:nIDs], ",")))
		for i := 0; i < nIDs; i++ {
			r.ids = append(r.ids, &vfMqResID{cid: family[i], lastEnd: "never connected"})
		}
		nSteps := rapid.IntRange(5, 16).Draw(rt, "nSteps")
		for s := 0; s < nSteps && !r.abandon; s++ {
			r.sweep()
			d := r.ids[rapid.IntRange(0, nIDs-1).Draw(rt, "id")]
			// stay with an id that has broker-closed connections still open: the interesting
			// histories are the ones in which their ends interleave with the id's next steps
			var busy []*vfMqResID
			for _, x := range r.ids {
				if len(x.pending) > 0 {
					busy = append(busy, x)
				}
			}
			if len(busy) > 0 && rapid.IntRange(0, 2).Draw(rt, "stayWithBusyID") > 0 {
				d = busy[rapid.IntRange(0, len(busy)-1).Draw(rt, "busyID")]
			}
			if r.stalled && r.stallID != nil && r.stallID.live != nil {
				d = r.stallID // a stall is short: what matters is what this connection does meanwhile
			}
			var ops []string
			if profile == "resume" {
				if r.stalled && d.live != nil {
					ops = []string{"unsub", "sub", "unsub", "unsub", "end"}
				} else if d.live == nil {
					ops = []string{"connect"}
				} else {
					ops = []string{"sub", "sub", "unsub", "unsub", "unsub", "end", "end", "write-failure"}
					if d.sess == nil || len(d.sess.topics) == 0 {
						ops = []string{"sub", "sub", "sub", "sub", "unsub", "end"} // nothing held yet: mostly subscribe
					} else if !r.stalled {
						ops = append(ops, "store-stalls")
					}
				}
			} else if d.live == nil {
				ops = []string{"connect", "connect", "connect"}
				if d.sess != nil {
					ops = append(ops, "delete-session")
				}
			} else {
				ops = []string{"sub", "sub", "sub", "unsub", "end", "end", "delete-session", "delete-session", "takeover", "takeover"}
				if len(d.pending) > 0 {
					ops = append(ops, "delete-session", "delete-session", "end", "end")
				}
			}
			for range d.pending {
				ops = append(ops, "end-pending", "end-pending")
				if d.live == nil {
					ops = append(ops, "end-pending", "end-pending")
				}
			}
			switch rapid.SampledFrom(ops).Draw(rt, "op") {
			case "connect", "takeover":
				if profile == "resume" {
					r.connect(d, rapid.SampledFrom([]bool{false, false, false, true}).Draw(rt, "clean"))
				} else {
					r.connect(d, rapid.Bool().Draw(rt, "clean"))
				}
			case "sub":
				r.subscribe(d)
			case "unsub":
				r.unsubscribe(d)
			case "end":
				r.endLive(d)
			case "delete-session":
				r.adminDelete(d)
			case "end-pending":
				r.endPending(d)
			case "write-failure":
				r.writeFailure(d)
			case "store-stalls":
				r.stall(d)
			}
			r.check()
		}
		r.unstall()
		// every connection ends eventually; then nothing of an id without live connection may be routed
		for _, d := range r.ids {
			for len(d.pending) > 0 && !r.abandon {
				r.sweep()
				if len(d.pending) == 0 {
					break
				}
				r.endPending(d)
				r.check()
			}
		}
		if r.abandon {
			vf.Class("case-abandoned-at-known-finding")
		}
		vf.Case(r.nt, strings.Join(r.hist, " ; "), func() interface{} {
			return map[string]interface{}{"test": "broker-residue/" + profile, "script": strings.Join(r.hist, " ; ")}
		})
	})
}
