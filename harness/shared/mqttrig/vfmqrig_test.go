//go:build go1.21

package mqttproxy

// vfmqrig: the rig shared by the C15 / C16 (/ C17) harnesses.
//
//   * a real Broker on an OS-chosen loopback port with a harness-owned storage implementation
//     (put gate, put log, delete-watch events that the harness delivers, a write fence),
//   * a recording handler standing in for the backend pipeline of PUBLISH packets,
//   * raw MQTT clients over TCP that use only the paho *packet codec* (no paho client logic): a
//     reader goroutine appends every packet to a log, an ack policy decides about PUBACKs,
//   * protocol-level synchronisation: PINGREQ/PINGRESP on one connection is a fence because the
//     broker processes the packets of one connection in order and writes to it through one FIFO,
//   * goroutine-stack barriers for the two fire-and-forget goroutines of the broker that have no
//     protocol-visible end (`go b.sendMsgToClient` of the HTTP publish handler, `go
//     b.deleteSession` of the delete watcher, `go func(){ storeCh <- … }` of Session.store),
//   * a reference MQTT 3.1.1 filter matcher written from section 4.7.
//
// Everything is prefixed vfMq. Infrastructure failures are reported by returning errors; the
// tests turn them into VF-INCONCLUSIVE.

import (
	"bytes"
	"encoding/base64"
	"encoding/json"
	"errors"
	"fmt"
	"net"
	"net/http"
	"net/http/httptest"
	"runtime"
	"sort"
	"strconv"
	"strings"
	"sync"
	"sync/atomic"
	"time"

	"github.com/eclipse/paho.mqtt.golang/packets"
	"github.com/megaease/easegress/pkg/context"
	"github.com/megaease/easegress/pkg/logger"
	"github.com/megaease/easegress/pkg/protocols/mqttprot"
)

func init() {
	logger.InitNop()
}

const (
	// vfMqWait bounds every wait for something the broker must do promptly (CONNACK, SUBACK,
	// PINGRESP, EOF after a teardown trigger, barriers). Expiry is VF-INCONCLUSIVE, never a violation.
	vfMqWait = 30 * time.Second
	// vfMqResendTick is the broker's retransmission period (session.go backgroundResendPending).
	vfMqResendTick = 200 * time.Millisecond
	// vfMqResendBound is the bounded-liveness wait for a retransmission: 75 ticks.
	vfMqResendBound = 15 * time.Second

	vfMqPublishPipeline = "vf-publish-pipeline"
	vfMqFenceKey        = "vf-fence"
	vfMqFillerKey       = "vf-filler"
	// vfMqDisconnectPipeline: the pipeline of the Disconnect packet type (only in rigs built with
	// vfMqNewRigGate); it returns at once unless the harness armed it for a client id
	vfMqDisconnectPipeline = "vf-disconnect-pipeline"
)

// ---------------------------------------------------------------------------------------------
// reference matcher (MQTT 3.1.1 section 4.7; topic names here never start with '$')

func vfMqMatch(filter, topic string) bool {
	f := strings.Split(filter, "/")
	t := strings.Split(topic, "/")
	for i, fl := range f {
		if fl == "#" {
			// multi-level wildcard: the parent level and any number of child levels
			return i == len(f)-1
		}
		if i >= len(t) {
			return false
		}
		if fl != "+" && fl != t[i] {
			return false
		}
	}
	return len(f) == len(t)
}

// ---------------------------------------------------------------------------------------------
// storage owned by the harness

type vfMqStore struct {
	mu      sync.Mutex
	data    map[string]string
	puts    int
	dels    int
	gate    chan struct{} // non-nil: puts block until it is closed
	watchCh chan map[string]*string
	pending []map[string]*string // delete events not yet delivered to the watcher
	watched bool
	fenced  int // highest fence number the store loop has applied
	blocked int // puts waiting at the gate
}

var _ storage = (*vfMqStore)(nil)

func vfMqNewStore() *vfMqStore {
	return &vfMqStore{data: map[string]string{}, watchCh: make(chan map[string]*string)}
}

func (s *vfMqStore) get(key string) (*string, error) {
	s.mu.Lock()
	defer s.mu.Unlock()
	if v, ok := s.data[key]; ok {
		return &v, nil
	}
	return nil, errors.New("vfMqStore: key not found")
}

func (s *vfMqStore) getPrefix(prefix string, keysOnly bool) (map[string]string, error) {
	s.mu.Lock()
	defer s.mu.Unlock()
	out := map[string]string{}
	for k, v := range s.data {
		if strings.HasPrefix(k, prefix) {
			if keysOnly {
				v = ""
			}
			out[k] = v
		}
	}
	return out, nil
}

func (s *vfMqStore) put(key, value string) error {
	if key == sessionStoreKey(vfMqFenceKey) {
		n, _ := strconv.Atoi(value)
		s.mu.Lock()
		if n > s.fenced {
			s.fenced = n
		}
		s.mu.Unlock()
		return nil
	}
	s.mu.Lock()
	g := s.gate
	if g != nil {
		s.blocked++
	}
	s.mu.Unlock()
	if g != nil {
		<-g
		s.mu.Lock()
		s.blocked--
		s.mu.Unlock()
	}
	if key == sessionStoreKey(vfMqFillerKey) {
		// a record of "some other session" that only occupied the queue (FillStoreQueue)
		return nil
	}
	s.mu.Lock()
	s.data[key] = value
	s.puts++
	s.mu.Unlock()
	return nil
}

// blockedPuts: how many puts wait at the gate right now.
func (s *vfMqStore) blockedPuts() int {
	s.mu.Lock()
	defer s.mu.Unlock()
	return s.blocked
}

// delete removes the key; like etcd it produces a watch event only when the key existed. The
// event is queued: the harness decides when the watcher hears about it (flushWatch).
func (s *vfMqStore) delete(key string) error {
	s.mu.Lock()
	defer s.mu.Unlock()
	s.dels++
	if _, ok := s.data[key]; ok {
		delete(s.data, key)
		if s.watched {
			s.pending = append(s.pending, map[string]*string{key: nil})
		}
	}
	return nil
}

func (s *vfMqStore) watchDelete(prefix string) (<-chan map[string]*string, func(), error) {
	s.mu.Lock()
	s.watched = true
	s.mu.Unlock()
	return s.watchCh, func() {}, nil
}

func (s *vfMqStore) hold() {
	s.mu.Lock()
	if s.gate == nil {
		s.gate = make(chan struct{})
	}
	s.mu.Unlock()
}

func (s *vfMqStore) release() {
	s.mu.Lock()
	if s.gate != nil {
		close(s.gate)
		s.gate = nil
	}
	s.mu.Unlock()
}

func (s *vfMqStore) takePending() []map[string]*string {
	s.mu.Lock()
	defer s.mu.Unlock()
	p := s.pending
	s.pending = nil
	return p
}

// sessionTopics decodes the stored record of a client id (nil, false when there is none).
func (s *vfMqStore) sessionTopics(cid string) (map[string]int, bool) {
	str, err := s.get(sessionStoreKey(cid))
	if err != nil || str == nil {
		return nil, false
	}
	sess := &Session{info: &SessionInfo{}}
	if err := sess.decode(*str); err != nil {
		return nil, false
	}
	if sess.info.Topics == nil {
		sess.info.Topics = map[string]int{}
	}
	return sess.info.Topics, true
}

// ---------------------------------------------------------------------------------------------
// recording backend pipeline

type vfMqBackendRec struct {
	Client  string
	Topic   string
	Payload string
	QoS     byte
	ID      uint16
}

type vfMqRecorder struct {
	mu  sync.Mutex
	log []vfMqBackendRec
}

// Handle records the PUBLISH; a payload starting with "DROP" makes the pipeline drop the packet,
// one starting with "KICK" makes it ask for the client's disconnection.
func (r *vfMqRecorder) Handle(ctx *context.Context) string {
	req, ok := ctx.GetRequest(context.DefaultNamespace).(*mqttprot.Request)
	if !ok || req.PacketType() != mqttprot.PublishType {
		return ""
	}
	p := req.PublishPacket()
	r.mu.Lock()
	r.log = append(r.log, vfMqBackendRec{Client: req.Client().ClientID(), Topic: p.TopicName, Payload: string(p.Payload), QoS: p.Qos, ID: p.MessageID})
	r.mu.Unlock()
	if strings.HasPrefix(string(p.Payload), "DROP") {
		ctx.GetResponse(context.DefaultNamespace).(*mqttprot.Response).SetDrop()
	}
	if strings.HasPrefix(string(p.Payload), "KICK") {
		// a backend filter that answers "disconnect this client" (Client.runPipeline -> Client.close)
		ctx.GetResponse(context.DefaultNamespace).(*mqttprot.Response).SetDisconnect()
	}
	return ""
}

func (r *vfMqRecorder) of(cid string) []vfMqBackendRec {
	r.mu.Lock()
	defer r.mu.Unlock()
	var out []vfMqBackendRec
	for _, e := range r.log {
		if e.Client == cid {
			out = append(out, e)
		}
	}
	return out
}

type vfMqMapper struct {
	rec  *vfMqRecorder
	gate *vfMqDiscGate
}

func (m *vfMqMapper) GetHandler(name string) (context.Handler, bool) {
	if name == vfMqPublishPipeline {
		return m.rec, true
	}
	if name == vfMqDisconnectPipeline && m.gate != nil {
		return m.gate, true
	}
	return nil, false
}

// vfMqDiscGate stands in for a pipeline configured for the Disconnect packet type (Client.close
// runs it when a connection is over: "notify a backend that the device went offline"). Such a
// pipeline may take any amount of time. Armed for a client id, the next run for that id parks
// until the harness releases it; every other run returns at once.
type vfMqDiscGate struct {
	mu     sync.Mutex
	armed  map[string]bool
	parked map[string]chan struct{} // cid -> closed on release
	runs   int
}

func (g *vfMqDiscGate) Handle(ctx *context.Context) string {
	req, ok := ctx.GetRequest(context.DefaultNamespace).(*mqttprot.Request)
	if !ok || req.PacketType() != mqttprot.DisconnectType {
		return ""
	}
	cid := req.Client().ClientID()
	g.mu.Lock()
	g.runs++
	var ch chan struct{}
	if g.armed[cid] {
		delete(g.armed, cid)
		ch = make(chan struct{})
		g.parked[cid] = ch
	}
	g.mu.Unlock()
	if ch != nil {
		<-ch
	}
	return ""
}

// Arm: the next Disconnect pipeline run for cid parks.
func (g *vfMqDiscGate) Arm(cid string) {
	g.mu.Lock()
	g.armed[cid] = true
	g.mu.Unlock()
}

// WaitParked waits until a run for cid is parked.
func (g *vfMqDiscGate) WaitParked(cid string) error {
	deadline := time.Now().Add(vfMqWait)
	for {
		g.mu.Lock()
		_, ok := g.parked[cid]
		g.mu.Unlock()
		if ok {
			return nil
		}
		if time.Now().After(deadline) {
			return fmt.Errorf("the Disconnect pipeline was not run for %q within %v", cid, vfMqWait)
		}
		time.Sleep(200 * time.Microsecond)
	}
}

// Release lets the parked run for cid (if any) return; it also disarms cid.
func (g *vfMqDiscGate) Release(cid string) {
	g.mu.Lock()
	delete(g.armed, cid)
	if ch, ok := g.parked[cid]; ok {
		close(ch)
		delete(g.parked, cid)
	}
	g.mu.Unlock()
}

func (g *vfMqDiscGate) releaseAll() {
	g.mu.Lock()
	g.armed = map[string]bool{}
	for cid, ch := range g.parked {
		close(ch)
		delete(g.parked, cid)
	}
	g.mu.Unlock()
}

// ---------------------------------------------------------------------------------------------
// goroutine-stack barrier

// vfMqStacks returns the stacks of all goroutines.
func vfMqStacks() string {
	n := 1 << 18
	for {
		buf := make([]byte, n)
		m := runtime.Stack(buf, true)
		if m < n {
			return string(buf[:m])
		}
		n *= 2
	}
}

// vfMqNoGoroutine waits until no goroutine has a frame containing one of the substrings.
// It reports whether such a goroutine was ever seen (generator-health evidence only).
func vfMqNoGoroutine(substrs ...string) (seen bool, err error) {
	deadline := time.Now().Add(vfMqWait)
	for {
		st := vfMqStacks()
		found := false
		for _, s := range substrs {
			if strings.Contains(st, s) {
				found = true
				break
			}
		}
		if !found {
			return seen, nil
		}
		seen = true
		if time.Now().After(deadline) {
			return seen, fmt.Errorf("goroutine matching %v still running after %v", substrs, vfMqWait)
		}
		time.Sleep(200 * time.Microsecond)
	}
}

const vfMqPkg = "pkg/object/mqttproxy."

var (
	// `go b.sendMsgToClient(...)` in httpTopicsPublishHandler: wrapper frame before it starts, method frame afterwards
	vfMqFanoutFrames = []string{vfMqPkg + "(*Broker).httpTopicsPublishHandler.gowrap", vfMqPkg + "(*Broker).httpTopicsPublishHandler.func", vfMqPkg + "(*Broker).sendMsgToClient("}
	// `go b.deleteSession(clientID)` in watchDelete
	vfMqDeleteFrames = []string{vfMqPkg + "(*Broker).watchDelete.gowrap", vfMqPkg + "(*Broker).watchDelete.func", vfMqPkg + "(*Broker).deleteSession("}
	// `go func() { s.storeCh <- ss }()` in Session.store
	vfMqStoreFrames = []string{vfMqPkg + "(*Session).store.func", vfMqPkg + "(*Session).store.gowrap"}
	// `go oldClient.close()` in handleConn (takeover)
	vfMqTakeoverFrames = []string{vfMqPkg + "(*Broker).handleConn.gowrap", vfMqPkg + "(*Broker).handleConn.func"}
)

// ---------------------------------------------------------------------------------------------
// rig

type vfMqRig struct {
	broker  *Broker
	store   *vfMqStore
	rec     *vfMqRecorder
	addr    string
	clients []*vfMqClient
	fenceNo int
	// evidence counters
	SawFanout, SawDelete, SawStore int
	// cluster bed (vfMqNewCluster): the publish endpoints of the other members, in the order the
	// member list reports them; nil for a single broker
	peerMu   sync.Mutex
	peerURLs []string
	httpSrv  *httptest.Server
	// DiscGate: the parkable Disconnect pipeline (nil unless built with vfMqNewRigGate(.., true))
	DiscGate *vfMqDiscGate
}

// FillStoreQueue stalls the store (puts block at the gate) and fills the session manager's
// record queue to the brim with records of "other sessions" (filler records the store ignores):
// one put in flight and cap(storeCh) records queued, which is the state a broker with many active
// clients reaches when etcd stalls. StoreFence (release + fence) ends it.
func (r *vfMqRig) FillStoreQueue() error {
	r.store.hold()
	ch := r.broker.sessMgr.storeCh
	deadline := time.Now().Add(vfMqWait)
	for {
		select {
		case ch <- SessionStore{key: vfMqFillerKey, value: "x"}:
			continue
		default:
		}
		// full right now; the store loop may still take one more record
		if r.store.blockedPuts() >= 1 && len(ch) == cap(ch) {
			return nil
		}
		if time.Now().After(deadline) {
			return errors.New("the session store queue could not be filled")
		}
		time.Sleep(100 * time.Microsecond)
	}
}

// InSessionStore reports whether some goroutine is inside Session.store (blocked on the full queue).
func vfMqInSessionStore() bool {
	return strings.Contains(vfMqStacks(), vfMqPkg+"(*Session).store(")
}

// peers is what the broker's memberURL function returns.
func (r *vfMqRig) peers() []string {
	r.peerMu.Lock()
	defer r.peerMu.Unlock()
	return append([]string(nil), r.peerURLs...)
}

// vfMqTransferLog wraps the transport of http.DefaultClient (which Broker.requestTransfer uses)
// without changing what it does: it only counts requests and transport-level failures, so that a
// forwarded publish that failed for reasons of the machine (no port, connection refused under load)
// is reported as VF-INCONCLUSIVE and never mistaken for a message the broker did not forward.
type vfMqTransferLog struct {
	inner     http.RoundTripper
	attempts  int64
	transport int64 // RoundTrip returned an error
	// hosts of members the harness made unreachable on purpose, and the failures they produced
	deadHosts   sync.Map
	deadRefused int64
}

func (l *vfMqTransferLog) RoundTrip(req *http.Request) (*http.Response, error) {
	atomic.AddInt64(&l.attempts, 1)
	resp, err := l.inner.RoundTrip(req)
	if err != nil {
		if _, dead := l.deadHosts.Load(req.URL.Host); dead {
			atomic.AddInt64(&l.deadRefused, 1) // the member the harness made unreachable
		} else {
			atomic.AddInt64(&l.transport, 1)
		}
	}
	return resp, err
}

var (
	vfMqTransfers     = &vfMqTransferLog{inner: http.DefaultTransport}
	vfMqTransfersOnce sync.Once
)

// vfMqCluster is a set of brokers that are each other's members, as in a multi-node deployment:
// every member's publish endpoint is served by a real HTTP server on a loopback port, and every
// member's memberURL function reports the endpoints of all the others.
type vfMqCluster struct {
	Rigs []*vfMqRig
	// dead: a member that is down. Its endpoint is a loopback port the harness keeps for itself
	// (nobody else can get it meanwhile) and on which every connection is reset at once, so a
	// request forwarded to it fails in the HTTP transport like one to an unreachable machine.
	dead     net.Listener
	deadDone chan struct{}
}

func (cl *vfMqCluster) startDead() (string, error) {
	var l net.Listener
	var err error
	for attempt := 0; attempt < 40; attempt++ {
		if attempt > 0 {
			time.Sleep(time.Duration(attempt) * 50 * time.Millisecond)
		}
		if l, err = net.Listen("tcp", "127.0.0.1:0"); err == nil {
			break
		}
	}
	if err != nil {
		return "", err
	}
	cl.dead, cl.deadDone = l, make(chan struct{})
	go func() {
		defer close(cl.deadDone)
		for {
			c, err := l.Accept()
			if err != nil {
				return
			}
			if tc, ok := c.(*net.TCPConn); ok {
				tc.SetLinger(0)
			}
			c.Close()
		}
	}()
	vfMqTransfers.deadHosts.Store(l.Addr().String(), true)
	return "http://" + l.Addr().String() + "/apis/v1/mqttproxy/vfmq/topics/publish", nil
}

// vfMqDeadRefusals: forwarded requests that failed at a deliberately dead member so far.
func vfMqDeadRefusals() int64 { return atomic.LoadInt64(&vfMqTransfers.deadRefused) }

// vfMqNewCluster starts n members. order[i] lists the other members in the order member i's
// member list reports them (nil: ascending); the index n in such a list stands for an additional
// member that is down (startDead).
func vfMqNewCluster(n int, order [][]int) (*vfMqCluster, error) {
	vfMqTransfersOnce.Do(func() { http.DefaultClient.Transport = vfMqTransfers })
	cl := &vfMqCluster{}
	for i := 0; i < n; i++ {
		r, err := vfMqNewRig(nil)
		if err != nil {
			cl.Close()
			return nil, err
		}
		cl.Rigs = append(cl.Rigs, r)
		var l net.Listener
		for attempt := 0; attempt < 40; attempt++ {
			if attempt > 0 {
				time.Sleep(time.Duration(attempt) * 50 * time.Millisecond)
			}
			if l, err = net.Listen("tcp", "127.0.0.1:0"); err == nil {
				break
			}
		}
		if err != nil {
			cl.Close()
			return nil, err
		}
		// (httptest.NewUnstartedServer would panic when no port is free)
		r.httpSrv = &httptest.Server{Listener: l, Config: &http.Server{Handler: http.HandlerFunc(r.broker.httpTopicsPublishHandler)}}
		r.httpSrv.Start()
	}
	deadURL := ""
	for _, o := range order {
		for _, j := range o {
			if j == n && deadURL == "" {
				u, err := cl.startDead()
				if err != nil {
					cl.Close()
					return nil, err
				}
				deadURL = u
			}
		}
	}
	for i, r := range cl.Rigs {
		var urls []string
		if order != nil {
			for _, j := range order[i] {
				if j == n {
					urls = append(urls, deadURL)
					continue
				}
				urls = append(urls, cl.Rigs[j].httpSrv.URL+"/apis/v1/mqttproxy/vfmq/topics/publish")
			}
		} else {
			for j, o := range cl.Rigs {
				if j != i {
					urls = append(urls, o.httpSrv.URL+"/apis/v1/mqttproxy/vfmq/topics/publish")
				}
			}
		}
		r.peerMu.Lock()
		r.peerURLs = urls
		r.peerMu.Unlock()
	}
	return cl, nil
}

// TransferFailures: transport-level failures of forwarded publishes so far (whole process).
func vfMqTransferFailures() int64 { return atomic.LoadInt64(&vfMqTransfers.transport) }

// Close stops the HTTP servers, then the brokers and their clients.
func (cl *vfMqCluster) Close() {
	for _, r := range cl.Rigs {
		if r.httpSrv != nil {
			r.httpSrv.Close()
		}
	}
	for _, r := range cl.Rigs {
		r.Close()
	}
	if cl.dead != nil {
		cl.dead.Close()
		<-cl.deadDone
		vfMqTransfers.deadHosts.Delete(cl.dead.Addr().String())
		cl.dead = nil
	}
	if t, ok := http.DefaultTransport.(*http.Transport); ok {
		t.CloseIdleConnections()
	}
}

func vfMqNewRig(spec *Spec) (*vfMqRig, error) { return vfMqNewRigGate(spec, false) }

// vfMqNewRigGate: withDisconnectPipeline configures a pipeline for the Disconnect packet type
// (r.DiscGate); without it the broker is configured as in vfMqNewRig.
func vfMqNewRigGate(spec *Spec, withDisconnectPipeline bool) (*vfMqRig, error) {
	if spec == nil {
		spec = &Spec{}
	}
	spec.Name, spec.EGName, spec.Port = "vfmq", "vfmq", 0
	spec.Rules = []*Rule{{When: &When{PacketType: Publish}, Pipeline: vfMqPublishPipeline}}
	r := &vfMqRig{store: vfMqNewStore(), rec: &vfMqRecorder{}}
	if withDisconnectPipeline {
		spec.Rules = append(spec.Rules, &Rule{When: &When{PacketType: Disconnect}, Pipeline: vfMqDisconnectPipeline})
		r.DiscGate = &vfMqDiscGate{armed: map[string]bool{}, parked: map[string]chan struct{}{}}
	}
	// newBroker returns nil when it cannot listen; on a machine where many checks open sockets
	// at once the ephemeral port range can be exhausted for a moment: retry for a while
	for attempt := 0; attempt < 40 && r.broker == nil; attempt++ {
		if attempt > 0 {
			time.Sleep(time.Duration(attempt) * 50 * time.Millisecond)
		}
		r.broker = newBroker(spec, r.store, &vfMqMapper{rec: r.rec, gate: r.DiscGate}, func(string, string) ([]string, error) { return r.peers(), nil })
	}
	if r.broker == nil {
		return nil, errors.New("newBroker returned nil (cannot listen)")
	}
	ta, ok := r.broker.listener.Addr().(*net.TCPAddr)
	if !ok {
		r.broker.close()
		return nil, errors.New("listener is not TCP")
	}
	r.addr = fmt.Sprintf("127.0.0.1:%d", ta.Port)
	// The fence and filler records travel through the session store loop like the records of live
	// sessions: give their keys an entry among the local sessions, so that a store loop that looks
	// at the owner of a record before writing it treats them like any other (a fence the loop drops
	// would end every check as "inconclusive" instead of showing what the loop did to real records).
	for _, k := range []string{vfMqFenceKey, vfMqFillerKey} {
		r.broker.sessMgr.sessionMap.Store(k, &Session{done: make(chan struct{})})
	}
	return r, nil
}

// Close ends the broker and every raw client and joins the reader goroutines.
func (r *vfMqRig) Close() {
	if r.DiscGate != nil {
		r.DiscGate.releaseAll()
	}
	r.store.release()
	// stop the retransmission loops of the sessions that are still registered
	var ids []string
	r.broker.sessMgr.sessionMap.Range(func(k, v interface{}) bool { ids = append(ids, k.(string)); return true })
	r.broker.close()
	for _, c := range r.clients {
		c.Kill()
	}
	for _, c := range r.clients {
		<-c.done
	}
	for _, id := range ids {
		r.broker.sessMgr.delLocal(id)
	}
	// The store loop is gone now; session writes that were still on their way would sit in their
	// sender goroutines for ever (and be mistaken for pending writes by the next case's fence).
	deadline := time.Now().Add(2 * time.Second)
	for time.Now().Before(deadline) {
		select {
		case <-r.broker.sessMgr.storeCh:
			continue
		default:
		}
		st := vfMqStacks()
		pending := false
		for _, s := range vfMqStoreFrames {
			if strings.Contains(st, s) {
				pending = true
			}
		}
		if !pending {
			break
		}
		time.Sleep(200 * time.Microsecond)
	}
}

// Publish injects a message through the HTTP publish endpoint; it returns the HTTP status.
func (r *vfMqRig) Publish(topic string, qos int, payload string) int {
	body, _ := json.Marshal(HTTPJsonData{Topic: topic, QoS: qos, Payload: payload})
	req := httptest.NewRequest(http.MethodPost, "/mqttproxy/vfmq/topics/publish", bytes.NewReader(body))
	w := httptest.NewRecorder()
	r.broker.httpTopicsPublishHandler(w, req)
	return w.Code
}

// PublishBytes injects a message with an arbitrary (binary) payload through the HTTP publish
// endpoint, the way the endpoint documents it: "base64": true and the payload in standard base64.
func (r *vfMqRig) PublishBytes(topic string, qos int, payload []byte) int {
	body, _ := json.Marshal(HTTPJsonData{Topic: topic, QoS: qos, Payload: base64.StdEncoding.EncodeToString(payload), Base64: true})
	req := httptest.NewRequest(http.MethodPost, "/mqttproxy/vfmq/topics/publish", bytes.NewReader(body))
	w := httptest.NewRecorder()
	r.broker.httpTopicsPublishHandler(w, req)
	return w.Code
}

// DeleteSessionRecord removes the stored record of a client id directly in the store, as the
// session delete of another cluster member would; the broker hears about it through its watcher.
func (r *vfMqRig) DeleteSessionRecord(cid string) {
	r.store.delete(sessionStoreKey(cid))
}

// FanoutBarrier returns when every fan-out goroutine started by earlier Publish calls has ended,
// i.e. every copy those messages will ever get (first transmission) sits in a client's write queue.
func (r *vfMqRig) FanoutBarrier() error {
	seen, err := vfMqNoGoroutine(vfMqFanoutFrames...)
	if seen {
		r.SawFanout++
	}
	return err
}

// DeleteSessions calls the admin endpoint that deletes sessions.
func (r *vfMqRig) DeleteSessions(ids ...string) int {
	data := HTTPSessions{}
	for _, id := range ids {
		data.Sessions = append(data.Sessions, &HTTPSession{SessionID: id})
	}
	body, _ := json.Marshal(data)
	req := httptest.NewRequest(http.MethodDelete, "/mqttproxy/vfmq/sessions", bytes.NewReader(body))
	w := httptest.NewRecorder()
	r.broker.httpDeleteSessionHandler(w, req)
	return w.Code
}

// StoreFence returns when every session write issued so far has been applied to the store.
func (r *vfMqRig) StoreFence() error {
	r.store.release()
	seen, err := vfMqNoGoroutine(vfMqStoreFrames...)
	if seen {
		r.SawStore++
	}
	if err != nil {
		return err
	}
	// the store loop applies writes one at a time in the order it takes them from storeCh: once it
	// has applied the fence, everything handed over before is in the store
	r.fenceNo++
	select {
	case r.broker.sessMgr.storeCh <- SessionStore{key: vfMqFenceKey, value: strconv.Itoa(r.fenceNo)}:
	case <-time.After(vfMqWait):
		return errors.New("session store loop does not accept writes")
	}
	deadline := time.Now().Add(vfMqWait)
	for {
		r.store.mu.Lock()
		done := r.store.fenced >= r.fenceNo
		r.store.mu.Unlock()
		if done {
			return nil
		}
		if time.Now().After(deadline) {
			return errors.New("session store loop did not apply the fence")
		}
		time.Sleep(100 * time.Microsecond)
	}
}

// FlushWatch delivers the queued delete events to the broker's watcher and waits until the
// deleteSession goroutines they start have ended.
func (r *vfMqRig) FlushWatch() (delivered int, err error) {
	for round := 0; round < 4; round++ {
		evs := r.store.takePending()
		if len(evs) == 0 {
			break
		}
		for _, ev := range append(evs, map[string]*string{}) { // the empty map is a fence for the loop
			select {
			case r.store.watchCh <- ev:
			case <-time.After(vfMqWait):
				return delivered, errors.New("delete watcher does not take events")
			}
		}
		delivered += len(evs)
		seen, err := vfMqNoGoroutine(vfMqDeleteFrames...)
		if seen {
			r.SawDelete++
		}
		if err != nil {
			return delivered, err
		}
	}
	return delivered, nil
}

// Quiesce = StoreFence + FlushWatch.
func (r *vfMqRig) Quiesce() error {
	if err := r.StoreFence(); err != nil {
		return err
	}
	_, err := r.FlushWatch()
	return err
}

// registered returns the broker-side client registered for cid (nil if none).
func (r *vfMqRig) registered(cid string) *Client {
	r.broker.RLock()
	defer r.broker.RUnlock()
	return r.broker.clients[cid]
}

// routed reports whether the trie routes topic to cid.
func (r *vfMqRig) routed(cid, topic string) bool {
	subs, _ := r.broker.topicMgr.findSubscribers(topic)
	_, ok := subs[cid]
	return ok
}

// ---------------------------------------------------------------------------------------------
// raw client

type vfMqEvent struct {
	Kind    byte // packets.Publish, packets.Puback, ...
	ID      uint16
	Topic   string
	Payload string
	QoS     byte
	Dup     bool
	Code    byte // CONNACK return code
	Present bool // CONNACK session present
}

func (e vfMqEvent) String() string {
	switch e.Kind {
	case packets.Publish:
		return fmt.Sprintf("PUBLISH(id=%d q%d %s %q)", e.ID, e.QoS, e.Topic, e.Payload)
	case packets.Puback:
		return fmt.Sprintf("PUBACK(%d)", e.ID)
	case packets.Suback:
		return fmt.Sprintf("SUBACK(%d)", e.ID)
	case packets.Unsuback:
		return fmt.Sprintf("UNSUBACK(%d)", e.ID)
	case packets.Pingresp:
		return "PINGRESP"
	case packets.Connack:
		return fmt.Sprintf("CONNACK(%d)", e.Code)
	}
	return fmt.Sprintf("PACKET(%d)", e.Kind)
}

// vfMqAckPolicy decides, for the n-th copy (n >= 1) of QoS1 packet id `id` which was the
// `ord`-th distinct QoS1 id this connection saw (ord >= 0), whether to send PUBACK now.
type vfMqAckPolicy func(id uint16, ord int, n int) bool

func vfMqAckAlways(id uint16, ord, n int) bool { return true }

type vfMqClient struct {
	Label string
	CID   string
	conn  *net.TCPConn
	wmu   sync.Mutex

	mu     sync.Mutex
	wake   chan struct{}
	events []vfMqEvent
	eof    bool
	policy vfMqAckPolicy
	copies map[uint16]int
	order  map[uint16]int
	acked  map[uint16]bool
	done   chan struct{}
	nextID uint16
}

// vfMqFaultConn is the broker side of a connection whose writes can be made to fail, like a
// socket whose peer vanished: the writer notices, the blocked reader does not (yet).
type vfMqFaultConn struct {
	net.Conn
	failWrites int32
	handled    chan struct{} // closed when Broker.handleConn returned for this connection
}

func (f *vfMqFaultConn) Write(p []byte) (int, error) {
	if atomic.LoadInt32(&f.failWrites) == 1 {
		return 0, errors.New("vfMqFaultConn: injected write failure")
	}
	return f.Conn.Write(p)
}

// FailWrites makes every later write of the broker to this connection fail.
func (f *vfMqFaultConn) FailWrites() { atomic.StoreInt32(&f.failWrites, 1) }

// DialFault opens a loopback TCP connection whose broker side is wrapped in a vfMqFaultConn and
// served by Broker.handleConn directly (the accept loop only does `go b.handleConn(conn)`).
func (r *vfMqRig) DialFault(label string) (*vfMqClient, *vfMqFaultConn, error) {
	var l net.Listener
	var err error
	for attempt := 0; attempt < 40; attempt++ {
		if attempt > 0 {
			time.Sleep(time.Duration(attempt) * 50 * time.Millisecond)
		}
		if l, err = net.Listen("tcp", "127.0.0.1:0"); err == nil {
			break
		}
	}
	if err != nil {
		return nil, nil, err
	}
	defer l.Close()
	type acc struct {
		c   net.Conn
		err error
	}
	ch := make(chan acc, 1)
	go func() {
		c, err := l.Accept()
		ch <- acc{c, err}
	}()
	cli, err := net.DialTimeout("tcp", l.Addr().String(), vfMqWait)
	if err != nil {
		return nil, nil, err
	}
	a := <-ch
	if a.err != nil {
		cli.Close()
		return nil, nil, a.err
	}
	fc := &vfMqFaultConn{Conn: a.c, handled: make(chan struct{})}
	go func() {
		r.broker.handleConn(fc)
		close(fc.handled)
	}()
	c := &vfMqClient{Label: label, conn: cli.(*net.TCPConn), wake: make(chan struct{}), policy: vfMqAckAlways,
		copies: map[uint16]int{}, order: map[uint16]int{}, acked: map[uint16]bool{}, done: make(chan struct{}), nextID: 1}
	r.clients = append(r.clients, c)
	go c.reader()
	return c, fc, nil
}

func (r *vfMqRig) Dial(label string) (*vfMqClient, error) {
	var conn net.Conn
	var err error
	for attempt := 0; attempt < 40; attempt++ {
		if attempt > 0 {
			time.Sleep(time.Duration(attempt) * 50 * time.Millisecond)
		}
		if conn, err = net.DialTimeout("tcp", r.addr, vfMqWait); err == nil {
			break
		}
	}
	if err != nil {
		return nil, err
	}
	c := &vfMqClient{Label: label, conn: conn.(*net.TCPConn), wake: make(chan struct{}), policy: vfMqAckAlways,
		copies: map[uint16]int{}, order: map[uint16]int{}, acked: map[uint16]bool{}, done: make(chan struct{}), nextID: 1}
	r.clients = append(r.clients, c)
	go c.reader()
	return c, nil
}

func (c *vfMqClient) reader() {
	defer close(c.done)
	for {
		p, err := packets.ReadPacket(c.conn)
		c.mu.Lock()
		if err != nil {
			c.eof = true
			close(c.wake)
			c.wake = make(chan struct{})
			c.mu.Unlock()
			return
		}
		ev := vfMqEvent{}
		ack := false
		switch x := p.(type) {
		case *packets.PublishPacket:
			ev = vfMqEvent{Kind: packets.Publish, ID: x.MessageID, Topic: x.TopicName, Payload: string(x.Payload), QoS: x.Qos, Dup: x.Dup}
			if x.Qos == 1 {
				if _, ok := c.order[x.MessageID]; !ok {
					c.order[x.MessageID] = len(c.order)
				}
				c.copies[x.MessageID]++
				if c.policy(x.MessageID, c.order[x.MessageID], c.copies[x.MessageID]) {
					ack = true
					c.acked[x.MessageID] = true
				}
			}
		case *packets.PubackPacket:
			ev = vfMqEvent{Kind: packets.Puback, ID: x.MessageID}
		case *packets.SubackPacket:
			ev = vfMqEvent{Kind: packets.Suback, ID: x.MessageID}
		case *packets.UnsubackPacket:
			ev = vfMqEvent{Kind: packets.Unsuback, ID: x.MessageID}
		case *packets.PingrespPacket:
			ev = vfMqEvent{Kind: packets.Pingresp}
		case *packets.ConnackPacket:
			ev = vfMqEvent{Kind: packets.Connack, Code: x.ReturnCode, Present: x.SessionPresent}
		default:
			ev = vfMqEvent{Kind: 0xff}
		}
		c.events = append(c.events, ev)
		close(c.wake)
		c.wake = make(chan struct{})
		c.mu.Unlock()
		if ack {
			c.sendPuback(ev.ID)
		}
	}
}

func (c *vfMqClient) write(ps ...packets.ControlPacket) error {
	var buf bytes.Buffer
	for _, p := range ps {
		if err := p.Write(&buf); err != nil {
			return err
		}
	}
	c.wmu.Lock()
	defer c.wmu.Unlock()
	c.conn.SetWriteDeadline(time.Now().Add(vfMqWait))
	_, err := c.conn.Write(buf.Bytes())
	return err
}

func (c *vfMqClient) sendPuback(id uint16) error {
	p := packets.NewControlPacket(packets.Puback).(*packets.PubackPacket)
	p.MessageID = id
	return c.write(p)
}

// waitFor blocks until pred (evaluated under the lock) holds, EOF, or the timeout.
func (c *vfMqClient) waitFor(timeout time.Duration, pred func() bool) bool {
	deadline := time.NewTimer(timeout)
	defer deadline.Stop()
	for {
		c.mu.Lock()
		if pred() {
			c.mu.Unlock()
			return true
		}
		if c.eof {
			c.mu.Unlock()
			return false
		}
		w := c.wake
		c.mu.Unlock()
		select {
		case <-w:
		case <-deadline.C:
			c.mu.Lock()
			ok := pred()
			c.mu.Unlock()
			return ok
		}
	}
}

func (c *vfMqClient) countLocked(kind byte, id int) int {
	n := 0
	for _, e := range c.events {
		if e.Kind == kind && (id < 0 || int(e.ID) == id) {
			n++
		}
	}
	return n
}

// SetPolicy replaces the ack policy (takes effect for packets read afterwards).
func (c *vfMqClient) SetPolicy(p vfMqAckPolicy) {
	c.mu.Lock()
	c.policy = p
	c.mu.Unlock()
}

func vfMqConnectPacket(cid string, clean bool) *packets.ConnectPacket {
	p := packets.NewControlPacket(packets.Connect).(*packets.ConnectPacket)
	p.ProtocolName, p.ProtocolVersion, p.ClientIdentifier, p.CleanSession, p.Keepalive = "MQTT", 4, cid, clean, 0
	return p
}

// Connect sends CONNECT (keep-alive 0: the broker sets no read deadline) and waits for CONNACK.
func (c *vfMqClient) Connect(cid string, clean bool) (code byte, err error) {
	c.CID = cid
	if err := c.write(vfMqConnectPacket(cid, clean)); err != nil {
		return 0, err
	}
	if !c.waitFor(vfMqWait, func() bool { return c.countLocked(packets.Connack, -1) > 0 }) {
		return 0, fmt.Errorf("%s: no CONNACK (eof=%v)", c.Label, c.EOF())
	}
	c.mu.Lock()
	defer c.mu.Unlock()
	for _, e := range c.events {
		if e.Kind == packets.Connack {
			return e.Code, nil
		}
	}
	return 0, errors.New("unreachable")
}

func (c *vfMqClient) newID() uint16 {
	id := c.nextID
	c.nextID++
	return id
}

func vfMqSubscribePacket(id uint16, filters []string, qoss []byte) *packets.SubscribePacket {
	p := packets.NewControlPacket(packets.Subscribe).(*packets.SubscribePacket)
	p.MessageID, p.Topics, p.Qoss = id, filters, qoss
	return p
}

func vfMqUnsubscribePacket(id uint16, filters []string) *packets.UnsubscribePacket {
	p := packets.NewControlPacket(packets.Unsubscribe).(*packets.UnsubscribePacket)
	p.MessageID, p.Topics = id, filters
	return p
}

func vfMqPublishPacket(id uint16, topic string, qos byte, payload string) *packets.PublishPacket {
	p := packets.NewControlPacket(packets.Publish).(*packets.PublishPacket)
	p.MessageID, p.TopicName, p.Qos, p.Payload = id, topic, qos, []byte(payload)
	return p
}

// Subscribe sends one SUBSCRIBE and waits for its SUBACK.
func (c *vfMqClient) Subscribe(filters []string, qoss []byte) error {
	id := c.newID()
	if err := c.write(vfMqSubscribePacket(id, filters, qoss)); err != nil {
		return err
	}
	return c.WaitAck(packets.Suback, id)
}

// Unsubscribe sends one UNSUBSCRIBE and waits for its UNSUBACK.
func (c *vfMqClient) Unsubscribe(filters []string) error {
	id := c.newID()
	if err := c.write(vfMqUnsubscribePacket(id, filters)); err != nil {
		return err
	}
	return c.WaitAck(packets.Unsuback, id)
}

func (c *vfMqClient) WaitAck(kind byte, id uint16) error {
	if !c.waitFor(vfMqWait, func() bool { return c.countLocked(kind, int(id)) > 0 }) {
		return fmt.Errorf("%s: no ack kind=%d id=%d (eof=%v)", c.Label, kind, id, c.EOF())
	}
	return nil
}

// Ping sends PINGREQ and waits for a PINGRESP that was not there before. Everything the broker
// queued for this connection before it processed the PINGREQ has been read when Ping returns.
// It returns the length of the event log at that moment.
func (c *vfMqClient) Ping() (pos int, err error) {
	c.mu.Lock()
	n := c.countLocked(packets.Pingresp, -1)
	c.mu.Unlock()
	if err := c.write(packets.NewControlPacket(packets.Pingreq)); err != nil {
		return 0, fmt.Errorf("%s: write PINGREQ: %v", c.Label, err)
	}
	if !c.waitFor(vfMqWait, func() bool { return c.countLocked(packets.Pingresp, -1) > n }) {
		return 0, fmt.Errorf("%s: no PINGRESP (eof=%v)", c.Label, c.EOF())
	}
	c.mu.Lock()
	defer c.mu.Unlock()
	// position right after the (n+1)-th PINGRESP
	k := 0
	for i, e := range c.events {
		if e.Kind == packets.Pingresp {
			k++
			if k == n+1 {
				return i + 1, nil
			}
		}
	}
	return len(c.events), nil
}

func (c *vfMqClient) EOF() bool {
	c.mu.Lock()
	defer c.mu.Unlock()
	return c.eof
}

// WaitEOF waits until the broker closed the connection.
func (c *vfMqClient) WaitEOF(timeout time.Duration) bool {
	c.waitFor(timeout, func() bool { return c.eof })
	return c.EOF()
}

// Events returns a copy of the log.
func (c *vfMqClient) Events() []vfMqEvent {
	c.mu.Lock()
	defer c.mu.Unlock()
	return append([]vfMqEvent(nil), c.events...)
}

// Publishes returns the PUBLISH events with the given payload (all if payload == "").
func (c *vfMqClient) Publishes(payload string) []vfMqEvent {
	var out []vfMqEvent
	for _, e := range c.Events() {
		if e.Kind == packets.Publish && (payload == "" || e.Payload == payload) {
			out = append(out, e)
		}
	}
	return out
}

// Unacked returns the QoS1 ids seen for which no PUBACK was sent, in order of first arrival.
func (c *vfMqClient) Unacked() []uint16 {
	c.mu.Lock()
	defer c.mu.Unlock()
	var ids []uint16
	for id := range c.order {
		if !c.acked[id] {
			ids = append(ids, id)
		}
	}
	sort.Slice(ids, func(i, j int) bool { return c.order[ids[i]] < c.order[ids[j]] })
	return ids
}

// AckAll switches to immediate acks and acknowledges every QoS1 packet id this connection has
// seen, also those the reader goroutine has already decided to acknowledge: its PUBACK may still
// be on its way, and the caller wants "everything acknowledged" to hold before its next write.
func (c *vfMqClient) AckAll() error {
	c.SetPolicy(vfMqAckAlways)
	c.mu.Lock()
	ids := make([]uint16, 0, len(c.order))
	for id := range c.order {
		ids = append(ids, id)
		c.acked[id] = true
	}
	sort.Slice(ids, func(i, j int) bool { return c.order[ids[i]] < c.order[ids[j]] })
	c.mu.Unlock()
	for _, id := range ids {
		if err := c.sendPuback(id); err != nil {
			return err
		}
	}
	return nil
}

// Disconnect sends DISCONNECT.
func (c *vfMqClient) Disconnect() error {
	return c.write(packets.NewControlPacket(packets.Disconnect))
}

// HalfClose shuts the sending direction down: the broker reads EOF (a dropped network
// connection as the broker sees it) while the harness can still observe the broker's close.
func (c *vfMqClient) HalfClose() error {
	return c.conn.CloseWrite()
}

// Kill aborts the connection (RST, like a crashed client). No FIN handshake means no TIME_WAIT
// entry: thousands of cases per minute would otherwise exhaust the ephemeral port range.
func (c *vfMqClient) Kill() {
	c.conn.SetLinger(0)
	c.conn.Close()
}

func (c *vfMqClient) LocalAddr() string { return c.conn.LocalAddr().String() }

func vfMqFmtEvents(evs []vfMqEvent) string {
	var sb strings.Builder
	for i, e := range evs {
		if i > 0 {
			sb.WriteString(" ")
		}
		sb.WriteString(e.String())
	}
	return sb.String()
}
