//go:build go1.21

// vfetcd: embedded-etcd test bed shared by the C18 (mutex) and C19 (syncer) harnesses.
// One primary member (embedded etcd server), any number of client-only secondary members, an
// optional harness-owned TCP relay between a secondary and the server (so that a network partition
// between that member and the store can be produced from outside), and a raw etcd client for the
// harness's own writes/inspection.  Everything is started once per test process.
package cluster

import (
	"context"
	"fmt"
	"io"
	"net"
	"net/url"
	"os"
	"path/filepath"
	"sync"
	"testing"
	"time"

	clientv3 "go.etcd.io/etcd/client/v3"

	"github.com/megaease/easegress/pkg/env"
	"github.com/megaease/easegress/pkg/option"
)

// vfRelay is a dumb TCP relay 127.0.0.1:port -> backend. Cut() closes every open connection and
// refuses new ones until Heal().
type vfRelay struct {
	ln      net.Listener
	backend string
	mu      sync.Mutex
	cut     bool
	conns   map[net.Conn]struct{}
	done    chan struct{}
}

func vfNewRelay(backendHostPort string) (*vfRelay, error) {
	ln, err := net.Listen("tcp", "127.0.0.1:0")
	if err != nil {
		return nil, err
	}
	r := &vfRelay{ln: ln, backend: backendHostPort, conns: map[net.Conn]struct{}{}, done: make(chan struct{})}
	go r.serve()
	return r, nil
}

func (r *vfRelay) URL() string { return "http://" + r.ln.Addr().String() }

func (r *vfRelay) serve() {
	for {
		c, err := r.ln.Accept()
		if err != nil {
			return
		}
		r.mu.Lock()
		cut := r.cut
		r.mu.Unlock()
		if cut {
			c.Close()
			continue
		}
		go r.handle(c)
	}
}

func (r *vfRelay) handle(c net.Conn) {
	b, err := net.DialTimeout("tcp", r.backend, 2*time.Second)
	if err != nil {
		c.Close()
		return
	}
	r.mu.Lock()
	if r.cut {
		r.mu.Unlock()
		c.Close()
		b.Close()
		return
	}
	r.conns[c] = struct{}{}
	r.conns[b] = struct{}{}
	r.mu.Unlock()
	closeBoth := func() {
		c.Close()
		b.Close()
		r.mu.Lock()
		delete(r.conns, c)
		delete(r.conns, b)
		r.mu.Unlock()
	}
	var once sync.Once
	go func() { io.Copy(b, c); once.Do(closeBoth) }()
	go func() { io.Copy(c, b); once.Do(closeBoth) }()
}

// Cut severs the relay: all connections are closed, new ones are refused.
func (r *vfRelay) Cut() {
	r.mu.Lock()
	r.cut = true
	cs := make([]net.Conn, 0, len(r.conns))
	for c := range r.conns {
		cs = append(cs, c)
	}
	r.mu.Unlock()
	for _, c := range cs {
		c.Close()
	}
}

func (r *vfRelay) Heal() {
	r.mu.Lock()
	r.cut = false
	r.mu.Unlock()
}

func (r *vfRelay) Close() {
	r.ln.Close()
	r.Cut()
}

// vfPorts picks n TCP ports on 127.0.0.1 below the ephemeral range (so that neither the OS-assigned
// ports of concurrently running tests nor an outgoing connection of this process can take a port
// while the etcd server is down between stop and start), spread by pid so that shards differ.
var vfPortCursor int

func vfPorts(n int) ([]int, error) {
	const lo, span = 10000, 22000
	var out []int
	for tries := 0; len(out) < n && tries < 4000; tries++ {
		vfPortCursor++
		p := lo + (os.Getpid()*131+vfPortCursor*37)%span
		ln, err := net.Listen("tcp", fmt.Sprintf("127.0.0.1:%d", p))
		if err != nil {
			continue
		}
		ln.Close()
		out = append(out, p)
	}
	if len(out) < n {
		return nil, fmt.Errorf("no free ports found")
	}
	return out, nil
}

// vfNewCluster runs New with a watchdog: New retries forever when the server cannot start.
func vfNewCluster(opt *option.Options, wait time.Duration) (Cluster, error) {
	type res struct {
		c   Cluster
		err error
	}
	ch := make(chan res, 1)
	go func() {
		c, err := New(opt)
		ch <- res{c, err}
	}()
	select {
	case r := <-ch:
		if r.err != nil {
			return nil, r.err
		}
		return r.c, nil
	case <-time.After(wait):
		return nil, fmt.Errorf("cluster.New did not return within %v (it retries forever when the server cannot start)", wait)
	}
}

// vfBed is the test bed.
type vfBed struct {
	dir       string
	primary   Cluster
	popt      *option.Options
	clientURL string // the server's real client URL (direct)
	peerURL   string // the server's peer URL (members use it as their endpoint)
	relay     *vfRelay
	raw       *clientv3.Client // direct, no auto-sync: the harness's own client
	members   []Cluster        // secondaries
}

// vfParse runs opt.Parse() with the test binary's own flags hidden (Parse reads os.Args).
func vfParse(opt *option.Options) error {
	saved := os.Args
	os.Args = saved[:1]
	defer func() { os.Args = saved }()
	_, err := opt.Parse()
	return err
}

// vfStartBed boots the primary (embedded etcd, data under dir). With viaRelay the server
// advertises the relay as its client URL, so that members which auto-sync their endpoints keep
// going through the relay.
func vfStartBed(t *testing.T, viaRelay bool) *vfBed {
	dir := t.TempDir()
	ports, err := vfPorts(3)
	if err != nil {
		t.Fatalf("VF-INCONCLUSIVE no free ports: %v", err)
	}
	b := &vfBed{dir: dir}
	b.clientURL = fmt.Sprintf("http://127.0.0.1:%d", ports[0])
	b.peerURL = fmt.Sprintf("http://127.0.0.1:%d", ports[1])
	if viaRelay {
		b.relay, err = vfNewRelay(fmt.Sprintf("127.0.0.1:%d", ports[1]))
		if err != nil {
			t.Fatalf("VF-INCONCLUSIVE relay: %v", err)
		}
	}
	name := "vf-primary"
	opt := option.New()
	opt.Name = name
	opt.ClusterName = "vf-cluster"
	opt.ClusterRole = "primary"
	opt.ClusterRequestTimeout = "10s"
	opt.Cluster.ListenClientURLs = []string{b.clientURL}
	opt.Cluster.AdvertiseClientURLs = []string{b.clientURL}
	if viaRelay {
		opt.Cluster.AdvertiseClientURLs = []string{b.relay.URL()}
	}
	opt.Cluster.ListenPeerURLs = []string{b.peerURL}
	opt.Cluster.InitialAdvertisePeerURLs = []string{b.peerURL}
	opt.Cluster.InitialCluster = map[string]string{name: b.peerURL}
	opt.APIAddr = fmt.Sprintf("127.0.0.1:%d", ports[2])
	opt.HomeDir = filepath.Join(dir, name)
	opt.DataDir = "data"
	opt.LogDir = "log"
	opt.MemberDir = "member"
	if err := vfParse(opt); err != nil {
		t.Fatalf("VF-INCONCLUSIVE options: %v", err)
	}
	env.InitServerDir(opt)
	c, err := vfNewCluster(opt, 3*time.Minute)
	if err != nil {
		t.Fatalf("VF-INCONCLUSIVE cluster.New: %v", err)
	}
	b.primary = c
	b.popt = opt
	b.raw, err = clientv3.New(clientv3.Config{Endpoints: []string{b.clientURL}, DialTimeout: 10 * time.Second})
	if err != nil {
		t.Fatalf("VF-INCONCLUSIVE raw client: %v", err)
	}
	t.Cleanup(func() {
		b.raw.Close()
		wg := &sync.WaitGroup{}
		for _, m := range b.members {
			wg.Add(1)
			m.Close(wg)
		}
		wg.Add(1)
		b.primary.Close(wg)
		if b.relay != nil {
			b.relay.Close()
		}
	})
	return b
}

// vfAddSecondary creates a client-only member. Its endpoint is the relay when viaRelay is set,
// else the server's peer URL.
func (b *vfBed) vfAddSecondary(t *testing.T, name string, viaRelay bool) Cluster {
	return b.vfAddSecondaryTimeout(t, name, viaRelay, "10s")
}

// vfAddSecondaryTimeout: same, with the member's cluster-request-timeout option given.
func (b *vfBed) vfAddSecondaryTimeout(t *testing.T, name string, viaRelay bool, requestTimeout string) Cluster {
	ports, err := vfPorts(1)
	if err != nil {
		t.Fatalf("VF-INCONCLUSIVE no free ports: %v", err)
	}
	opt := option.New()
	opt.Name = name
	opt.ClusterName = "vf-cluster"
	opt.ClusterRole = "secondary"
	opt.ClusterRequestTimeout = requestTimeout
	ep := b.peerURL
	if viaRelay {
		ep = b.relay.URL()
	}
	opt.Cluster.PrimaryListenPeerURLs = []string{ep}
	opt.APIAddr = fmt.Sprintf("127.0.0.1:%d", ports[0])
	opt.HomeDir = filepath.Join(b.dir, name)
	opt.DataDir = "data"
	opt.LogDir = "log"
	opt.MemberDir = "member"
	if err := vfParse(opt); err != nil {
		t.Fatalf("VF-INCONCLUSIVE options: %v", err)
	}
	env.InitServerDir(opt)
	m, err := vfNewCluster(opt, 3*time.Minute)
	if err != nil {
		t.Fatalf("VF-INCONCLUSIVE cluster.New(secondary): %v", err)
	}
	b.members = append(b.members, m)
	return m
}

// vfRestartServer stops and restarts the embedded etcd server of the primary (same data dir).
// Returns an error text when the server did not come back within the (generous) wait.
func (b *vfBed) vfStopServer() {
	wg := &sync.WaitGroup{}
	wg.Add(1)
	b.primary.CloseServer(wg)
	wg.Wait()
}

func (b *vfBed) vfStartServer(wait time.Duration) error {
	done, timeout, err := b.primary.StartServer()
	for t0 := time.Now(); err != nil && time.Since(t0) < wait/2; {
		// e.g. the listen port is momentarily taken: try again
		time.Sleep(250 * time.Millisecond)
		done, timeout, err = b.primary.StartServer()
	}
	if err != nil {
		return err
	}
	select {
	case <-done:
		return nil
	case <-timeout:
		return fmt.Errorf("server start timeout")
	case <-time.After(wait):
		return fmt.Errorf("server not ready after %v", wait)
	}
}

// vfRawCtx is a context for the harness's own etcd calls.
func vfRawCtx(d time.Duration) (context.Context, context.CancelFunc) {
	return context.WithTimeout(context.Background(), d)
}

func vfHostPort(u string) string {
	p, err := url.Parse(u)
	if err != nil {
		return u
	}
	return p.Host
}
